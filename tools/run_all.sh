#!/bin/bash
# Runs every registered quick (or $1 = thorough) check on the current tree and prints one line each.
cd /verif
tier=${1:-quick}
for i in 01 02 03 04 05 06 07 08 09 10 11 12 13 14 15 16 17 18 19; do
  s=$(date +%s); ./check C$i --tier $tier > /tmp/chk_C$i.log 2>&1; rc=$?
  echo "C$i rc=$rc $(( $(date +%s) - s ))s violations=$(grep -c '^VIOLATION' /tmp/chk_C$i.log) known=$(grep -c '^KNOWN-FINDING' /tmp/chk_C$i.log)"
done
