#!/usr/bin/env python3
"""keep_mutant.py <mutant dir> <seeded id>: copy a confirmed change into /verif/seeded/<id>/ with the verification record
taken from /tmp/mut/verify_log.txt."""
import json, os, shutil, sys
src, sid = sys.argv[1], sys.argv[2]
dst = os.path.join("/verif/seeded", sid)
os.makedirs(dst, exist_ok=True)
for f in ("patch.diff", "demo.diff"):
    shutil.copy(os.path.join(src, f), os.path.join(dst, f))
meta = json.load(open(os.path.join(src, "meta.json")))
log = [l.strip() for l in open("/tmp/mut/verify_log.txt") if l.startswith("RESULT " + src + " ")]
meta["confirmed_in_scratch_worktree"] = log[-1] if log else "not confirmed"
meta["what_i_ran"] = "tools/verify_mutant.sh: (1) clean tree + demo.diff: cargo test --offline <demo> passes; (2) + patch.diff: the demo fails; (3) patch.diff alone: cargo test --offline (43 tests) passes"
meta["source"] = "written by an independent sub-agent that saw only the property text and a scratch worktree"
json.dump(meta, open(os.path.join(dst, "meta.json"), "w"), ensure_ascii=False, indent=1)
print("kept", sid)
