#!/bin/bash
# Runs every quick check on the current tree under several seeds; prints one line per (check, seed) that is not clean.
# usage: seed_sweep.sh seed...
cd /verif
for seed in "$@"; do
  for i in 01 02 03 04 05 06 07 08 09 10 11 12 13 14 15 16 17 18 19; do
    VERIF_SEED=$seed ./check C$i --tier quick > /tmp/sweep_C${i}_$seed.log 2>&1; rc=$?
    v=$(grep -c '^VIOLATION' /tmp/sweep_C${i}_$seed.log)
    echo "seed=$seed C$i rc=$rc violations=$v"
  done
done
