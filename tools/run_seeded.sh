#!/bin/bash
# Runs the registered quick check of each seeded change's property against /repo with the change applied.
# usage: run_seeded.sh [id ...]   (default: all of /verif/seeded)
set -u
cd /verif
ids=${@:-$(ls seeded | grep -v "RESULTS\|THOROUGH")}
git -C /repo diff --quiet || { echo "/repo has uncommitted changes"; exit 2; }
for id in $ids; do
  prop=${id%%-*}
  if [ -f /verif/seeded/$id/patch.py ]; then (cd /repo && python3 /verif/seeded/$id/patch.py) || { echo "RESULT $id patch.py failed"; git -C /repo checkout -- .; continue; }
  else git -C /repo apply /verif/seeded/$id/patch.diff || { echo "RESULT $id patch does not apply"; continue; }; fi
  out=$(timeout 3000 ./check $prop --tier quick 2>&1); rc=$?
  git -C /repo checkout -- .
  v=$(echo "$out" | grep -c '^VIOLATION')
  nf=$(echo "$out" | grep -c 'no-failing-input-found')
  first=$(echo "$out" | grep '^VIOLATION' | head -1)
  rep=$(echo "$first" | sed -n 's/.*replay=\([^ ]*\).*/\1/p')
  what=""; [ -n "$rep" ] && what=$(python3 -c "import json,sys;print(json.load(open('$rep'))['what'][:160])" 2>/dev/null)
  echo "RESULT $id rc=$rc violations=$v no_input=$nf :: $what"
done
# leave the harness built against the clean tree
(cd /verif/harness && cargo build --release --offline >/dev/null 2>&1)
