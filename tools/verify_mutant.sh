#!/bin/bash
# usage: verify_mutant.sh <worktree> <mutant dir with patch.diff demo.diff meta.json>
# Confirms in a scratch worktree: demo passes on the clean tree, fails with the patch, and the unedited suite passes with the patch.
set -u
wt=$1; m=$2
name=$(python3 -c "import json,sys;print(json.load(open('$m/meta.json'))['demo_test_name'])")
cd $wt && git checkout -q -- . && git clean -qfd -e out -e target
export CARGO_NET_OFFLINE=true
git apply $m/demo.diff || { echo "RESULT $m demo.diff does not apply"; exit 1; }
a=$(cargo test --offline $name 2>&1 | grep -E "^test result" | head -1)
git apply $m/patch.diff || { echo "RESULT $m patch.diff does not apply on demo"; git checkout -q -- .; exit 1; }
b=$(cargo test --offline $name 2>&1 | grep -E "^test result" | head -1)
git checkout -q -- . && git clean -qfd -e out -e target
git apply $m/patch.diff
c=$(cargo test --offline 2>&1 | grep -E "^test result" | head -1)
git checkout -q -- . && git clean -qfd -e out -e target
echo "RESULT $m | clean+demo: $a | patch+demo: $b | patch only full suite: $c"
