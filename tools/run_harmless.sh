#!/bin/bash
# Applies each behaviour-preserving change of /verif/harmless to /repo, runs every quick check, restores the tree.
# A check that exits non-zero here is a false alarm (or the change is not harmless after all - look at the replay).
set -u
cd /verif
ids=${@:-$(ls harmless | grep -v RESULTS)}
git -C /repo diff --quiet || { echo "/repo has uncommitted changes"; exit 2; }
for id in $ids; do
  git -C /repo apply /verif/harmless/$id/patch.diff || { echo "RESULT $id patch does not apply"; continue; }
  bad=""
  for i in 01 02 03 04 05 06 07 08 09 10 11 12 13 14 15 16 17 18 19; do
    out=$(timeout 3000 ./check C$i --tier quick 2>&1); rc=$?
    if [ $rc -ne 0 ]; then
      first=$(echo "$out" | grep '^VIOLATION' | head -1)
      rep=$(echo "$first" | sed -n 's/.*replay=\([^ ]*\).*/\1/p')
      what=""; [ -n "$rep" ] && what=$(python3 -c "import json,sys;r=json.load(open('$rep'));print((r.get('what','')+' '+json.dumps(r.get('replay',{}).get('broken_obligation',''),ensure_ascii=False))[:260])" 2>/dev/null)
      bad="$bad C$i(rc=$rc: $what)"
    fi
  done
  git -C /repo checkout -- .
  echo "RESULT $id alarms:${bad:- none}"
done
(cd /verif/harness && cargo build --release --offline >/dev/null 2>&1)
