#!/usr/bin/env python3
"""Regenerate coq/gen/*.v from the current /repo:
   - tables obtained by EXECUTING riti's leaf functions over their whole domain (rv tables),
   - the specification tables derived from include/riti.h and tools/keynames.py,
   - the layout files (parsed here, not by riti).
Files are rewritten only when their content changes (so make does not rebuild needlessly)."""
import json, os, subprocess, sys
sys.path.insert(0, os.path.dirname(__file__))
import keynames

VERIF = os.path.dirname(os.path.dirname(os.path.abspath(__file__)))
CACHE = os.path.join(VERIF, ".cache")
GEN = os.path.join(VERIF, "coq", "gen")
RV = os.path.join(VERIF, "harness", "target", "release", "rv")
LAYOUTS = {"probhat": "/repo/data/Probhat.json", "synthetic": os.path.join(VERIF, "layouts", "synthetic.json")}

def write_if_changed(path, text):
    old = open(path, encoding="utf-8").read() if os.path.exists(path) else None
    if old != text:
        with open(path, "w", encoding="utf-8") as f:
            f.write(text)
        return True
    return False

def nlist(xs):
    return "[" + ";".join(str(x) for x in xs) + "]"

def pairs(xs):
    return "[" + ";".join("(%d,%d)" % (a, b) for a, b in xs) + "]"

def chunked(items, n=8):
    lines = []
    for i in range(0, len(items), n):
        lines.append("   " + ";".join(items[i:i + n]))
    return "[\n" + ";\n".join(lines) + "]"

def rust_unescape(lit):
    """the characters of a Rust string literal body"""
    import re
    out, i = [], 0
    while i < len(lit):
        c = lit[i]
        if c == "\\":
            n = lit[i + 1]
            if n == "u":
                j = lit.index("}", i)
                out.append(chr(int(lit[i + 3:j], 16)))
                i = j + 1
                continue
            out.append({"n": "\n", "t": "\t", "\\": "\\", '"': '"', "'": "'", "0": "\0"}[n])
            i += 2
        else:
            out.append(c)
            i += 1
    return "".join(out)

def string_literals(src):
    """bodies of the ordinary string literals of a Rust source text (comments and char literals skipped)"""
    import re
    out, i, n = [], 0, len(src)
    while i < n:
        c = src[i]
        if src.startswith("//", i):
            j = src.find("\n", i)
            i = n if j < 0 else j + 1
            continue
        if src.startswith("/*", i):
            j = src.find("*/", i)
            i = n if j < 0 else j + 2
            continue
        if c == "'":
            m = re.match(r"'(\\u\{[0-9a-fA-F]+\}|\\.|[^\\'])'", src[i:])
            i += m.end() if m else 1
            continue
        if c == '"':
            j, buf = i + 1, []
            while j < n and src[j] != '"':
                if src[j] == "\\":
                    buf.append(src[j:j + 2])
                    j += 2
                else:
                    buf.append(src[j])
                    j += 1
            out.append("".join(buf))
            i = j + 1
            continue
        i += 1
    return out

def literal_with(lits, anchor):
    """the (longest) string literal whose characters contain `anchor`, unescaped; "" when there is none"""
    found = []
    for l in lits:
        try:
            u = rust_unescape(l)
        except Exception:
            continue
        if anchor in u:
            found.append(u)
    return max(found, key=len) if found else ""

def parse_fixed_sources():
    """Tables that live in the source text of src/fixed/*.rs (inside function bodies or as constants): the
    first-letter table of the dictionary search, the character class of its pattern, the characters it strips,
    the marks of automatic vowel forming.  They are recognised by content (a string literal holding the first
    members), not by the syntax around them, so that moving a literal into a constant or a helper function keeps
    the generation working; the streams compare what the model does with them against the implementation."""
    import re
    s = open("/repo/src/fixed/search.rs", encoding="utf-8").read()
    arms = re.findall(r"'(.)' => (?:Some\()?\"(\w+)\"\)?,", s)
    # a table that cannot be found any more yields an empty one: the streams then show model and implementation
    # apart and look for the failing input
    lits = string_literals(s)
    cls = literal_with(lits, "\u0985\u0986\u0987\u0988")
    m = re.search(r"\[(.*?)\]", cls, re.S)
    if m:
        cls = m.group(1)
    clean = literal_with(lits, "^$*+?")
    s2 = open("/repo/src/fixed/method.rs", encoding="utf-8").read()
    marks = literal_with(string_literals(s2), "`~!@#$%^")
    return arms, cls, clean, marks

def main():
    os.makedirs(CACHE, exist_ok=True)
    os.makedirs(GEN, exist_ok=True)
    keys = keynames.parse_riti_h()
    layouts = {n: json.load(open(p, encoding="utf-8"))["layout"] for n, p in LAYOUTS.items()}
    # --- entry names: spec names + every name a layout file uses
    names = set()
    spec = []  # (code, kind, entry, char)
    for name, code in keys:
        kind, entry, ch = keynames.classify(name)
        spec.append((code, kind, entry, ch, name))
        if entry is not None:
            if kind == "key":
                names.add("Key_%s_Normal" % entry)
                names.add("Key_%s_AltGr" % entry)
            else:
                names.add(entry)
    for l in layouts.values():
        names.update(l.keys())
    names = sorted(names)
    ident = {n: i for i, n in enumerate(names)}
    # --- probe layout: every known entry name bound to its own name
    probe = {"layout": {n: n for n in names}}
    probe_path = os.path.join(CACHE, "probe_layout.json")
    json.dump(probe, open(probe_path, "w"))
    tables_path = os.path.join(CACHE, "tables.json")
    subprocess.run([RV, "tables", "--probe-layout", probe_path, "--out", tables_path], check=True)
    t = json.load(open(tables_path))
    enc = lambda k, altgr, numpad: k * 4 + altgr * 2 + numpad
    gen_lookups = sorted((enc(k, a, n), ident[s]) for k, a, n, s in t["layout_lookups"])
    gen_keychar = sorted((k, c) for k, c in t["keychar"])
    # --- spec tables from riti.h
    spec_lookups, spec_keychar, codes = [], [], []
    for code, kind, entry, ch, name in spec:
        codes.append(code)
        if ch is not None:
            spec_keychar.append((code, ord(ch)))
        if entry is None:
            continue
        for a in (0, 1):
            for n in (0, 1):
                if kind == "key":
                    spec_lookups.append((enc(code, a, n), ident["Key_%s_%s" % (entry, "AltGr" if a else "Normal")]))
                elif n == 1:
                    spec_lookups.append((enc(code, a, n), ident[entry]))
    spec_lookups.sort(); spec_keychar.sort()
    FX = parse_fixed_sources()
    out = ["(* GENERATED by tools/gen_tables.py on every check run - do not edit. *)",
           "Require Import Riti.model.Base.", "",
           "(** Tables obtained by executing riti (feature verif-hooks) over the whole domain. *)",
           "(* keycode_to_char on all 65536 u16 values: (key, code point); absent = None *)",
           "Definition gen_keychar : list (N * N) := %s." % chunked(["(%d,%d)" % p for p in gen_keychar]),
           "(* Layout::get_char_for_key on 65536 keys x {Normal,AltGr} x numpad{off,on} against a probe layout",
           "   binding every entry name to itself: (key*4 + altgr*2 + numpad, entry id); absent = None *)",
           "Definition gen_lookups : list (N * N) := %s." % chunked(["(%d,%d)" % p for p in gen_lookups]),
           "(* get_modifiers on all 256 modifier bytes: those with shift / with AltGr *)",
           "Definition gen_mod_shift : list N := %s." % nlist(m for m, s, a in t["modifiers"] if s),
           "Definition gen_mod_altgr : list N := %s." % nlist(m for m, s, a in t["modifiers"] if a),
           "(* character classes over all 1,112,064 scalar values *)",
           "Definition gen_is_vowel : list N := %s." % nlist(t["is_vowel"]),
           "Definition gen_is_kar : list N := %s." % nlist(t["is_kar"]),
           "Definition gen_is_pure_consonant : list N := %s." % nlist(t["is_pure_consonant"]),
           "Definition gen_is_ligature_making_kar : list N := %s." % nlist(t["is_ligature_making_kar"]),
           "(* META of SplittedString::split, observed on every scalar value *)",
           "Definition gen_is_meta : list N := %s." % nlist(t["is_meta"]),
           "(* first-letter table of PhoneticSuggestion::new: (ASCII letter, dictionary table names) *)",
           "Definition gen_phonetic_tables : list (N * list str) := [%s]." % ";\n   ".join("(%d,[%s])" % (b, ";".join(nlist(ord(c) for c in n) for n in l)) for b, l in t["phonetic_tables"]),
           "(* tables read from the source text of src/fixed/search.rs and src/fixed/method.rs *)",
           "Definition gen_fixed_tables : list (N * str) := [%s]." % ";".join("(%d,%s)" % (ord(c), nlist(ord(x) for x in n)) for c, n in FX[0]),
           "Definition gen_fixed_class : list N := %s." % nlist(ord(c) for c in FX[1]),
           "Definition gen_clean_set : list N := %s." % nlist(ord(c) for c in FX[2]),
           "Definition gen_marks : list N := %s." % nlist(ord(c) for c in FX[3]),
           "",
           "(** Specification tables derived from include/riti.h (the VC_ defines) and tools/keynames.py. *)",
           "Definition riti_h_codes : list N := %s." % nlist(sorted(codes)),
           "Definition spec_keychar : list (N * N) := %s." % chunked(["(%d,%d)" % p for p in spec_keychar]),
           "Definition spec_lookups : list (N * N) := %s." % chunked(["(%d,%d)" % p for p in spec_lookups]),
           "",
           "(** Layout files, parsed by the generator: (entry id, value as code points). *)"]
    for n, l in layouts.items():
        items = ["(%d,%s)" % (ident[k], nlist(ord(c) for c in v)) for k, v in sorted(l.items(), key=lambda kv: ident[kv[0]])]
        out.append("Definition layout_%s : list (N * str) := %s." % (n, chunked(items, 6)))
    out.append("")
    out.append("(* entry ids: " + " ".join("%d=%s" % (i, n) for n, i in ident.items()) + " *)")
    changed = write_if_changed(os.path.join(GEN, "Gen_Tables.v"), "\n".join(out) + "\n")
    meta = {"entry_names": names, "spec_lookups": spec_lookups, "gen_lookups": gen_lookups,
            "spec_keychar": spec_keychar, "gen_keychar": gen_keychar, "codes": sorted(codes),
            "key_names": {str(code): name for code, _, _, _, name in spec}}
    json.dump(meta, open(os.path.join(CACHE, "tables_meta.json"), "w"))
    print("gen_tables: %d keychar rows, %d lookup rows, %d entry names, changed=%s" % (len(gen_keychar), len(gen_lookups), len(names), changed))

if __name__ == "__main__":
    main()
