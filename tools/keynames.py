"""The only place where a human transcribes what each published key code means:
VC_<NAME> of include/riti.h -> (layout entry name, the ASCII character it types).
Letters and digits are derived mechanically from the name."""
SYMBOLIC = {
    "GRAVE": ("Grave", "`"), "TILDE": ("Tilde", "~"),
    "EXCLAIM": ("Exclaim", "!"), "AT": ("At", "@"), "HASH": ("Hash", "#"), "DOLLAR": ("Dollar", "$"),
    "PERCENT": ("Percent", "%"), "CIRCUM": ("Circum", "^"), "AMPERSAND": ("Ampersand", "&"),
    "ASTERISK": ("Asterisk", "*"), "PAREN_LEFT": ("ParenLeft", "("), "PAREN_RIGHT": ("ParenRight", ")"),
    "UNDERSCORE": ("UnderScore", "_"), "PLUS": ("Plus", "+"), "MINUS": ("Minus", "-"), "EQUALS": ("Equals", "="),
    "BRACKET_LEFT": ("BracketLeft", "["), "BRACKET_RIGHT": ("BracketRight", "]"), "BACK_SLASH": ("BackSlash", "\\"),
    "BRACE_LEFT": ("BraceLeft", "{"), "BRACE_RIGHT": ("BraceRight", "}"), "BAR": ("Bar", "|"),
    "SEMICOLON": ("Semicolon", ";"), "APOSTROPHE": ("Apostrophe", "'"), "COMMA": ("Comma", ","),
    "PERIOD": ("Period", "."), "SLASH": ("Slash", "/"), "COLON": ("Colon", ":"), "QUOTE": ("Quote", '"'),
    "LESS": ("Less", "<"), "GREATER": ("Greater", ">"), "QUESTION": ("Question", "?"),
}
KEYPAD = {
    "KP_DIVIDE": ("NumDivide", "/"), "KP_MULTIPLY": ("NumMultiply", "*"), "KP_SUBTRACT": ("NumSubtract", "-"),
    "KP_ADD": ("NumAdd", "+"), "KP_DECIMAL": ("NumDecimal", "."),
    # published in riti.h but bound to no layout entry
    "KP_EQUALS": (None, "="), "KP_ENTER": (None, None),
}

def classify(name):
    """name without the VC_ prefix -> (kind, layout name or None, char or None); kind in {'key','numpad'}"""
    import re
    if re.fullmatch(r"[A-Z]", name):
        return ("key", name.lower(), name.lower())
    m = re.fullmatch(r"([A-Z])_SHIFT", name)
    if m:
        return ("key", m.group(1), m.group(1))
    if re.fullmatch(r"[0-9]", name):
        return ("key", name, name)
    m = re.fullmatch(r"KP_([0-9])", name)
    if m:
        return ("numpad", "Num" + m.group(1), m.group(1))
    if name in SYMBOLIC:
        n, c = SYMBOLIC[name]
        return ("key", n, c)
    if name in KEYPAD:
        n, c = KEYPAD[name]
        return ("numpad", n, c)
    raise KeyError("unknown key name VC_" + name)

def parse_riti_h(path="/repo/include/riti.h"):
    import re
    out = []
    for line in open(path, encoding="utf-8"):
        m = re.match(r"#define VC_(\w+) (\d+)\s*$", line)
        if m:
            out.append((m.group(1), int(m.group(2))))
    return out
