#!/usr/bin/env python3
"""mk_results.py <log of tools/run_seeded.sh>: writes seeded/RESULTS.md"""
import re, sys
rows = []
for l in open(sys.argv[1], errors="replace"):
    m = re.match(r"RESULT (\S+) rc=(\d+) violations=(\d+) no_input=(\d+) :: (.*)", l.strip())
    if m: rows.append(m.groups())
    elif l.startswith("RESULT "): rows.append((l.split()[1], "-", "-", "-", " ".join(l.split()[2:])))
out = ["# Seeded changes vs. the registered quick checks", "",
       "Produced by `tools/run_seeded.sh` (applies each `seeded/<id>/patch.diff` to /repo, runs `./check <property> --tier quick`, restores the tree) and `tools/mk_results.py`.", "",
       "| change | check exit | VIOLATION lines | of which no-failing-input-found | first reported failure |", "|---|---|---|---|---|"]
for r in rows: out.append("| %s | %s | %s | %s | %s |" % r)
caught = sum(1 for r in rows if r[1] == "1")
out += ["", "%d changes, %d reported as a violation by the quick check of their property." % (len(rows), caught)]
open("/verif/seeded/RESULTS.md", "w").write("\n".join(out) + "\n")
print(len(rows), caught)
