#!/bin/bash
# usage: try_mutant.sh PATCH stream [stream...]   -- applies PATCH to /repo, rebuilds the harness, runs the rv streams, restores /repo
set -u
patch=$1; shift
cd /repo && git diff --quiet || { echo "/repo dirty"; exit 2; }
git -C /repo apply "$patch" || { echo "patch failed"; exit 2; }
trap 'git -C /repo checkout -- . ; (cd /verif/harness && cargo build --release --offline >/dev/null 2>&1)' EXIT
(cd /verif/harness && cargo build --release --offline 2>&1 | grep -E "^error" -A8 | head -30)
export RV_SCRATCH=/verif/.cache/scratch
for s in "$@"; do
  /verif/harness/target/release/rv stream $s --tier ${TIER:-quick} --seed 1 --meta /verif/.cache/tables_meta.json --out /tmp/mut_$s.json
  python3 - <<PY
import json
r=json.load(open('/tmp/mut_$s.json'))
print('$s','evals',r['evaluations'],'FAIL',r['n_failures'],'DIFF',r['n_diffs'])
for f in r['failures'][:1]: print('  fail:',json.dumps(f,ensure_ascii=False)[:700])
for f in r['diffs'][:1]: print('  diff:',json.dumps(f,ensure_ascii=False)[:500])
PY
done
