(** Property C10: damaged or missing user files never stop the keyboard from working (logic part). *)
Require Import Riti.model.Base Riti.model.Chars Riti.model.Split Riti.model.Rank Riti.model.Layout Riti.model.Phonetic
        Riti.model.Context Riti.model.TestOracle Riti.proofs.C01_Proof Riti.proofs.C05_Proof.

(** Unreadable content (truncated at any byte, malformed, wrong shape: whatever the parser rejects) is treated
    exactly as an absent file, for both user files. *)
Theorem C10_unreadable_is_absent :
  forall fs, ctx_new fs = ctx_new {| f_sels := match f_sels fs with FUnreadable => FAbsent | x => x end;
                                      f_uac := match f_uac fs with FUnreadable => FAbsent | x => x end;
                                      f_dir_writable := f_dir_writable fs |}.
Proof. intros fs. unfold ctx_new. cbn. destruct (f_sels fs), (f_uac fs); reflexivity. Qed.

(** Every event is total from ANY loaded store and user list - empty keys, empty values, anything a JSON object of
    strings can hold: [C01_phonetic_step_total] has no well-formedness hypothesis on them. *)
Theorem C10_any_store_is_safe :
  forall (Q : oracles) c fs e, commit_in_range c (ctx_new fs) e -> p_step Q c (ctx_new fs) e <> None.
Proof. intros Q c fs e H. apply step_total. exact H. Qed.
Theorem C10_new_context_is_good : forall (Q : oracles) c fs, Good Q c (ctx_new fs).
Proof. intros. apply good_new. Qed.

(** A failed save (missing / unwritable directory) is not an error and loses at most that choice: the state after the
    commit is the same as after a successful save; only the file is left as it was. *)
Theorem C10_failed_save_keeps_memory :
  forall c fs s i s1 fs1 s2 fs2,
    ctx_commit c {| f_sels := f_sels fs; f_uac := f_uac fs; f_dir_writable := true |} s i = Some (s1, fs1) ->
    ctx_commit c {| f_sels := f_sels fs; f_uac := f_uac fs; f_dir_writable := false |} s i = Some (s2, fs2) ->
    s1 = s2 /\ f_sels fs2 = f_sels fs.
Proof.
  intros c fs s i s1 fs1 s2 fs2. unfold ctx_commit. destruct (p_commit c s i) as [[s' [|]]|]; cbn [f_dir_writable]; intros A B; inversion A; inversion B; subst; auto.
Qed.

(** What no Gallina model can exhibit - which byte sequences serde_json rejects, what the kernel does on a failing
    write - is observed by stream c10 over every prefix of a written store and a corpus of malformed documents. *)

Example C10_nonvacuous :
  ctx_new {| f_sels := FMap [([97; 109; 105], [])]; f_uac := FUnreadable; f_dir_writable := false |} = p_new [] [([97; 109; 105], [])].
Proof. reflexivity. Qed.

Print Assumptions C10_unreadable_is_absent.
Print Assumptions C10_any_store_is_safe.
Print Assumptions C10_failed_save_keeps_memory.
