(** Property C15: fixed-layout suggestions are prefix completions of what was typed. *)
From Coq Require Import Sorted.
Require Import Riti.model.Base Riti.model.Chars Riti.model.Split Riti.model.Rank Riti.model.Layout Riti.model.Phonetic
        Riti.model.FixedCompose Riti.model.FixedSuggest Riti.gen.Gen_Tables Riti.model.TestOracle
        Riti.proofs.Rank_Proof Riti.proofs.Lists_Proof Riti.proofs.Order_Proof Riti.proofs.Fixed_Proof Riti.proofs.NoRepeat_Proof.

(** For EVERY dictionary, emoji table, option set, composed text and raw key text: *)
Theorem C15_first_is_composed_text :
  forall (Q : oracles) c buffer typed,
    hd (RLast [] 0) (dictionary_suggestion Q c buffer typed) = RFirst (ds_first c buffer ++ ds_word c buffer ++ ds_last c buffer).
Proof. exact ds_first_candidate. Qed.

(** every candidate is the composed text, a word of the first letter's dictionary table that begins with the typed
    word (punctuation and non-joiners removed by clean_string; non-joiners re-inserted for traditional joining),
    an emoji (only without ANSI), or the raw key text (only with English on and when it differs from the text) *)
Theorem C15_candidates_classified :
  forall (Q : oracles) c buffer typed, Forall (fixed_item Q c buffer typed) (dictionary_suggestion Q c buffer typed).
Proof. exact ds_items. Qed.

Theorem C15_at_most_nine : forall (Q : oracles) c buffer typed, (length (dictionary_suggestion Q c buffer typed) <= 9)%nat.
Proof. exact ds_length. Qed.

(** the candidates before the English item are sorted by the rank key: dictionary words by 10 x edit distance *)
Theorem C15_sorted :
  forall (Q : oracles) c buffer typed,
    let '(l, cut, _) := dictionary_suggestion_parts Q c buffer typed in StronglySorted key_le (firstn cut l).
Proof. exact ds_sorted. Qed.

(** read position-wise: of two dictionary candidates the earlier one has the smaller (or equal) edit distance from the typed word *)
Theorem C15_non_decreasing_distance :
  forall (Q : oracles) c buffer typed i j a d1 b d2,
    let '(l, cut, _) := dictionary_suggestion_parts Q c buffer typed in
    (i < j)%nat -> nth_error (firstn cut l) i = Some (ROther a d1) -> nth_error (firstn cut l) j = Some (ROther b d2) -> d1 <= d2.
Proof.
  intros Q c buffer typed i j a d1 b d2. pose proof (ds_sorted Q c buffer typed) as S.
  destruct (dictionary_suggestion_parts Q c buffer typed) as [[l cut] tl]. intros Hij Hi Hj.
  destruct (order_consequences _ S) as (H & _). eapply H; eauto.
Qed.

Theorem C15_english_last :
  forall (Q : oracles) c buffer typed, x_english_on c = true -> str_eqb buffer typed = false ->
    last (dictionary_suggestion Q c buffer typed) (RFirst []) = RLast typed 1.
Proof. exact ds_english_last. Qed.

(** "none repeats".  Vec::dedup removes neighbouring repeats only, so the clause rests on the data: whenever the texts the
    dictionary contributes for the word (the word itself, then the matching slice of its table, in table order) have
    their repeats next to each other, and the emoji of the word / of the raw keys are not among those texts [data_ok],
    no text occurs twice before the raw English item - for EVERY dictionary, option set and composition.  The proviso is
    checked on every list by the stream (data-exhaustively in the thorough tier); dictionary.json lists one word twice. *)
Theorem C15_no_repeats :
  forall (Q : oracles) c buffer typed, data_ok Q c buffer typed ->
    let '(l, cut, _) := dictionary_suggestion_parts Q c buffer typed in NoDup (map rstr (firstn cut l)).
Proof. exact ds_no_repeats. Qed.

Theorem C15_no_repeats_whole_list :
  forall (Q : oracles) c buffer typed, data_ok Q c buffer typed ->
    (let '(l, cut, _) := dictionary_suggestion_parts Q c buffer typed in ~ In typed (map rstr (firstn cut l))) ->
    NoDup (map rstr (dictionary_suggestion Q c buffer typed)).
Proof. exact ds_no_repeats_all. Qed.

(** the proviso on the slice holds in particular when the slice has no repeat at all; without any proviso the clause is
    false of the code: a table that lists a word twice with another match in between yields a repeated candidate *)
Theorem C15_repeat_free_slice_suffices : forall l, NoDup l -> repeats_adjacent l.
Proof. exact nodup_adjacent. Qed.

Definition repeating_dict : oracles :=
  {| conv := conv test_oracles; hits := hits test_oracles; edist := fun _ _ => 0; ac_sys := ac_sys test_oracles; suffix_of := suffix_of test_oracles;
     emoticon := fun _ => None; emoji_name := fun _ => None; dict := fun _ _ => [[0x995; 0x9BE; 0x995]; [0x995; 0x9BE; 0x9B2]; [0x995; 0x9BE; 0x995]];
     emoji_bn := fun _ => None; bijoy := fun s => s |}.
Example C15_no_repeats_needs_the_proviso :
  map rstr (dictionary_suggestion repeating_dict {| x_opts := {| o_vowel := false; o_chandra := false; o_kar := false; o_old_reph := false; o_kar_order := false |};
      x_numpad := false; x_suggest := true; x_english := false; x_ansi := false; x_smart := false |} [0x995; 0x9BE] [107; 97])
  = [[0x995; 0x9BE]; [0x995; 0x9BE; 0x995]; [0x995; 0x9BE; 0x9B2]; [0x995; 0x9BE; 0x995]].
Proof. vm_compute. reflexivity. Qed.

(** the proviso is satisfiable: it holds for the composition of the example below *)
Example C15_data_ok_somewhere :
  data_ok test_oracles {| x_opts := {| o_vowel := false; o_chandra := false; o_kar := false; o_old_reph := false; o_kar_order := false |};
      x_numpad := false; x_suggest := true; x_english := true; x_ansi := false; x_smart := true |} [34; 0x995; 0x9BE] [34; 107; 97].
Proof.
  constructor.
  - (* the slice is [ka; ka; kak]: the typed word is itself a dictionary word and comes first in its table *)
    match goal with |- repeats_adjacent ?s => assert (Es : s = [[0x995; 0x9BE]; [0x995; 0x9BE]; [0x995; 0x9BE; 0x995]]) by (vm_compute; reflexivity); rewrite Es; clear Es end.
    intros a x m b E.
    destruct a as [|a0 [|a1 [|a2 a]]]; cbn [app] in E; injection E as E;
      repeat match goal with
             | H : _ :: _ = _ :: _ |- _ => injection H as H
             | H : ?m ++ _ :: _ = _ |- _ => destruct m; cbn [app] in H
             | H : _ = ?m ++ _ :: _ |- _ => destruct m; cbn [app] in H
             | H : [] = _ :: _ |- _ => discriminate H
             | H : _ :: _ = [] |- _ => discriminate H
             end; subst; try discriminate; repeat constructor.
  - intros e H. vm_compute in H. discriminate.
  - intros es H. vm_compute in H. injection H as <-. split; [apply nodup_b_ok; vm_compute; reflexivity|].
    intros e He Hin. vm_compute in He, Hin. intuition (subst; discriminate).
Qed.

Example C15_nonvacuous :
  map rstr (dictionary_suggestion test_oracles {| x_opts := {| o_vowel := false; o_chandra := false; o_kar := false; o_old_reph := false; o_kar_order := false |};
      x_numpad := false; x_suggest := true; x_english := true; x_ansi := false; x_smart := true |} [34; 0x995; 0x9BE] [34; 107; 97])
  = [[0x201C; 0x995; 0x9BE]; [0x201C; 0x1F426]; [0x201C; 0x995; 0x9BE; 0x995]; [34; 107; 97]].
Proof. vm_compute. reflexivity. Qed.

Print Assumptions C15_first_is_composed_text.
Print Assumptions C15_candidates_classified.
Print Assumptions C15_sorted.
Print Assumptions C15_non_decreasing_distance.
Print Assumptions C15_no_repeats.
Print Assumptions C15_no_repeats_whole_list.
