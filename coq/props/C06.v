(** Property C06: ending a word erases every trace of it; the session flag tells the truth. *)
Require Import Riti.model.Base Riti.model.Chars Riti.model.Split Riti.model.Rank Riti.model.Layout Riti.model.Phonetic
        Riti.model.FixedCompose Riti.model.FixedSuggest Riti.model.TestOracle Riti.proofs.C05_Proof Riti.proofs.C06_Proof.

(** Phonetic method.  After a commit, a finish request, a ctrl-backspace on a non-empty composition or a
    backspace that empties it, in ANY reachable state: no session is ongoing, and the state is related
    (relation R of C05, a bisimulation: theorem bisim_run) to a BRAND-NEW context over the same user list
    and learned selections - so every continuation behaves identically in both. *)
Theorem C06_phonetic_terminators :
  forall (Q : oracles) uac0 sels0 c s e c' s' o,
    Reach Q uac0 sels0 c s -> terminating s e -> p_step Q c s e = Some (c', s', o) ->
    p_ongoing s' = false /\ R Q c' s' (p_new (p_uac s') (p_sels s')).
Proof. exact after_terminator. Qed.

(** ... and the same after ANY backspace that returns an empty suggestion (nothing left, or what is left displays as
    nothing - a lone escape character while the candidate list is off), in any reachable state *)
Theorem C06_backspace_returning_empty :
  forall (Q : oracles) uac0 sels0 c s ctrl c' s' o,
    Reach Q uac0 sels0 c s -> p_step Q c s (PBackspace ctrl) = Some (c', s', o) -> out_empty o = true ->
    p_ongoing s' = false /\ R Q c' s' (p_new (p_uac s') (p_sels s')).
Proof. exact after_empty_backspace. Qed.

Theorem C06_related_states_behave_alike :
  forall (Q : oracles) h c s1 s2, R Q c s1 s2 -> hist_ok Q c s1 h ->
    match p_run Q c s1 h, p_run Q c s2 h with
    | Some (_, _, o1), Some (_, _, o2) => o1 = o2
    | None, None => True
    | _, _ => False
    end.
Proof. exact bisim_run. Qed.

Theorem C06_phonetic_idle_backspace :
  forall (Q : oracles) c s ctrl, p_buf s = [] -> p_backspace Q c s ctrl = (s, OSingle [] false).
Proof. exact idle_backspace. Qed.

Theorem C06_phonetic_flag : forall s, p_ongoing s = true <-> p_buf s <> [].
Proof. exact ongoing_iff_buffer. Qed.

(** Fixed method.  The state after every terminating event is [x_clear s], which is related to the initial
    state by [x_same] (equal text, raw keys and waiting sign; the stored list only matters while a text is
    composed); [x_same] is a bisimulation for in-contract histories, so nothing of the old word leaks. *)
Theorem C06_fixed_cleared_is_initial : forall c s, x_same c (x_clear s) x_init.
Proof. exact x_clear_is_init. Qed.

Theorem C06_fixed_terminators_clear :
  forall (Q : oracles) L c s e, (e = XCommit \/ e = XFinish) -> x_step Q L c s e = (c, x_clear s, OUnit).
Proof. intros Q L c s e [-> | ->]; reflexivity. Qed.

Theorem C06_fixed_ctrl_backspace :
  forall (Q : oracles) c s, x_rb s <> [] -> x_backspace Q c s true = (x_clear s, OSingle [] false).
Proof. intros Q c s H. unfold x_backspace. destruct (x_rb s); [congruence | reflexivity]. Qed.

Theorem C06_fixed_bisimulation :
  forall (Q : oracles) L h c s1 s2, x_same c s1 s2 ->
    (fix ok c s h := match h with [] => True | e :: t => x_in_contract s e /\ let '(c', s', _) := x_step Q L c s e in ok c' s' t end) c s1 h ->
    x_run Q L c s1 h = x_run Q L c s2 h.
Proof. exact x_bisim_run. Qed.

(** a backspace of the fixed method that returns an empty suggestion leaves no session behind - for every state *)
Theorem C06_fixed_backspace_returning_empty :
  forall (Q : oracles) c s ctrl, out_empty (snd (x_backspace Q c s ctrl)) = true -> x_ongoing (fst (x_backspace Q c s ctrl)) = false.
Proof. exact x_empty_backspace_ends. Qed.

Theorem C06_fixed_flag : forall s, x_ongoing s = true <-> (x_rb s <> [] \/ x_pend s <> None).
Proof. exact x_ongoing_spec. Qed.

(** Non-vacuity: "ka", commit; the state is idle and related to a new context. *)
Example C06_nonvacuous :
  match p_run test_oracles cfg_all_on (p_new [] []) [PKey 41120 0; PKey 41110 0; PCommit 1] with
  | Some (_, s, _) => p_buf s = [] /\ p_sels s = [([107; 97], [128512])] /\ length (p_memo s) = 2%nat
  | None => False
  end.
Proof. vm_compute. repeat split; reflexivity. Qed.

Print Assumptions C06_phonetic_terminators.
Print Assumptions C06_related_states_behave_alike.
Print Assumptions C06_fixed_bisimulation.
(** the case that made the difference (repaired in /repo): the candidate list off, "`a", backspace - the lone escape
    character displays as nothing, the suggestion is empty, and now the word is gone too *)
Definition escape_oracles : oracles :=
  {| conv := fun s => filter (fun ch => negb (ch =? 96)) (conv test_oracles s); hits := hits test_oracles; edist := edist test_oracles;
     ac_sys := ac_sys test_oracles; suffix_of := suffix_of test_oracles; emoticon := emoticon test_oracles; emoji_name := emoji_name test_oracles;
     dict := dict test_oracles; emoji_bn := emoji_bn test_oracles; bijoy := bijoy test_oracles |}.
Example C06_lone_escape_character :
  match p_run escape_oracles {| c_english := false; c_suggest := false; c_ansi := false; c_smart := false |} (p_new [] [])
              [PKey 41 0; PKey 41110 0; PBackspace false] with
  | Some (_, s, outs) => p_buf s = [] /\ last outs (OUnit, true) = (OSingle [] false, false)
  | None => False
  end.
Proof. vm_compute. split; reflexivity. Qed.

Print Assumptions C06_backspace_returning_empty.
Print Assumptions C06_fixed_backspace_returning_empty.

(** "Repeated backspaces always reach the idle state": from ANY state of either method (reachable or not), any
    sequence of plain / ctrl backspaces that is at least as long as the composition (phonetic: the typed text; fixed:
    the composed text plus one for a waiting vowel sign) ends with no session ongoing.  The bound is the worst case:
    every backspace on a non-idle state strictly shortens the composition ([backspace_shortens], [x_backspace_shortens]). *)
Theorem C06_backspaces_reach_idle :
  forall (Q : oracles) c ctrls s, (length (p_buf s) <= length ctrls)%nat -> p_ongoing (p_backspaces Q c s ctrls) = false.
Proof. exact backspaces_reach_idle. Qed.

Theorem C06_each_backspace_shortens :
  forall (Q : oracles) c s ctrl, p_buf s <> [] -> (length (p_buf (fst (p_backspace Q c s ctrl))) < length (p_buf s))%nat.
Proof. exact backspace_shortens. Qed.

Theorem C06_fixed_backspaces_reach_idle :
  forall (Q : oracles) c ctrls s, (x_measure s <= length ctrls)%nat -> x_ongoing (x_backspaces Q c s ctrls) = false.
Proof. exact x_backspaces_reach_idle. Qed.

Check C06_backspaces_reach_idle :
  forall (Q : oracles) c ctrls s, (length (p_buf s) <= length ctrls)%nat -> p_ongoing (p_backspaces Q c s ctrls) = false.

(** non-vacuity: "ka" then two backspaces - the first leaves a session, the second ends it *)
Example C06_backspaces_nonvacuous :
  match p_run test_oracles cfg_all_on (p_new [] []) [PKey 41120 0; PKey 41110 0] with
  | Some (_, s, _) => p_ongoing (p_backspaces test_oracles cfg_all_on s [false]) = true /\
                      p_ongoing (p_backspaces test_oracles cfg_all_on s [false; false]) = false
  | None => False
  end.
Proof. vm_compute. split; reflexivity. Qed.

Print Assumptions C06_backspaces_reach_idle.
Print Assumptions C06_fixed_backspaces_reach_idle.
