(** Property C08: dictionary-derived candidates are justified, and suffix forms are complete. *)
Require Import Riti.model.Base Riti.model.Chars Riti.model.Split Riti.model.Rank Riti.model.Layout Riti.model.Phonetic
        Riti.model.TestOracle Riti.proofs.Phonetic_Proof Riti.proofs.C05_Proof Riti.proofs.Lists_Proof.

(** Soundness, for EVERY oracle, option set, typed text, store and every memo that is transparent (which every
    reachable memo is: C05_memo_transparent): each candidate is the transliteration, an emoji / emoticon literal /
    raw English item ([plain x = false]), a direct candidate of the typed word (auto-correct entry or a dictionary
    word matching its pattern: the elements of [direct]), or a direct candidate of a proper non-empty prefix joined
    to the Bengali form of the remaining known suffix - each wrapped in the surrounding punctuation. *)
Theorem C08_candidates_justified :
  forall (Q : oracles) c m uac sels term, I1 Q uac m ->
    let '(_, l, _, _) := suggest Q c m uac sels term in Forall (justified Q c uac term) l.
Proof. exact candidates_justified. Qed.

(** Completeness: a word longer than two characters = base + known suffix with the base memoised: every candidate
    stored for the base is offered in joined form.  (The base IS memoised whenever it can be a word at all:
    prefix closure, invariant I3 of C05.) *)
Theorem C08_suffix_forms_complete :
  forall (Q : oracles) c m uac sels term i suf cache b,
    let w := sg_word Q c term in
    (2 < length w)%nat -> (1 <= i < length w)%nat -> suffix_of Q (skipn i w) = Some suf ->
    assocS (firstn i w) (upd Q m uac w) = Some cache -> In b cache ->
    let '(_, l, _, _) := suggest Q c m uac sels term in
    In (sg_pre Q c term ++ join (rstr b) suf ++ sg_tr Q c term) (map rstr l).
Proof. exact suffix_forms_complete. Qed.

(** The joining rules. *)
Theorem C08_join_vowel_sign : forall base suf, is_vowel (last base 0) = true -> is_kar (hd 0 suf) = true -> join base suf = base ++ [B_YY] ++ suf.
Proof. exact join_vowel_kar. Qed.
Theorem C08_join_khanda_ta : forall base suf, (is_vowel (last base 0) && is_kar (hd 0 suf)) = false -> last base 0 = B_KHANDA -> join base suf = removelast base ++ [B_TA] ++ suf.
Proof. exact join_khanda. Qed.
Theorem C08_join_anusvara : forall base suf, (is_vowel (last base 0) && is_kar (hd 0 suf)) = false -> last base 0 = B_ANUSVARA -> join base suf = removelast base ++ [B_NGA'] ++ suf.
Proof. exact join_anusvara. Qed.
Theorem C08_join_otherwise : forall base suf, (is_vowel (last base 0) && is_kar (hd 0 suf)) = false -> last base 0 <> B_KHANDA -> last base 0 <> B_ANUSVARA -> join base suf = base ++ suf.
Proof. exact join_plain. Qed.

Example C08_nonvacuous :
  let Q := test_oracles in
  match p_run Q cfg_all_on (p_new [] []) [PKey 41120 0; PKey 41110 0; PKey 41127 0] with
  | Some (_, s, outs) => In [2469; 2480] (match last outs (OUnit, false) with (OFull _ l _ _, _) => l | _ => [] end)
                         /\ join [2453; 2494] [0x9C7] = [2453; 2494; 0x9DF; 0x9C7]
  | None => False
  end.
Proof. vm_compute. split; [left; reflexivity | reflexivity]. Qed.

Print Assumptions C08_candidates_justified.
Print Assumptions C08_suffix_forms_complete.
