(** Property C13: old-style reph is moved in front of the final conjunct and loses nothing. *)
Require Import Riti.model.Base Riti.model.Chars Riti.model.FixedCompose Riti.spec.C12_Spec Riti.spec.C13_Spec
        Riti.proofs.C12_Proof Riti.proofs.C13_Proof.

(** Conservation, for EVERY composed text p (well-formed or not, the empty text included):
    the reph key yields p with exactly the reph inserted at one position. *)
Theorem C13_conservation :
  forall p : str, exists j, (j <= length p)%nat /\ model_reph p = firstn j p ++ reph ++ skipn j p.
Proof. exact reph_conserves. Qed.

(** Placement, for every text in which each hasanta directly follows a consonant (which every
    orthographically well-formed text satisfies): the position is immediately before the final
    conjunct when p ends in conjunct, optional vowel (sign), optional chandrabindu, and the end of p
    otherwise (spec/C13_Spec.v [reph_spec]; the empty text gives just the reph). *)
Theorem C13_placement :
  forall p : str, wf_hasanta p = true -> model_reph p = reph_spec p.
Proof. exact reph_placement. Qed.

(** The same in the words of the property: p = q ++ conjunct ++ optional vowel (sign) ++ optional chandrabindu, the
    conjunct maximal (q does not end in hasanta): the reph goes immediately before the conjunct. *)
Theorem C13_placement_grammar :
  forall q cj v ch : str,
    conjunct cj -> (v = [] \/ exists x, v = [x] /\ is_vowel x = true) -> (ch = [] \/ ch = [B_CHANDRA]) ->
    (last q 0 =? B_HASANTA) = false -> wf_hasanta (q ++ cj ++ v ++ ch) = true ->
    model_reph (q ++ cj ++ v ++ ch) = q ++ reph ++ cj ++ v ++ ch.
Proof. intros q cj v ch H1 H2 H3 H4 H5. rewrite (reph_placement _ H5). apply reph_placement_grammar; assumption. Qed.

(** ... and the end of p otherwise (no final conjunct found): *)
Theorem C13_placement_otherwise : forall p : str, reph_span (rev p) = O -> reph_spec p = p ++ reph.
Proof. intros p H. unfold reph_spec. rewrite H, PeanoNat.Nat.sub_0_r, firstn_all, skipn_all. reflexivity. Qed.

(** With the option off (and old vowel-sign order off) the reph key simply appends its value. *)
Theorem C13_option_off_appends :
  forall o rb pend, o_old_reph o = false -> o_kar_order o = false ->
    process_key_value o rb pend reph = (push_str rb reph, pend).
Proof. exact reph_off. Qed.

(** With the option on, the reph key is the model's reph insertion whatever else is set (the reph rule
    precedes every other rule but the zo-fola one, and never touches a waiting sign). *)
Theorem C13_option_on_is_reph :
  forall o rb pend, o_old_reph o = true ->
    process_key_value o rb pend reph = (insert_old_style_reph rb, pend).
Proof.
  intros o rb pend H. unfold process_key_value, pkv_gen. replace (str_eqb reph zofola) with false by reflexivity.
  replace (str_eqb reph reph) with true by reflexivity. rewrite H. reflexivity.
Qed.

Check (C13_conservation : forall p : str, exists j, (j <= length p)%nat /\ model_reph p = firstn j p ++ reph ++ skipn j p).
Check (C13_placement : forall p : str, wf_hasanta p = true -> model_reph p = reph_spec p).

(** Non-vacuity: the seven examples of the test-suite and the corner cases of the property text. *)
Example C13_nonvacuous :
  let k := B_K in let t := B_T in let h := B_HASANTA in
  wf_hasanta [k; B_AA_KAR; k; h; t; B_I_KAR; B_CHANDRA] = true /\
  reph_spec [k; B_AA_KAR; k; h; t; B_I_KAR; B_CHANDRA] = [k; B_AA_KAR; B_R; h; k; h; t; B_I_KAR; B_CHANDRA] /\
  model_reph [k; B_AA_KAR; k; B_CHANDRA] = [k; B_AA_KAR; B_R; h; k; B_CHANDRA] /\
  model_reph [] = [B_R; h] /\ reph_spec [] = [B_R; h] /\
  model_reph [k; B_AA_KAR; B_I] = [k; B_AA_KAR; B_I; B_R; h] /\
  model_reph [k; h; ZWNJ] = [k; h; ZWNJ; B_R; h] /\
  model_reph [B_U; B_T; h; ZWNJ; k] = [B_U; B_T; h; ZWNJ; B_R; h; k].
Proof. vm_compute. repeat split; reflexivity. Qed.

Print Assumptions C13_conservation.
Print Assumptions C13_placement.
Print Assumptions C13_placement_grammar.
Print Assumptions C13_option_off_appends.
Print Assumptions C13_option_on_is_reph.
