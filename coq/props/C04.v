(** Property C04: a fixed-layout key emits exactly the text the layout file assigns to it. *)
Require Import Riti.model.Base Riti.model.Chars Riti.model.FixedCompose Riti.model.Layout
        Riti.model.FixedLonely Riti.gen.Gen_Tables Riti.spec.C04_Spec Riti.proofs.C04_Proof.

(** For EVERY layout table [L], every key code [k] (not only the 65536 of a u16), every modifier byte
    [m], both number-pad settings and every composition state without a waiting vowel sign:
    with all helpers off the key appends exactly the text [expected_value] assigns to it (at every
    position where no unconditional joining rule of C12 applies - the empty text is one), and a key
    with an empty or missing assignment, outside the layout, or a number-pad key while the option is
    off changes nothing. *)
Theorem C04_key_emits_layout_text :
  forall (L : list (N * str)) (k m : N) (numpad : bool) (s : fstate),
    f_pend s = None ->
    match expected_value L k m numpad with
    | Some v => plain_position (f_rb s) v = true ->
                f_key_event L helpers_off numpad s k m =
                ({| f_rb := rev v ++ f_rb s; f_pend := None |}, f_text s ++ v)
    | None => f_key_event L helpers_off numpad s k m = (s, f_text s)
    end.
Proof. exact C04_main. Qed.

Theorem C04_shift_and_high_bits_irrelevant :
  forall L k m m' numpad,
    N.testbit m 1 = N.testbit m' 1 -> expected_value L k m numpad = expected_value L k m' numpad.
Proof. exact C04_plane_only. Qed.

Theorem C04_numpad_needs_option :
  forall L, forallb (fun k => forallb (fun m => match expected_value L k m false with None => true | Some _ => false end)
                                      [0;1;2;3]) numpad_keys = true.
Proof. exact C04_numpad_off. Qed.

(** Non-vacuity: in the synthetic layout, AltGr+r carries the two-code-point reph and it is appended
    to a non-empty text; the idle state satisfies the hypotheses for every value. *)
Example C04_nonvacuous :
  expected_value layout_synthetic 41127 2 false = Some [B_R; B_HASANTA] /\
  plain_position [B_K] [B_R; B_HASANTA] = true /\
  f_key_event layout_synthetic helpers_off false {| f_rb := [B_K]; f_pend := None |} 41127 2
  = ({| f_rb := [B_HASANTA; B_R; B_K]; f_pend := None |}, [B_K; B_R; B_HASANTA]) /\
  (forall v, plain_position (f_rb f_init) v = true).
Proof.
  repeat split; try (vm_compute; reflexivity).
  intros v. unfold plain_position. cbn [f_rb f_init hd nth]. destruct (str_eqb v zofola); [reflexivity|].
  destruct v as [|c t]; [reflexivity|]. destruct (is_kar c || (c =? B_HASANTA) || (c =? B_LENGTH_MARK)); reflexivity.
Qed.

Print Assumptions C04_key_emits_layout_text.
Print Assumptions C04_shift_and_high_bits_irrelevant.
Print Assumptions C04_numpad_needs_option.
