(** Property C11: re-configuring a live context is equivalent to creating a new one. *)
Require Import Riti.model.Base Riti.model.Chars Riti.model.Split Riti.model.Rank Riti.model.Layout Riti.model.Phonetic
        Riti.model.FixedCompose Riti.model.FixedSuggest Riti.model.TestOracle Riti.proofs.C05_Proof Riti.proofs.C06_Proof.

(** Phonetic method, same layout: after update_engine on an idle context - with any new option set and
    with or without a reload of the user auto-correct list ([reload = Some u]: the file changed or vanished) -
    the state is related (bisimulation R of C05) to a context NEWLY CREATED with the new configuration over
    the same files: every later event behaves identically, including words composed before the edit. *)
Theorem C11_update_is_new :
  forall (Q : oracles) uac0 sels0 c s c' reload,
    Reach Q uac0 sels0 c s -> p_buf s = [] ->
    R Q c' (p_update s reload) (p_new (match reload with Some u => u | None => p_uac s end) (p_sels s)).
Proof. exact update_is_new. Qed.

(** Fixed method, same layout: the method keeps no option; every event reads the configuration it is given,
    so an option change while idle yields exactly the state of a new context ([x_same] bisimulation, C06). *)
Theorem C11_fixed_update :
  forall (Q : oracles) L c c' s, x_rb s = [] -> x_pend s = None -> x_typed s = [] ->
    let '(c1, s1, _) := x_step Q L c s (XUpdate c') in c1 = c' /\ x_same c' s1 x_init.
Proof.
  intros Q L c c' s H1 H2 H3. cbn [x_step]. split; [reflexivity|]. unfold x_same, x_init. cbn. rewrite H1, H2, H3. repeat split; auto. intros X; congruence.
Qed.

(** A changed layout replaces the method object by a new one (src/context.rs update_engine); the harness checks
    this case by differential replay against a fresh context (stream c11). *)

Example C11_nonvacuous :
  match p_run test_oracles cfg_all_on (p_new [([107; 97], [120])] []) [PKey 41120 0; PKey 41110 0; PFinish; PUpdate cfg_all_on (Some []); PKey 41120 0; PKey 41110 0] with
  | Some (_, s, outs) => p_uac s = [] /\ length (p_memo s) = 2%nat
  | None => False
  end.
Proof. vm_compute. split; reflexivity. Qed.

Print Assumptions C11_update_is_new.
Print Assumptions C11_fixed_update.
