(** Property C19: the C interface hands out valid, independently owned, leak-free objects (protocol part). *)
Require Import Riti.model.Base Riti.model.Rank Riti.model.Phonetic Riti.model.Ffi Riti.proofs.C19_Proof.

(** The handle automaton: handles are unique and fresh for ever ([wf] is an invariant of every call). *)
Theorem C19_handles_unique : forall st c st', wf st -> ffi_step st c = Some st' -> wf st'.
Proof. exact step_wf. Qed.

(** Independence: a live handle keeps the value captured at its creation whatever is called on any other handle -
    later events on the context, freeing the context, other read-outs - until it is freed itself. *)
Theorem C19_value_stable :
  forall st c st' h v, wf st -> lookup h (live st) = Some v -> c <> CFree h -> ffi_step st c = Some st' -> lookup h (live st') = Some v.
Proof. exact value_stable. Qed.

(** Freeing a null string is a no-op. *)
Theorem C19_free_null_is_noop : forall st, ffi_step st CFreeNullString = Some st.
Proof. exact free_null. Qed.

(** Balance: live handles = allocations - frees after ANY accepted call sequence; a life cycle that frees what it
    created leaves nothing behind. *)
Theorem C19_balance :
  forall cs st st', wf st -> ffi_run st cs = Some st' -> (length (live st') + frees cs = length (live st) + news cs)%nat.
Proof. exact balance. Qed.
Theorem C19_full_cycle_leaks_nothing : forall cs st', ffi_run ffi_init cs = Some st' -> news cs = frees cs -> live st' = [].
Proof. exact full_cycle_leaks_nothing. Qed.

(** A string read-out is a function of the captured value alone (table [readout]); the bytes are its UTF-8 encoding
    plus NUL.  Memory behaviour itself (validity of the pointers, no leak inside riti) is OBSERVED by stream c19
    (byte-wise comparison with the Rust API value, counting allocator) - no Gallina model can exhibit it. *)

Example C19_nonvacuous :
  ffi_run ffi_init [CNew HConfig; CNew HContext; CNew (HSuggestion (OSingle [2453] false)); CFree 2; CRead 3; CNew (HString [2453]); CFree 4; CFreeNullString; CFree 3; CFree 1]
  = Some {| live := []; next := 5 |}.
Proof. vm_compute. reflexivity. Qed.

Print Assumptions C19_value_stable.
Print Assumptions C19_balance.
Print Assumptions C19_full_cycle_leaks_nothing.
