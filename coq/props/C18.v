(** Property C18: every emoticon and emoji name in the tables produces its emoji (parametric in the tables). *)
Require Import Riti.model.Base Riti.model.Chars Riti.model.Split Riti.model.Rank Riti.model.Layout Riti.model.Phonetic
        Riti.model.FixedCompose Riti.model.FixedSuggest Riti.model.TestOracle
        Riti.proofs.Rank_Proof Riti.proofs.Phonetic_Proof Riti.proofs.C05_Proof Riti.proofs.Lists_Proof Riti.proofs.Order_Proof Riti.proofs.Fixed_Proof.

(** Phonetic, for EVERY emoticon table: outside ANSI a typed emoticon offers its emoji, and the literal typed text
    stays a candidate (when the whole text was taken as leading punctuation it is the transliteration candidate). *)
Theorem C18_emoticon :
  forall (Q : oracles) c m uac sels term e, c_ansi c = false -> emoticon Q term = Some e ->
    let '(_, l, _, _) := suggest Q c m uac sels term in
    In e (map rstr l) /\ (In term (map rstr l) \/ term = sg_pre Q c term).
Proof. exact emoticon_offered. Qed.

(** Phonetic, for EVERY name table: all emoji listed for the word part are offered, wrapped in the same (converted,
    curled) punctuation as the word.  Their mutual order is the table order because their rank numbers 1,2,3..
    are strictly increasing and the list is sorted by (class, number) - C07_sorted. *)
Theorem C18_emoji_names :
  forall (Q : oracles) c m uac sels term es, c_ansi c = false -> emoticon Q term = None -> emoji_name Q (sg_word Q c term) = Some es ->
    let '(_, l, _, _) := suggest Q c m uac sels term in
    forall e, In e es -> In (sg_pre Q c term ++ e ++ sg_tr Q c term) (map rstr l).
Proof. exact emoji_names_offered. Qed.

(** ... and in TABLE ORDER: the emoji items of the returned list are exactly the emoji of the name, in the order of
    the table, for every transparent memo (every reachable one) - proved from sortedness of the list and the
    strictly increasing numbers of the emoji (a sorted permutation of a strictly sorted family is that family). *)
Theorem C18_emoji_in_table_order :
  forall (Q : oracles) c m uac sels term es, c_ansi c = false -> emoticon Q term = None -> emoji_name Q (sg_word Q c term) = Some es -> I1 Q uac m ->
    let '(_, l, _, _) := suggest Q c m uac sels term in
    filter is_emoji l = emoji_ranked (sg_pre Q c term) (sg_tr Q c term) es 1.
Proof. exact names_in_table_order. Qed.

(** The presence of emoji never removes or reorders the other candidates: the non-emoji candidates are exactly the
    list assembled without the emoji step (filtering commutes with the stable sort: [filter_sort]).  The side
    condition says that no emoji text equals the raw typed text (the duplicate check of the English item looks at
    the whole list). *)
Theorem C18_frame :
  forall (Q : oracles) c m uac sels term es, c_ansi c = false -> emoticon Q term = None -> emoji_name Q (sg_word Q c term) = Some es -> I1 Q uac m ->
    rank_mem (RLast term 3) (sg_l0 Q c m uac term ++ emoji_ranked (sg_pre Q c term) (sg_tr Q c term) es 1) = rank_mem (RLast term 3) (sg_l0 Q c m uac term) ->
    let '(_, l, _, _) := suggest Q c m uac sels term in
    filter (fun x => negb (is_emoji x)) l =
    sort_ranks (if english_on c && negb (str_eqb term (sg_pre Q c term)) then push_checked (sg_l0 Q c m uac term) (RLast term 3) else sg_l0 Q c m uac term).
Proof. exact frame_names. Qed.

(** Fixed method: the emoticon's emoji / all emoji of the Bengali name (looked up without the non-joiners that
    traditional joining inserted) are in the sorted list before the cut at nine, wrapped like the word. *)
Theorem C18_fixed_emoticon :
  forall (Q : oracles) c buffer typed e, x_ansi c = false -> emoticon Q typed = Some e -> In e (map rstr (sort_ranks (ds_l3 Q c buffer typed))).
Proof. exact ds_emoticon. Qed.
Theorem C18_fixed_names :
  forall (Q : oracles) c buffer typed es e, x_ansi c = false -> emoticon Q typed = None ->
    emoji_bn Q (filter (fun ch => negb (ch =? ZWNJ)) (ds_word c buffer)) = Some es -> In e es ->
    In (ds_first c buffer ++ e ++ ds_last c buffer) (map rstr (sort_ranks (ds_l3 Q c buffer typed))).
Proof. exact ds_emoji_names. Qed.

Theorem C18_fixed_names_in_table_order :
  forall (Q : oracles) c buffer typed es, x_ansi c = false -> emoticon Q typed = None ->
    emoji_bn Q (filter (fun ch => negb (ch =? ZWNJ)) (ds_word c buffer)) = Some es ->
    filter is_emoji (sort_ranks (ds_l3 Q c buffer typed)) = emoji_ranked (ds_first c buffer) (ds_last c buffer) es 1.
Proof. exact ds_names_in_table_order. Qed.

(** emoji items carry the numbers 1, 2, 3 ... in table order *)
Theorem C18_emoji_numbers_follow_table_order :
  forall pre tr es r, map rank_num (emoji_ranked pre tr es r) = map (fun i => r + N.of_nat i) (seq 0 (length es)).
Proof.
  intros pre tr es. induction es as [|e t IH]; intros r; cbn [emoji_ranked map length seq]; [reflexivity|].
  f_equal; [cbn; rewrite N.add_0_r; reflexivity|]. rewrite IH, <- seq_shift, map_map. apply map_ext. intros i. rewrite Nat2N.inj_succ. rewrite <- N.add_1_l, N.add_assoc. reflexivity.
Qed.

Example C18_nonvacuous :
  let '(_, l, _, _) := suggest test_oracles cfg_all_on [] [] [] [40; 107; 97; 41] in
  map rstr l = [[40; 2469; 41]; [40; 128512; 41]; [40; 128516; 41]; [40; 2453; 2494; 41]; [40; 2453; 2494; 2433; 41]; [40; 2454; 2494; 41]; [40; 2463; 2453; 41]; [40; 107; 97; 41]].
Proof. vm_compute. reflexivity. Qed.

Print Assumptions C18_emoticon.
Print Assumptions C18_emoji_names.
Print Assumptions C18_fixed_names.
Print Assumptions C18_emoji_in_table_order.
Print Assumptions C18_frame.
Print Assumptions C18_fixed_names_in_table_order.
