(** Property C01 (placeholder until the invariant proof is in place). *)
Require Import Riti.model.Base.
Lemma C01_placeholder : True. Proof. exact I. Qed.
