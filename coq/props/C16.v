(** Property C16: ANSI mode never offers what it cannot encode (riti's side); the encoder itself is third-party. *)
Require Import Riti.model.Base Riti.model.Chars Riti.model.Split Riti.model.Rank Riti.model.Layout Riti.model.Phonetic
        Riti.model.FixedCompose Riti.model.FixedSuggest Riti.model.TestOracle
        Riti.proofs.Phonetic_Proof Riti.proofs.C05_Proof Riti.proofs.Lists_Proof Riti.proofs.Fixed_Proof.

(** Phonetic method, ANSI on, whatever the English option: every candidate is a direct candidate or the
    transliteration ([plain]: no Emoji item, no emoticon literal Last 1, no raw English Last 3) - for every oracle,
    typed text, store and transparent memo. *)
Theorem C16_phonetic_no_emoji_no_english :
  forall (Q : oracles) c m uac sels term, c_ansi c = true -> I1 Q uac m ->
    let '(_, l, _, _) := suggest Q c m uac sels term in Forall (fun x => plain x = true) l.
Proof. exact ansi_list_plain. Qed.

(** Fixed method, ANSI on: only the composed text and dictionary words. *)
Theorem C16_fixed_no_emoji_no_english :
  forall (Q : oracles) c buffer typed x, x_ansi c = true -> In x (dictionary_suggestion Q c buffer typed) -> is_direct x = true.
Proof. exact ds_ansi. Qed.

(** The read-out flag of every returned suggestion is the configuration's at creation time. *)
Theorem C16_flag_is_config :
  forall (Q : oracles) c s, c_suggest c = true -> exists l sel, snd (create_suggestion Q c s) = OFull (p_buf s) l sel (c_ansi c).
Proof. intros Q c s H. destruct (create_suggestion_full Q c s H) as (l & sel & Ho & _). eauto. Qed.
Theorem C16_flag_is_config_lonely :
  forall (Q : oracles) c s, c_suggest c = false -> snd (create_suggestion Q c s) = OSingle (suggest_only_phonetic Q (p_buf s)) (c_ansi c).
Proof. intros Q c s H. rewrite (create_suggestion_single Q c s H). reflexivity. Qed.

(** Reading a candidate out: with the flag the text is passed through the encoder, without it unchanged
    (src/suggestion.rs get_pre_edit_text).  That the encoder is total and leaves no Bengali-block code point is a
    statement about poriborton: tested on every candidate of every stream and on all dictionary words (thorough). *)
Definition pre_edit (Q : oracles) (ansi : bool) (candidate : str) : str := if ansi then bijoy Q candidate else candidate.
Theorem C16_readout : forall Q s, pre_edit Q false s = s /\ pre_edit Q true s = bijoy Q s.
Proof. intros. split; reflexivity. Qed.

Example C16_nonvacuous :
  let c := {| c_english := true; c_suggest := true; c_ansi := true; c_smart := false |} in
  let '(_, l, _, _) := suggest test_oracles c [] [] [] [107; 97] in
  map rstr l = [[2469]; [2453; 2494]; [2453; 2494; 2433]; [2454; 2494]; [2463; 2453]].
Proof. vm_compute. reflexivity. Qed.

Print Assumptions C16_phonetic_no_emoji_no_english.
Print Assumptions C16_fixed_no_emoji_no_english.
