(** Property C07: phonetic candidates are ranked best-first by a fixed, explainable order. *)
From Coq Require Import Sorted.
Require Import Riti.model.Base Riti.model.Chars Riti.model.Split Riti.model.Rank Riti.model.Layout Riti.model.Phonetic
        Riti.model.TestOracle Riti.proofs.Rank_Proof Riti.proofs.Phonetic_Proof Riti.proofs.C05_Proof Riti.proofs.Lists_Proof Riti.proofs.Order_Proof.

(** The comparator of the code is the lexicographic order on (class, number): First < Emoji/Other < Last,
    then the number (emoji position, 10 x edit distance, Last rank) - for ALL ranks, a total preorder. *)
Theorem C07_comparator_is_key_order : forall a b, rank_le a b = true <-> key_le a b.
Proof. exact rank_le_key. Qed.

(** For EVERY oracle, option set, memo, user list, store and typed text the returned list is sorted by that key
    (strongly: every earlier element is below every later one).  With the classes of the items this gives:
    the auto-correct item (First) before everything, dictionary words (Other d) in non-decreasing edit
    distance with suffix-built words carrying the distance of their base, emoji (number >= 1) never before a
    distance-0 word, the transliteration (Last 2) after all of them, raw English (Last 3) after that. *)
Theorem C07_sorted :
  forall (Q : oracles) c m uac sels term,
    let '(_, l, _, _) := suggest Q c m uac sels term in StronglySorted key_le l.
Proof. exact suggest_sorted. Qed.

(** Read position by position (for every strongly sorted list, hence for every returned list): dictionary words are
    in non-decreasing distance; only auto-correct items precede an auto-correct item; after the transliteration
    and the raw-text items come only such items in the order emoticon text, transliteration, raw English; an
    emoji (number >= 1) never precedes a dictionary word of distance 0. *)
Theorem C07_order_consequences :
  forall l, StronglySorted key_le l ->
    (forall i j a d1 b d2, (i < j)%nat -> nth_error l i = Some (ROther a d1) -> nth_error l j = Some (ROther b d2) -> d1 <= d2) /\
    (forall i j x s, (i < j)%nat -> nth_error l i = Some x -> nth_error l j = Some (RFirst s) -> exists s', x = RFirst s') /\
    (forall i j s r y, (i < j)%nat -> nth_error l i = Some (RLast s r) -> nth_error l j = Some y -> exists s' r', y = RLast s' r' /\ r <= r') /\
    (forall i j e r a, (i < j)%nat -> nth_error l i = Some (REmoji e r) -> nth_error l j = Some (ROther a 0) -> r = 0).
Proof. exact order_consequences. Qed.

(** suffix-built items keep class and number of their base (add_suffix only rewrites the text) *)
Theorem C07_suffix_items_inherit_rank :
  forall x s, rank_tier (set_rstr x s) = rank_tier x /\ rank_num (set_rstr x s) = rank_num x.
Proof. intros x s. destruct (set_rstr_class x s) as (_ & _ & _ & A & B). auto. Qed.

(** stability facts used for "first" and "last": a First item at the head of the unsorted list stays the head;
    an item not below any other, pushed last, stays last *)
Theorem C07_first_stays_first : forall s t, hd (RFirst s) (sort_ranks (RFirst s :: t)) = RFirst s.
Proof. exact sort_hd_first. Qed.
Theorem C07_last_stays_last : forall l x, (forall y, In y l -> rank_le y x = true) -> sort_ranks (l ++ [x]) = sort_ranks l ++ [x].
Proof. exact sort_last_max. Qed.

(** no text twice among the dictionary part and the transliteration (push_checked); emoji and the two raw-text
    items are distinct from them by their script (checked on every list by the stream's judge) *)
Theorem C07_no_duplicates_dictionary_part :
  forall (Q : oracles) m uac w, NoDup (strs (swd_core Q m uac w)).
Proof. intros Q m uac w. rewrite swd_core_upd. apply push_checked_nodup, fold_push_nodup. constructor. Qed.

(** sorting only permutes *)
Theorem C07_sort_permutes : forall l x, In x (sort_ranks l) <-> In x l.
Proof. intros l x. apply sort_In. Qed.

Example C07_nonvacuous :
  let '(_, l, _, _) := suggest test_oracles cfg_all_on [] [] [] [107; 97] in
  l = [RFirst [2469]; REmoji [128512] 1; REmoji [128516] 2; ROther [2453; 2494] 20; ROther [2453; 2494; 2433] 30;
       ROther [2454; 2494] 40; RLast [2463; 2453] 2; RLast [107; 97] 3].
Proof. vm_compute. reflexivity. Qed.

Print Assumptions C07_sorted.
Print Assumptions C07_order_consequences.
Print Assumptions C07_comparator_is_key_order.
Print Assumptions C07_no_duplicates_dictionary_part.
