(** Property C14: old vowel-sign order typing yields the same text as Unicode-order typing. *)
Require Import Riti.model.Base Riti.model.Chars Riti.model.FixedCompose Riti.spec.C14_Spec Riti.proofs.C14_Proof.

(** For EVERY word (any number of syllables of the grammar of spec/C14_Spec.v: onsets of any depth built
    with consonant keys, the hasanta key, ro-fola and zo-fola; any vowel sign, O and AU typed as two
    halves, either spelling of AU; any other single code points between), from EVERY composed text that
    does not end in hasanta, and for EVERY setting of the other four helpers: typing the word in
    typewriter order with the option on reaches exactly the state (text and nothing waiting) reached by
    typing it in Unicode order with the option off. *)
Theorem C14_typewriter_equals_unicode :
  forall (o : fopts) (w : list syl) (rb : list N),
    forallb syl_ok w = true -> (hd 0 rb =? B_HASANTA) = false ->
    run_keys (with_order o true) {| f_rb := rb; f_pend := None |} (flat_map typewriter_keys w)
    = run_keys (with_order o false) {| f_rb := rb; f_pend := None |} (flat_map unicode_keys w).
Proof. exact word_equiv. Qed.

Corollary C14_from_idle :
  forall (o : fopts) (w : list syl), forallb syl_ok w = true ->
    f_text (run_keys (with_order o true) f_init (flat_map typewriter_keys w))
    = f_text (run_keys (with_order o false) f_init (flat_map unicode_keys w)).
Proof. intros o w H. unfold f_init. rewrite (C14_typewriter_equals_unicode o w [] H eq_refl). reflexivity. Qed.

(** A sign waiting for its consonant is not shown, counts as an ongoing session, and is discarded by one backspace. *)
Theorem C14_waiting_sign :
  forall (o : fopts) (rb : list N) (k : N),
    o_kar_order o = true -> is_left_standing_kar k = true -> (hd 0 rb =? B_HASANTA) = false ->
    let s' := f_key o {| f_rb := rb; f_pend := None |} [k] in
    f_text s' = rev rb /\ f_ongoing s' = true /\ fst (f_backspace false s') = {| f_rb := rb; f_pend := None |}.
Proof. exact waiting_sign. Qed.

Check (C14_typewriter_equals_unicode :
  forall o w rb, forallb syl_ok w = true -> (hd 0 rb =? B_HASANTA) = false ->
    run_keys (with_order o true) {| f_rb := rb; f_pend := None |} (flat_map typewriter_keys w)
    = run_keys (with_order o false) {| f_rb := rb; f_pend := None |} (flat_map unicode_keys w)).

(** Non-vacuity: a three-syllable word with a conjunct, ra + zo-fola under a left-standing sign, a two-part
    sign spelled with the length mark, and chandrabindu; all helpers on. *)
Example C14_nonvacuous :
  let o := {| o_vowel := true; o_chandra := true; o_kar := true; o_old_reph := true; o_kar_order := false |} in
  let w := [SOnset (OH (OC B_K) B_T) (Some B_I_KAR) false; SOnset (OZo (OC B_R)) (Some B_O_KAR) false;
            SOnset (ORo (OC B_K)) (Some B_OU_KAR) true; SOther B_CHANDRA; SOther B_A] in
  forallb syl_ok w = true /\
  flat_map typewriter_keys w = [[B_I_KAR]; [B_K]; [B_HASANTA]; [B_T]; [B_E_KAR]; [B_R]; zofola; [B_AA_KAR];
                                [B_E_KAR]; [B_K]; rofola; [B_LENGTH_MARK]; [B_CHANDRA]; [B_A]] /\
  f_text (run_keys (with_order o true) f_init (flat_map typewriter_keys w))
  = [B_K; B_HASANTA; B_T; B_I_KAR; B_R; ZWJ; B_HASANTA; B_Z; B_O_KAR; B_K; B_HASANTA; B_R; B_OU_KAR; B_CHANDRA; B_A] /\
  f_text (run_keys (with_order o false) f_init (flat_map unicode_keys w))
  = [B_K; B_HASANTA; B_T; B_I_KAR; B_R; ZWJ; B_HASANTA; B_Z; B_O_KAR; B_K; B_HASANTA; B_R; B_OU_KAR; B_CHANDRA; B_A].
Proof. vm_compute. repeat split; reflexivity. Qed.

Print Assumptions C14_typewriter_equals_unicode.
Print Assumptions C14_from_idle.
Print Assumptions C14_waiting_sign.
