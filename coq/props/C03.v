(** Property C03: phonetic output is the Avro transliteration of exactly what was typed.
    "Avro transliteration" is the oracle [conv] (okkhor); everything around it is riti's and is proved. *)
Require Import Riti.model.Base Riti.model.Chars Riti.model.Split Riti.model.Rank Riti.model.Layout Riti.model.Phonetic
        Riti.gen.Gen_Tables Riti.model.TestOracle Riti.proofs.TablesAgree Riti.proofs.Split_Proof Riti.proofs.Phonetic_Proof Riti.proofs.C03_Proof.

(** Suggestions off: for EVERY word of letters and digits and EVERY leading / trailing strings over the
    listed punctuation, the single string is conv(leading) ++ conv(word) ++ conv(trailing). *)
Theorem C03_lonely :
  forall (Q : oracles) (l w r : str),
    forallb (fun c => mem c punct_chars) l = true -> forallb (fun c => mem c punct_chars) r = true ->
    w <> [] -> forallb alnum w = true ->
    suggest_only_phonetic Q (l ++ w ++ r) = conv Q l ++ conv Q w ++ conv Q r.
Proof. exact lonely_wrapped. Qed.

(** The split itself, for every string: nothing lost or invented; punctuation-only text is all leading. *)
Theorem C03_split_conserves : forall s ic, sp_pre (split s ic) ++ sp_word (split s ic) ++ sp_trail (split s ic) = s.
Proof. exact split_concat. Qed.
Theorem C03_split_wrapped_word :
  forall l w r ic, forallb (fun c => mem c punct_chars) l = true -> forallb (fun c => mem c punct_chars) r = true ->
    w <> [] -> forallb alnum w = true -> split (l ++ w ++ r) ic = (l, w, r).
Proof. exact split_alnum. Qed.
Theorem C03_only_punctuation : forall s ic, forallb is_meta s = true -> split s ic = (s, [], []).
Proof. exact split_all_meta. Qed.

(** Suggestions on, for EVERY typed text (any string), memo, user list, learned selections and options:
    the transliteration of the three split parts (with the smart-quote curling of the wrapping quotes when
    that option is on) is one of the candidates. *)
Theorem C03_transliteration_is_candidate :
  forall (Q : oracles) (c : pcfg) (m : memo) (uac sels : list (str * str)) (term : str),
    let '(_, l, _, _) := suggest Q c m uac sels term in
    In (sg_pre Q c term ++ conv Q (sg_word Q c term) ++ sg_tr Q c term) (map rstr l).
Proof. exact translit_is_candidate. Qed.

(** The key table regenerated from the code equals the table derived from riti.h's names; every typeable
    ASCII character has a key; every key types an ASCII character. *)
Theorem C03_key_table : gen_keychar = spec_keychar.
Proof. exact keychar_agree. Qed.
Theorem C03_all_typeable_have_keys : forallb (fun c => existsb (fun kc => snd kc =? c) gen_keychar) (rangeN 33 94) = true.
Proof. exact typeable_have_keys. Qed.

(** Non-vacuity *)
Example C03_nonvacuous :
  split [40; 34; 107; 97; 49; 34; 41; 46] false = ([40; 34], [107; 97; 49], [34; 41; 46]) /\
  suggest_only_phonetic test_oracles [40; 34; 107; 97; 49; 34; 41; 46] = [40; 34; 0x99F; 0x995; 49; 34; 41; 46] /\
  sg_pre test_oracles cfg_all_on [34; 107; 97; 34] = [0x201C] /\ sg_tr test_oracles cfg_all_on [34; 107; 97; 34] = [0x201D].
Proof. vm_compute. repeat split; reflexivity. Qed.

Print Assumptions C03_lonely.
Print Assumptions C03_transliteration_is_candidate.
Print Assumptions C03_split_wrapped_word.
Print Assumptions C03_key_table.
