(** Property C12: fixed-layout composition helpers rewrite the text exactly as documented. *)
Require Import Riti.model.Base Riti.model.Chars Riti.model.FixedCompose Riti.spec.C12_Spec Riti.spec.C13_Spec
        Riti.proofs.C12_Proof Riti.proofs.C13_Proof.

(** For EVERY composed text [rb] (kept reversed in the model; [rev rb] is the reading order), every key
    value [v] (any length, any code points), every waiting-sign state and every setting of the four
    helpers, with the old vowel-sign order off: the model of process_key_value produces exactly the
    text the rule table of the property assigns (spec/C12_Spec.v), and touches nothing else. *)
Theorem C12_key_follows_rule_table :
  forall (o : fopts) (rb : list N) (pend : option N) (v : str),
    o_kar_order o = false ->
    process_key_value o rb pend v = (rev (rule_table model_reph o (rev rb) v), pend).
Proof. exact pkv_is_rule_table. Qed.

(** The reph entry of the rule table is the C13 placement on every text whose hasantas follow consonants. *)
Theorem C12_reph_entry_is_C13 :
  forall p, wf_hasanta p = true -> model_reph p = reph_spec p.
Proof. exact reph_placement. Qed.

(** Backspace removes exactly the last code point. *)
Theorem C12_backspace_removes_last :
  forall s, f_pend s = None -> f_rb s <> [] ->
    f_text (fst (f_backspace false s)) = backspace_spec (f_text s).
Proof. exact backspace_is_removelast. Qed.

Check (C12_key_follows_rule_table :
  forall o rb pend v, o_kar_order o = false ->
    process_key_value o rb pend v = (rev (rule_table model_reph o (rev rb) v), pend)).

(** Non-vacuity: each rule fires on a concrete text (values computed by the model). *)
Example C12_nonvacuous :
  let o := {| o_vowel := true; o_chandra := true; o_kar := true; o_old_reph := false; o_kar_order := false |} in
  rule_table model_reph o [B_R] zofola = [B_R; ZWJ; B_HASANTA; B_Z] /\
  rule_table model_reph o [B_K; B_HASANTA; B_R] zofola = [B_K; B_HASANTA; B_R; B_HASANTA; B_Z] /\
  rule_table model_reph o [] [B_AA_KAR] = [B_AA] /\
  rule_table model_reph o [B_K; B_AA_KAR] [B_I_KAR] = [B_K; B_AA_KAR; B_I] /\
  rule_table model_reph o [B_K; 40] [B_E_KAR] = [B_K; 40; B_E] /\
  rule_table model_reph o [B_K; B_CHANDRA] [B_AA_KAR] = [B_K; B_AA_KAR; B_CHANDRA] /\
  rule_table model_reph o [B_K; B_HASANTA] [B_U_KAR] = [B_K; B_U] /\
  rule_table model_reph o [B_K; B_HASANTA] [B_HASANTA] = [B_K; B_HASANTA; ZWNJ] /\
  rule_table model_reph o [B_K; B_HASANTA] [B_LENGTH_MARK] = [B_K; B_OU] /\
  rule_table model_reph o [B_K] [B_U_KAR] = [B_K; ZWNJ; B_U_KAR] /\
  rule_table model_reph o [B_K] [B_AA_KAR; B_CHANDRA] = [B_K; B_AA_KAR; B_CHANDRA] /\
  process_key_value o [B_R] None zofola = ([B_Z; B_HASANTA; ZWJ; B_R], None).
Proof. vm_compute. repeat split; reflexivity. Qed.

Print Assumptions C12_key_follows_rule_table.
Print Assumptions C12_reph_entry_is_C13.
Print Assumptions C12_backspace_removes_last.
