(** Property C17: smart quotes curl only the quotes that wrap a word, and nothing else. *)
Require Import Riti.model.Base Riti.model.Chars Riti.model.Split Riti.model.Rank Riti.model.Layout Riti.model.Phonetic
        Riti.model.FixedCompose Riti.model.FixedSuggest Riti.model.TestOracle
        Riti.proofs.Phonetic_Proof Riti.proofs.C05_Proof Riti.proofs.Fixed_Proof Riti.proofs.C17_Proof.

(** The quoter, for ALL parts: nothing for an empty word; otherwise exactly the straight quotes of the leading part
    become opening and those of the trailing part closing curly quotes; mapping curly quotes back restores the input. *)
Theorem C17_quoter_empty_word : forall p t, smart_quoter (p, [], t) = (p, [], t).
Proof. exact smart_quoter_empty_word. Qed.
Theorem C17_quoter_word : forall p w t, w <> [] -> smart_quoter (p, w, t) = (map curl_open p, w, map curl_close t).
Proof. exact smart_quoter_word. Qed.
Theorem C17_quoter_uncurl : forall p w t, no_curly p -> no_curly t ->
  let '(p', w', t') := smart_quoter (p, w, t) in map uncurl p' = p /\ w' = w /\ map uncurl t' = t.
Proof. exact smart_quoter_uncurl. Qed.

(** Text that is only punctuation is left untouched: both methods return the identical result. *)
Theorem C17_only_punctuation_phonetic :
  forall (Q : oracles) c m uac sels term, sp_word (split term false) = [] ->
    suggest Q (with_smart c true) m uac sels term = suggest Q (with_smart c false) m uac sels term.
Proof. exact no_word_same. Qed.
Theorem C17_only_punctuation_fixed :
  forall (Q : oracles) c buffer typed, sp_word (split buffer true) = [] ->
    dictionary_suggestion Q (xwith_smart c true) buffer typed = dictionary_suggestion Q (xwith_smart c false) buffer typed.
Proof. exact fixed_no_word_same. Qed.

(** With a word: the dictionary part and the transliteration are the SAME items (same rank, same order) in both
    settings; only the wrapping differs, by the curling of the two outer parts. *)
Theorem C17_dictionary_part :
  forall (Q : oracles) c m uac term, sp_word (split term false) <> [] ->
    let pf := sg_pre Q (with_smart c false) term in let tf := sg_tr Q (with_smart c false) term in
    let core := swd_core Q m uac (sg_word Q (with_smart c false) term) in
    sg_l0 Q (with_smart c false) m uac term = (match pf, tf with [], [] => core | _, _ => map (wrap pf tf) core end) /\
    sg_l0 Q (with_smart c true) m uac term = (match pf, tf with [], [] => core | _, _ => map (wrap (map curl_open pf) (map curl_close tf)) core end).
Proof. exact l0_on_off. Qed.

(** Fixed method: the two lists always have the same length (same candidates, same cut, same English item). *)
Theorem C17_fixed_same_length :
  forall (Q : oracles) c buffer typed,
    length (dictionary_suggestion Q (xwith_smart c true) buffer typed) = length (dictionary_suggestion Q (xwith_smart c false) buffer typed).
Proof. exact fixed_same_length. Qed.

(** Phonetic method, the whole list, position by position, for EVERY dictionary, memo, user list, learned selections,
    option set and typed text with a word part - under [same_checks]: the four places where the code compares the
    raw typed text with something that is curled in one setting only (twice with the leading part, twice in the
    duplicate check against the list) come out the same.  Where they do not, the lists really differ: that is the
    open finding self-transliterating-word-in-quotes ([C17_same_length_refuted] below), so the proviso is exact.
    Each candidate with the option on is the candidate at the same position with it off: identical only if it is the
    raw typed text or the emoticon's emoji, otherwise the same core text with the same rank re-wrapped in the curled
    outer parts. *)
Theorem C17_phonetic_lists_correspond :
  forall (Q : oracles) c m uac sels term, sp_word (split term false) <> [] -> same_checks Q c m uac term ->
    let '(_, l_on, _, _) := suggest Q (with_smart c true) m uac sels term in
    let '(_, l_off, _, _) := suggest Q (with_smart c false) m uac sels term in
    Forall2 (curl_rel_id (phon_id Q term) (sg_pre Q (with_smart c false) term) (sg_tr Q (with_smart c false) term)) l_on l_off.
Proof. exact phon_lists_correspond_id. Qed.

(** ... and the preselected index is the same, provided neither the raw text nor the emoticon's emoji happens to be
    the very text the learned selection asks for *)
Theorem C17_phonetic_same_preselection :
  forall (Q : oracles) c m uac sels term, sp_word (split term false) <> [] -> same_checks Q c m uac term ->
    (forall x b, x = term \/ emoticon Q term = Some x ->
       x <> sg_pre Q (with_smart c b) term ++ selected_text Q sels (sg_word Q (with_smart c false) term) ++ sg_tr Q (with_smart c b) term) ->
    let '(_, _, _, s_on) := suggest Q (with_smart c true) m uac sels term in
    let '(_, _, _, s_off) := suggest Q (with_smart c false) m uac sels term in
    s_on = s_off.
Proof. exact phon_preselection_same. Qed.

(** Fixed method, the whole list, position by position, for EVERY dictionary, emoji table, option set and composition
    with a word part: the candidate at each position with the option on is the candidate at the same position with it
    off - identical (the emoticon's emoji, the raw key text), or the same core text with the same rank, wrapped in the
    curled outer parts instead of the straight ones.  Length, order and preselection (always the first) follow. *)
Theorem C17_fixed_lists_correspond :
  forall (Q : oracles) c buffer typed, sp_word (split buffer true) <> [] ->
    Forall2 (curl_rel (sp_pre (split buffer true)) (sp_trail (split buffer true)))
            (dictionary_suggestion Q (xwith_smart c true) buffer typed) (dictionary_suggestion Q (xwith_smart c false) buffer typed).
Proof. exact fixed_lists_correspond. Qed.
Check C17_fixed_lists_correspond : forall (Q : oracles) c buffer typed, sp_word (split buffer true) <> [] ->
    Forall2 (fun a b => a = b \/ exists s, rstr b = sp_pre (split buffer true) ++ s ++ sp_trail (split buffer true) /\
                                          a = set_rstr b (map curl_open (sp_pre (split buffer true)) ++ s ++ map curl_close (sp_trail (split buffer true))))
            (dictionary_suggestion Q (xwith_smart c true) buffer typed) (dictionary_suggestion Q (xwith_smart c false) buffer typed).

(** Sorting commutes with every re-wrapping that keeps the ranks, so order and positions coincide. *)
Theorem C17_sort_commutes_with_rewrapping : forall f l, keeps_rank f -> sort_ranks (map f l) = map f (sort_ranks l).
Proof. exact sort_map. Qed.

(** The "same length" clause fails in the phonetic method in one corner (open known finding
    self-transliterating-word-in-quotes): a quoted word that converts to itself, English on. *)
Example C17_same_length_refuted :
  let Q := test_oracles in let c := cfg_all_on in
  let '(_, l_on, _, _) := suggest Q (with_smart c true) [] [] [] [34; 92] in
  let '(_, l_off, _, _) := suggest Q (with_smart c false) [] [] [] [34; 92] in
  length l_on = 2%nat /\ length l_off = 1%nat.
Proof. vm_compute. split; reflexivity. Qed.

Example C17_nonvacuous :
  let Q := test_oracles in let c := cfg_all_on in
  let '(_, l_on, _, s_on) := suggest Q (with_smart c true) [] [] [] [34; 107; 97; 34] in
  let '(_, l_off, _, s_off) := suggest Q (with_smart c false) [] [] [] [34; 107; 97; 34] in
  map (fun x => map uncurl (rstr x)) l_on = map rstr l_off /\ s_on = s_off /\ map rstr l_on <> map rstr l_off.
Proof. vm_compute. repeat split. discriminate. Qed.

(** the proviso holds for ordinary quoted words (here "ka" typed with both quotes, every option on) *)
Example C17_same_checks_somewhere : same_checks test_oracles cfg_all_on [] [] [34; 107; 97; 34].
Proof. constructor; vm_compute; reflexivity. Qed.

Print Assumptions C17_quoter_uncurl.
Print Assumptions C17_dictionary_part.
Print Assumptions C17_fixed_same_length.
Print Assumptions C17_only_punctuation_phonetic.

Print Assumptions C17_fixed_lists_correspond.
Print Assumptions C17_phonetic_lists_correspond.
Print Assumptions C17_phonetic_same_preselection.
