(** Property C02: every returned suggestion is self-consistent and fully retrievable. *)
Require Import Riti.model.Base Riti.model.Chars Riti.model.Split Riti.model.Rank Riti.model.Layout Riti.model.Phonetic
        Riti.model.FixedCompose Riti.model.FixedSuggest Riti.model.TestOracle Riti.proofs.C01_Proof Riti.proofs.C02_Proof.

(** Phonetic method, for EVERY oracle (any transliteration, dictionary, emoji tables), configuration, state,
    key and selection byte: a list-style suggestion holds at least one candidate, its auxiliary text is
    exactly the composition (the buffer after the key), and its previously-selected index is below its
    length - unless the key is one of the 13 punctuation keys, where the caller's byte is echoed
    (class echo-out-of-range of KNOWN_FINDINGS.txt when that byte is not below the new length). *)
Theorem C02_phonetic_key :
  forall (Q : oracles) (c : pcfg) (s : pstate) (k selb : N),
    let r := p_key Q c s k selb in
    full_ok (p_buf (fst r))
            (match keycode_to_char k with Some ch => if mem ch echo_chars then Some (N.to_nat selb) else None | None => None end)
            (snd r)
    /\ p_buf (fst r) = match keycode_to_char k with Some ch => p_buf s ++ [ch] | None => p_buf s end.
Proof. exact p_key_ok. Qed.

Theorem C02_phonetic_backspace :
  forall (Q : oracles) (c : pcfg) (s : pstate) (ctrl : bool),
    let r := p_backspace Q c s ctrl in full_ok (p_buf (fst r)) None (snd r).
Proof. exact p_backspace_ok. Qed.

(** ... where the composition is the raw typed text that survives: a function of the events alone (characters of the
    keys appended, one removed per backspace, emptied by ctrl-backspace, commit and finish), for every state - except that a
    backspace returning an EMPTY suggestion (what is left displays as nothing) empties it, so an empty suggestion always
    means the word is gone. *)
Theorem C02_composition_is_surviving_text :
  forall (Q : oracles) c s e c' s' o, p_step Q c s e = Some (c', s', o) ->
    p_buf s' = compose_step (p_buf s) e \/ (e = PBackspace false /\ out_empty o = true /\ p_buf s' = []).
Proof. exact buffer_is_composition. Qed.

(** Fixed method: the candidate list is never empty, the auxiliary text is the composed text, the index is 0 < length;
    [x_inv] (the stored list is non-empty whenever it can be shown again) is an invariant of every event. *)
Theorem C02_fixed_key :
  forall (Q : oracles) L c s k m, x_inv c s ->
    let r := x_key Q L c s k m in xfull_ok (x_buffer (fst r)) (snd r) /\ x_inv c (fst r).
Proof. exact x_key_ok. Qed.

Theorem C02_fixed_backspace :
  forall (Q : oracles) c s ctrl, x_inv c s ->
    let r := x_backspace Q c s ctrl in xfull_ok (x_buffer (fst r)) (snd r) /\ x_inv c (fst r).
Proof. exact x_backspace_ok. Qed.

Theorem C02_fixed_init_inv : forall c, x_inv c x_init.
Proof. intros c. left. reflexivity. Qed.

(** The echo clause is really violated by the faithful model (known finding): after "ka" (three candidates and
    more) the key ':' with selection byte 2 returns a one-candidate list with index 2. *)
Example C02_echo_refuted :
  exists (s : pstate) (k selb : N),
    match snd (p_key test_oracles cfg_all_on s k selb) with
    | OFull _ l sel _ => (length l <= sel)%nat
    | _ => False
    end.
Proof.
  exists (fst (p_key test_oracles cfg_all_on (fst (p_key test_oracles cfg_all_on (p_new [] []) 41120 0)) 41110 0)), 99, 9.
  vm_compute. repeat constructor.
Qed.

(** Non-vacuity: a concrete key event with a four-candidate list. *)
Example C02_nonvacuous :
  snd (p_key test_oracles cfg_all_on (fst (p_key test_oracles cfg_all_on (p_new [] []) 41120 0)) 41110 0)
  = OFull [107; 97] [[2469]; [128512]; [128516]; [2453; 2494]; [2453; 2494; 2433]; [2454; 2494]; [2463; 2453]; [107; 97]] 0 false.
Proof. vm_compute. reflexivity. Qed.

Print Assumptions C02_phonetic_key.
Print Assumptions C02_phonetic_backspace.
Print Assumptions C02_composition_is_surviving_text.
Print Assumptions C02_fixed_key.
Print Assumptions C02_fixed_backspace.
