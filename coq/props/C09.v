(** Property C09: a learned candidate choice is remembered, also after a restart. *)
Require Import Riti.model.Base Riti.model.Chars Riti.model.Split Riti.model.Rank Riti.model.Layout Riti.model.Phonetic
        Riti.model.Context Riti.model.TestOracle Riti.proofs.Phonetic_Proof Riti.proofs.C05_Proof Riti.proofs.C09_Proof.

(** A learning commit (an index other than the preselected one, while composing, suggestions on) stores
    word part -> candidate text without its wrapping punctuation, rewrites the file and ends the word;
    every other entry of the store is untouched.  For EVERY state, index and candidate that carries its affixes. *)
Theorem C09_commit_learns :
  forall c s i x (b : str), c_suggest c = true -> p_buf s <> [] -> p_prev s <> i ->
    nth_error (p_sugg s) i = Some x -> rstr x = fst (p_affix s) ++ b ++ snd (p_affix s) ->
    exists s', p_commit c s i = Some (s', true) /\ p_buf s' = [] /\ p_uac s' = p_uac s /\
      assocS (sp_word (split (p_buf s) false)) (p_sels s') = Some b /\
      (forall k, str_eqb k (sp_word (split (p_buf s) false)) = false -> assocS k (p_sels s') = assocS k (p_sels s)).
Proof. exact commit_learns. Qed.

(** With an entry for the word part, the preselected candidate of ANY list for ANY wrapping is the learned text in
    that wrapping, whenever it is offered (and by C05 the same text always yields the same list). *)
Theorem C09_learned_is_preselected :
  forall (Q : oracles) (sels : list (str * str)) l (pre w tr b : str),
    assocS w sels = Some b -> (exists x, In x l /\ rstr x = pre ++ b ++ tr) ->
    option_map rstr (nth_error l (prev_selection Q sels l pre w tr)) = Some (pre ++ b ++ tr).
Proof. exact learned_is_preselected. Qed.

(** Word + known suffix without an entry of its own: the joined text of the first split (shortest suffix) that has a
    learned base is preselected when offered. *)
Theorem C09_suffix_of_learned_word :
  forall (Q : oracles) (sels : list (str * str)) l (pre w tr sel : str),
    assocS w sels = None -> (2 <= length w)%nat -> sel_by_suffix Q sels w (seq 1 (length w - 1)) = sel ->
    (exists x, In x l /\ rstr x = pre ++ sel ++ tr) ->
    option_map rstr (nth_error l (prev_selection Q sels l pre w tr)) = Some (pre ++ sel ++ tr).
Proof. exact suffix_learned_is_preselected. Qed.

(** ... and which split that is: reading the remainders from the shortest on (one letter, two, ...), i.e. the bases from the
    longest on, the first base with a learned choice whose remainder is a known suffix decides.  A shorter learned base is
    only consulted when no longer one fits - for EVERY store, word and suffix table. *)
Theorem C09_longest_learned_base_decides :
  forall (Q : oracles) (sels : list (str * str)) (w : str) (i : nat) (suf base : str),
    (1 <= i <= length w - 1)%nat ->
    suffix_of Q (skipn (length w - i) w) = Some suf -> assocS (firstn (length w - i) w) sels = Some base ->
    (forall j, (1 <= j < i)%nat -> suffix_of Q (skipn (length w - j) w) = None \/ assocS (firstn (length w - j) w) sels = None) ->
    sel_by_suffix Q sels w (seq 1 (length w - 1)) = join base suf.
Proof. exact sel_longest_base. Qed.

(** Committing the preselected candidate changes nothing and writes nothing. *)
Theorem C09_preselected_commit_is_noop : forall c s, p_commit c s (p_prev s) = Some (set_buf s [], false).
Proof. exact commit_preselected_noop. Qed.

(** The file is at all times absent or the in-memory map (when the directory is writable); a restart loads exactly it. *)
Theorem C09_file_is_store :
  forall c fs s i s' fs', f_dir_writable fs = true -> ctx_commit c fs s i = Some (s', fs') ->
    (f_sels fs' = FMap (p_sels s') /\ load (f_sels fs') = p_sels s') \/ (fs' = fs /\ p_sels s' = p_sels s).
Proof.
  intros c fs s i s' fs' Hw H. unfold ctx_commit in H. destruct (p_commit c s i) as [[s1 [|]]|] eqn:E; [| |discriminate].
  - rewrite Hw in H. inversion H; subst. left. split; reflexivity.
  - inversion H; subst. right. split; [reflexivity|]. unfold p_commit in E.
    destruct (negb _ && _ && _); [destruct (bare_suggestion s i); inversion E | inversion E; reflexivity].
Qed.
Theorem C09_restart_loads_store : forall fs m, f_sels fs = FMap m -> p_sels (ctx_new fs) = m.
Proof. intros fs m H. unfold ctx_new. cbn. rewrite H. reflexivity. Qed.

Example C09_nonvacuous :
  match p_run test_oracles cfg_all_on (p_new [] []) [PKey 41120 0; PKey 41110 0; PCommit 3; PKey 41120 0; PKey 41110 0] with
  | Some (_, s, outs) => p_sels s = [([107; 97], [2453; 2494])] /\ (match last outs (OUnit, false) with (OFull _ l sel _, _) => nth_error l sel | _ => None end) = Some [2453; 2494]
  | None => False
  end.
Proof. vm_compute. split; reflexivity. Qed.

Print Assumptions C09_commit_learns.
Print Assumptions C09_learned_is_preselected.
Print Assumptions C09_suffix_of_learned_word.
Print Assumptions C09_longest_learned_base_decides.
