(** Property C05: suggestions depend only on the surviving typed text, not on typing history. *)
Require Import Riti.model.Base Riti.model.Chars Riti.model.Split Riti.model.Rank Riti.model.Layout Riti.model.Phonetic
        Riti.model.TestOracle Riti.proofs.Phonetic_Proof Riti.proofs.C05_Proof.

(** [Reach Q uac sels c s]: the context state [s] (with current configuration [c]) was reached from a
    new context over the user list [uac] and the learned selections [sels] by ANY finite history of key
    presses (any key, any selection byte), backspaces, commits, finish requests and - while idle -
    re-configurations with or without a reload of the user list.

    For EVERY oracle (transliteration, dictionary, suffix and emoji tables), every two reachable states -
    of the same context at different times or of different contexts, with whatever other words composed
    before (warm memo) - that agree on the surviving text, the user list and the learned selections:
    every continuation history produces the same outputs (candidates, order, preselection, auxiliary
    text, session flag) in both. *)
Theorem C05_history_independence :
  forall (Q : oracles) uac1 sels1 uac2 sels2 (c : pcfg) (s1 s2 : pstate),
    Reach Q uac1 sels1 c s1 -> Reach Q uac2 sels2 c s2 ->
    p_buf s1 = p_buf s2 -> p_uac s1 = p_uac s2 -> p_sels s1 = p_sels s2 ->
    forall h, hist_ok Q c s1 h ->
      match p_run Q c s1 h, p_run Q c s2 h with
      | Some (_, _, o1), Some (_, _, o2) => o1 = o2
      | None, None => True
      | _, _ => False
      end.
Proof.
  intros Q uac1 sels1 uac2 sels2 c s1 s2 R1 R2 Eb Eu El h Hok.
  apply bisim_run; [|exact Hok]. split; [unfold same_core; auto|].
  split; eapply reach_good; eauto.
Qed.

(** In particular the suggestion for the current composition, and the list / preselection a commit would
    use, are the same in any two such states. *)
Theorem C05_current_suggestion :
  forall (Q : oracles) uac1 sels1 uac2 sels2 (c : pcfg) (s1 s2 : pstate),
    Reach Q uac1 sels1 c s1 -> Reach Q uac2 sels2 c s2 ->
    p_buf s1 = p_buf s2 -> p_uac s1 = p_uac s2 -> p_sels s1 = p_sels s2 -> c_suggest c = true ->
    snd (create_suggestion Q c s1) = snd (create_suggestion Q c s2) /\
    (p_buf s1 <> [] -> same_view s1 s2).
Proof.
  intros Q uac1 sels1 uac2 sels2 c s1 s2 R1 R2 Eb Eu El Hs.
  pose proof (reach_good Q _ _ _ _ R1) as G1. pose proof (reach_good Q _ _ _ _ R2) as G2.
  assert (Hc : same_core s1 s2) by (unfold same_core; auto).
  split.
  - destruct G1 as ((A1 & A2 & A3) & _), G2 as ((B1 & B2 & B3) & _).
    destruct (create_related Q c s1 s2 Hc) as (O & _); auto; intros X; apply I3_weaken; auto.
  - intros Hb. apply (good_same_view Q c s1 s2 Hc G1 G2 Hb Hs).
Qed.

(** The memo is transparent: in every reachable state each entry is the pure function [direct] of its key. *)
Theorem C05_memo_transparent :
  forall (Q : oracles) uac sels c s, Reach Q uac sels c s ->
    forall k v, assocS k (p_memo s) = Some v -> v = direct Q (p_uac s) k.
Proof. intros Q uac sels c s Hr. destruct (reach_good Q _ _ _ _ Hr) as ((A1 & _) & _). exact A1. Qed.

(** Non-vacuity: a warm context (another word composed before, a detour removed by backspace) and a new
    one, both with "kar" surviving: same suggestion; the premises hold for both. *)
Example C05_nonvacuous :
  let Q := test_oracles in let c := cfg_all_on in
  let run h := match p_run Q c (p_new [] []) h with Some (_, s, outs) => Some (p_buf s, last outs (OUnit, false)) | None => None end in
  run [PKey 41120 0; PKey 41110 0; PFinish; PKey 41120 0; PKey 41110 0; PKey 41121 0; PBackspace false; PKey 41127 0]
  = run [PKey 41120 0; PKey 41110 0; PKey 41127 0] /\
  (exists o, run [PKey 41120 0; PKey 41110 0; PKey 41127 0] = Some ([107; 97; 114], (OFull [107; 97; 114] o 0 false, true)) /\ (2 <= length o)%nat).
Proof. vm_compute. split; [reflexivity|]. eexists. split; [reflexivity|]. repeat constructor. Qed.

Print Assumptions C05_history_independence.
Print Assumptions C05_current_suggestion.
Print Assumptions C05_memo_transparent.
