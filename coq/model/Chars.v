(** Code point constants and character classes (src/fixed/chars.rs, src/utility.rs). *)
Require Import Riti.model.Base.

Definition B_CHANDRA := 0x981.
Definition B_ANUSHAR := 0x982.
Definition B_BISHARGA := 0x983.
Definition B_A := 0x985.   Definition B_AA := 0x986.  Definition B_I := 0x987.
Definition B_II := 0x988.  Definition B_U := 0x989.   Definition B_UU := 0x98A.
Definition B_RRI := 0x98B. Definition B_E := 0x98F.   Definition B_OI := 0x990.
Definition B_O := 0x993.   Definition B_OU := 0x994.
Definition B_K := 0x995.
Definition B_NGA := 0x999.
Definition B_T := 0x9A4.
Definition B_Z := 0x9AF.
Definition B_R := 0x9B0.
Definition B_AA_KAR := 0x9BE.  Definition B_I_KAR := 0x9BF.  Definition B_II_KAR := 0x9C0.
Definition B_U_KAR := 0x9C1.   Definition B_UU_KAR := 0x9C2. Definition B_RRI_KAR := 0x9C3.
Definition B_VOCALIC_RR := 0x9C4.
Definition B_E_KAR := 0x9C7.   Definition B_OI_KAR := 0x9C8.
Definition B_O_KAR := 0x9CB.   Definition B_OU_KAR := 0x9CC.
Definition B_HASANTA := 0x9CD.
Definition B_KHANDATTA := 0x9CE.
Definition B_LENGTH_MARK := 0x9D7.
Definition B_Y := 0x9DF.
Definition B_SANSKRIT_RR := 0x9E0.
Definition B_DARI := 0x964.
Definition ZWJ := 0x200D.
Definition ZWNJ := 0x200C.

(** [Utility::is_vowel]: independent vowels and vowel signs (U+09C4 and U+09E0 are not members). *)
Definition vowels : list N :=
  [0x985;0x986;0x987;0x988;0x989;0x98A;0x98B;0x98C;0x98F;0x990;0x993;0x994;
   0x9BE;0x9BF;0x9C0;0x9C1;0x9C2;0x9C3;0x9C7;0x9C8;0x9CB;0x9CC;0x9E1].
(** [Utility::is_kar]: dependent vowel signs. *)
Definition kars : list N :=
  [0x9BE;0x9BF;0x9C0;0x9C1;0x9C2;0x9C3;0x9C4;0x9C7;0x9C8;0x9CB;0x9CC].
(** [Utility::is_pure_consonant] *)
Definition pure_consonants : list N :=
  [0x995;0x996;0x997;0x998;0x999;0x99A;0x99B;0x99C;0x99D;0x99E;0x99F;0x9A0;0x9A1;0x9A2;0x9A3;
   0x9A4;0x9A5;0x9A6;0x9A7;0x9A8;0x9AA;0x9AB;0x9AC;0x9AD;0x9AE;0x9AF;0x9B0;0x9B2;0x9B6;0x9B7;
   0x9B8;0x9B9;0x9CE;0x9DC;0x9DD;0x9DF].
Definition ligature_making_kars : list N := [0x9C1;0x9C2;0x9C3].
Definition left_standing_kars : list N := [0x9BF;0x9C7;0x9C8].

Definition is_vowel (c : N) := mem c vowels.
Definition is_kar (c : N) := mem c kars.
Definition is_pure_consonant (c : N) := mem c pure_consonants.
Definition is_ligature_making_kar (c : N) := mem c ligature_making_kars.
Definition is_left_standing_kar (c : N) := mem c left_standing_kars.

(** MARKS of src/fixed/method.rs (32 ASCII punctuation characters, as code points). *)
Definition marks : list N :=
  [96;126;33;64;35;36;37;94;43;42;45;95;61;43;92;124;34;47;59;58;44;46;47;63;62;60;40;41;91;93;123;125].
Definition is_mark (c : N) := mem c marks.

(** META of src/utility.rs (27 ASCII punctuation characters and the danda U+0964). *)
Definition meta : list N :=
  [45;93;126;33;64;35;37;38;42;40;41;95;61;43;91;123;125;39;34;59;60;62;47;63;124;46;44;0x964].
Definition is_meta (c : N) := mem c meta.

(** The matching independent vowel of a vowel sign (both tables of process_key_value). *)
Definition vowel_of_kar (c : N) : option N :=
  if c =? B_AA_KAR then Some B_AA else if c =? B_I_KAR then Some B_I
  else if c =? B_II_KAR then Some B_II else if c =? B_U_KAR then Some B_U
  else if c =? B_UU_KAR then Some B_UU else if c =? B_RRI_KAR then Some B_RRI
  else if c =? B_E_KAR then Some B_E else if c =? B_OI_KAR then Some B_OI
  else if c =? B_O_KAR then Some B_O else if c =? B_OU_KAR then Some B_OU
  else if c =? B_VOCALIC_RR then Some B_SANSKRIT_RR else None.

(** UTF-8 width of a scalar value (char::len_utf8). *)
Definition utf8_len (c : N) : N :=
  if c <? 0x80 then 1 else if c <? 0x800 then 2 else if c <? 0x10000 then 3 else 4.
