(** Model of the fixed-layout composition (src/fixed/method.rs):
    process_key_value, insert_old_style_reph, is_reph_moveable, backspace.

    The buffer is kept REVERSED ([rb]: right-most code point first), because every rule
    looks at / edits the end of the text.  The visible text is [rev rb]. *)
Require Import Riti.model.Base Riti.model.Chars.

Record fopts := {
  o_vowel : bool;      (* automatic vowel forming *)
  o_chandra : bool;    (* automatic chandrabindu position *)
  o_kar : bool;        (* traditional Kar joining *)
  o_old_reph : bool;   (* old style reph *)
  o_kar_order : bool;  (* old style Kar ordering *)
}.

Definition rmc_of (rb : list N) : N := hd 0 rb.
Definition push_str (rb : list N) (v : str) : list N := rev v ++ rb.

Definition zofola : str := [B_HASANTA; B_Z].
Definition reph : str := [B_R; B_HASANTA].

(** ** Old style reph *)

Definition is_reph_moveable (rb : list N) : bool :=
  let right_most := hd 0 rb in
  let rest := tl rb in
  let right_most' := if right_most =? B_CHANDRA then hd 0 rest else right_most in
  let rest' := if right_most =? B_CHANDRA then tl rest else rest in
  let before := hd 0 rest' in
  is_pure_consonant right_most' || (is_vowel right_most' && is_pure_consonant before).

(** The right-to-left scan; returns [step].  [index] counts visited characters. *)
Fixpoint reph_scan (l : list N) (index : nat) (constant vowel hasanta chandra : bool) (step : nat) : nat :=
  match l with
  | [] => step
  | c :: t =>
    if is_pure_consonant c then
      if constant && negb hasanta then step
      else reph_scan t (S index) true vowel false chandra (S step)
    else if c =? B_HASANTA then
      reph_scan t (S index) constant vowel true chandra (S step)
    else if is_vowel c then
      if vowel then step
      else if Nat.eqb index 0 || (chandra && Nat.eqb index 1) then
        reph_scan t (S index) constant true hasanta chandra (S step)
      else step
    else if c =? B_CHANDRA then
      if Nat.eqb index 0 then reph_scan t (S index) constant vowel hasanta true (S step)
      else step
    else step
  end.

Definition insert_old_style_reph (rb : list N) : list N :=
  if is_reph_moveable rb then
    let step := reph_scan rb 0 false false false false 0 in
    firstn step rb ++ [B_HASANTA; B_R] ++ skipn step rb
  else B_HASANTA :: B_R :: rb.

(** ** process_key_value *)

(** The final `if/else` chain of the Kar branch (automatic vowel forming ... plain push).
    [rmc] is the right-most character computed on entry of process_key_value (it can be stale
    when the pending-Kar restore ran before), [rb] is the current buffer. *)
Definition kar_chain (o : fopts) (rmc : N) (rb : list N) (character : N) : list N :=
  if o_vowel o && (match rb with [] => true | _ => false end || is_vowel rmc || is_mark rmc) then
    match vowel_of_kar character with Some v => v :: rb | None => rb end
  else if o_chandra o && (rmc =? B_CHANDRA) then
    B_CHANDRA :: character :: tl rb
  else if rmc =? B_HASANTA then
    match vowel_of_kar character with Some v => v :: tl rb | None => rb end
  else if o_kar o && is_pure_consonant rmc then
    if is_ligature_making_kar character then character :: ZWNJ :: rb else character :: rb
  else character :: rb.

(** The tail shared by every value: pending Kar restore after a consonant, or plain append. *)
Definition pkv_tail (o : fopts) (rb : list N) (pend : option N) (v : str) : list N * option N :=
  match (if o_kar_order o then pend else None) with
  | Some lsk =>
      let rb' := push_str rb v in
      if last v 0 =? B_HASANTA then (rb', pend) else (lsk :: rb', None)
  | None => (push_str rb v, pend)
  end.

Definition independent_of_pending (lsk : N) : N :=
  if lsk =? B_E_KAR then B_E else if lsk =? B_I_KAR then B_I else B_OI.

(** One unfolding of process_key_value; [self] is the function used for the single
    self-recursive call (made with the pending Kar cleared). *)
Definition pkv_gen (self : list N -> option N -> str -> list N * option N)
           (o : fopts) (rb : list N) (pend : option N) (v : str) : list N * option N :=
  let rmc := rmc_of rb in
  if str_eqb v zofola then
    let take := o_kar_order o && is_left_standing_kar rmc in
    let rb1 := if take then tl rb else rb in
    let rb2 := if (hd 0 rb1 =? B_R) && negb (nth 1 rb1 0 =? B_HASANTA) then ZWJ :: rb1 else rb1 in
    let rb3 := push_str rb2 v in
    ((if take then rmc :: rb3 else rb3), pend)
  else if str_eqb v reph && o_old_reph o then (insert_old_style_reph rb, pend)
  else
    match v with
    | [] => pkv_tail o rb pend v
    | character :: rest =>
      if is_kar character then
        if o_kar_order o && negb (rmc =? B_HASANTA) && is_left_standing_kar character then
          (rb, Some character)
        else if o_kar_order o && (rmc =? B_E_KAR) && ((character =? B_AA_KAR) || (character =? B_OU_KAR)) then
          ((if character =? B_AA_KAR then B_O_KAR else B_OU_KAR) :: tl rb, pend)
        else
          match (if o_kar_order o then pend else None) with
          | Some lsk =>
            if rmc =? B_HASANTA then
              (* restore the pending Kar in front of the hasanta, then go on with the chain *)
              let rb' := B_HASANTA :: lsk :: tl rb in
              (push_str (kar_chain o rmc rb' character) rest, None)
            else
              let rb' :=
                if o_vowel o && (match rb with [] => true | _ => false end || is_vowel rmc || is_mark rmc)
                then independent_of_pending lsk :: rb else rb in
              self rb' None v
          | None => (push_str (kar_chain o rmc rb character) rest, pend)
          end
      else if (character =? B_HASANTA) && (rmc =? B_HASANTA) then (push_str (ZWNJ :: rb) rest, pend)
      else if (character =? B_LENGTH_MARK) && (rmc =? B_HASANTA) then (push_str (B_OU :: tl rb) rest, pend)
      else if o_kar_order o && (character =? B_HASANTA) && is_left_standing_kar rmc then
        match rest with
        | [] => (character :: tl rb, Some rmc)
        | _ => (rmc :: push_str (tl rb) v, pend)
        end
      else if o_kar_order o && (rmc =? B_E_KAR) && (character =? B_LENGTH_MARK) then
        (B_OU_KAR :: tl rb, pend)
      else pkv_tail o rb pend v
    end.

Definition pkv0 (o : fopts) := pkv_gen (fun rb p _ => (rb, p)) o.
Definition process_key_value (o : fopts) := pkv_gen (pkv0 o) o.

(** ** The method's composition state (lonely mode: no dictionary suggestions) *)

Record fstate := { f_rb : list N; f_pend : option N }.
Definition f_init : fstate := {| f_rb := []; f_pend := None |}.
Definition f_text (s : fstate) : str := rev (f_rb s).
Definition f_ongoing (s : fstate) : bool :=
  negb (match f_rb s with [] => true | _ => false end) || (match f_pend s with Some _ => true | None => false end).

Definition f_key (o : fopts) (s : fstate) (v : str) : fstate :=
  let '(rb, p) := process_key_value o (f_rb s) (f_pend s) v in {| f_rb := rb; f_pend := p |}.

(** backspace_event: returns the new state and whether the returned suggestion is the
    empty one ([true]) or a suggestion made from the buffer ([false]). *)
Definition f_backspace (ctrl : bool) (s : fstate) : fstate * bool :=
  match f_rb s, f_pend s with
  | _ :: _, _ => if ctrl then (f_init, true) else
      match f_pend s with
      | Some _ => ({| f_rb := f_rb s; f_pend := None |}, false)
      | None => let rb := tl (f_rb s) in
                ({| f_rb := rb; f_pend := None |}, match rb with [] => true | _ => false end)
      end
  | [], Some _ => ({| f_rb := []; f_pend := None |}, true)
  | [], None => (s, true)
  end.
