(** The fixed-layout method with dictionary suggestions off ("lonely" suggestions):
    get_suggestion / backspace_event / candidate_committed / finish_input_session of
    src/fixed/method.rs restricted to what is observable without a dictionary. *)
Require Import Riti.model.Base Riti.model.Chars Riti.model.FixedCompose Riti.model.Layout.

(** A key event: returns the new state and the pre-edit text of the returned suggestion.
    (With suggestions off every returned suggestion is a single string: the composed text,
    or the empty suggestion when nothing is composed.) *)
Definition f_key_event (L : list (N * str)) (o : fopts) (numpad : bool) (s : fstate) (k m : N) : fstate * str :=
  match get_char_for_key L k (altgr_of m) numpad with
  | Some v => let s' := f_key o s v in (s', f_text s')
  | None => (s, f_text s)
  end.

Definition f_backspace_event (ctrl : bool) (s : fstate) : fstate * str :=
  let '(s', empty) := f_backspace ctrl s in (s', if empty then [] else f_text s').

Inductive fevent :=
| FKey (k m : N)
| FBackspace (ctrl : bool)
| FCommit
| FFinish.

Definition f_step (L : list (N * str)) (o : fopts) (numpad : bool) (s : fstate) (e : fevent) : fstate * str :=
  match e with
  | FKey k m => f_key_event L o numpad s k m
  | FBackspace c => f_backspace_event c s
  | FCommit | FFinish => (f_init, [])
  end.

Definition f_run (L : list (N * str)) (o : fopts) (numpad : bool) (h : list fevent) : fstate * list str :=
  fold_left (fun acc e => let '(s, outs) := acc in
                          let '(s', out) := f_step L o numpad s e in (s', outs ++ [out]))
            h (f_init, []).

(** Same run, observing after every event the returned text and the session flag. *)
Definition f_run_obs (L : list (N * str)) (o : fopts) (numpad : bool) (h : list fevent) : list (str * bool) :=
  snd (fold_left (fun acc e => let '(s, outs) := acc in
                               let '(s', out) := f_step L o numpad s e in (s', outs ++ [(out, f_ongoing s')]))
                 h (f_init, [])).
