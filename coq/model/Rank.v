(** Model of src/suggestion.rs: Rank, its comparator, and the stable sort. *)
Require Import Riti.model.Base.

Inductive rank :=
| RFirst (s : str)
| REmoji (s : str) (r : N)
| ROther (s : str) (d : N)
| RLast (s : str) (r : N).

Definition rstr (x : rank) : str :=
  match x with RFirst s | REmoji s _ | ROther s _ | RLast s _ => s end.

Definition set_rstr (x : rank) (s : str) : rank :=
  match x with RFirst _ => RFirst s | REmoji _ r => REmoji s r | ROther _ d => ROther s d | RLast _ r => RLast s r end.

(** impl Ord for Rank (16 arms) *)
Definition rank_cmp (a b : rank) : comparison :=
  match a, b with
  | RFirst _, RFirst _ => Eq
  | RFirst _, _ => Lt
  | _, RFirst _ => Gt
  | REmoji _ e1, REmoji _ e2 => N.compare e1 e2
  | REmoji _ e, ROther _ s => N.compare e s
  | ROther _ s, REmoji _ e => N.compare s e
  | REmoji _ _, RLast _ _ => Lt
  | RLast _ _, REmoji _ _ => Gt
  | ROther _ s1, ROther _ s2 => N.compare s1 s2
  | ROther _ _, RLast _ _ => Lt
  | RLast _ _, ROther _ _ => Gt
  | RLast _ s1, RLast _ s2 => N.compare s1 s2
  end.

(** [a] may stay in front of [b] *)
Definition rank_le (a b : rank) : bool := match rank_cmp a b with Gt => false | _ => true end.

(** Stable sort (slice::sort): insertion of each element behind everything that is not greater. *)
Fixpoint insert_rank (x : rank) (l : list rank) : list rank :=
  match l with
  | [] => [x]
  | y :: t => if rank_le y x then y :: insert_rank x t else x :: l
  end.

Definition sort_ranks (l : list rank) : list rank := fold_left (fun acc x => insert_rank x acc) l [].

(** PartialEq for Rank compares the strings only; push_checked. *)
Definition rank_mem (x : rank) (l : list rank) : bool := existsb (fun y => str_eqb (rstr y) (rstr x)) l.
Definition push_checked (l : list rank) (x : rank) : list rank := if rank_mem x l then l else l ++ [x].

(** Vec::dedup: drops every element equal (by string) to the last retained one. *)
Fixpoint dedup_from (prev : rank) (l : list rank) : list rank :=
  match l with
  | [] => []
  | y :: t => if str_eqb (rstr prev) (rstr y) then dedup_from prev t else y :: dedup_from y t
  end.
Definition dedup_ranks (l : list rank) : list rank :=
  match l with [] => [] | x :: t => x :: dedup_from x t end.
