(** The per-user files as the context sees them (src/phonetic/method.rs new / update_engine / candidate_committed),
    over an abstract file system.  Parsing (serde_json) is an oracle boundary: a file is absent, unreadable
    (truncated, malformed, wrong shape) or an object of strings. *)
Require Import Riti.model.Base Riti.model.Split Riti.model.Rank Riti.model.Phonetic.

Inductive file := FAbsent | FUnreadable | FMap (m : list (str * str)).
Record files := { f_sels : file; f_uac : file; f_dir_writable : bool }.

Definition load (f : file) : list (str * str) := match f with FMap m => m | _ => [] end.

(** a new context over the files *)
Definition ctx_new (fs : files) : pstate := p_new (load (f_uac fs)) (load (f_sels fs)).

(** a learning commit rewrites the selection file when the directory can be written; the state keeps the choice either way *)
Definition ctx_commit (c : pcfg) (fs : files) (s : pstate) (i : nat) : option (pstate * files) :=
  match p_commit c s i with
  | Some (s', true) => Some (s', if f_dir_writable fs then {| f_sels := FMap (p_sels s'); f_uac := f_uac fs; f_dir_writable := true |} else fs)
  | Some (s', false) => Some (s', fs)
  | None => None
  end.
