(** Model of the fixed-layout method with dictionary suggestions:
    src/fixed/method.rs (get_suggestion, create_dictionary_suggestion, current_suggestion, backspace_event,
    candidate_committed, finish_input_session) and src/fixed/search.rs. *)
Require Import Riti.model.Base Riti.model.Chars Riti.model.Split Riti.model.Rank Riti.model.Layout
        Riti.model.FixedCompose Riti.model.Phonetic Riti.gen.Gen_Tables.

Record xcfg := { x_opts : fopts; x_numpad : bool; x_suggest : bool; x_english : bool; x_ansi : bool; x_smart : bool }.
Definition x_english_on (c : xcfg) : bool := x_english c && negb (x_ansi c).

Definition clean_string (w : str) : str := filter (fun c => negb (mem c gen_clean_set)) w.

Definition need_chars_upto (n : nat) : nat :=
  match n with 1 => 0 | 2 | 3 => 1 | _ => 5 end%nat.

(** the anchored pattern  ^cw[class]{0,n}$  on a dictionary word *)
Definition prefix_match (cw : str) (n : nat) (d : str) : bool :=
  match strip_prefix cw d with
  | Some rest => Nat.leb (length rest) n && forallb (fun c => mem c gen_fixed_class) rest
  | None => false
  end.

Fixpoint zwnj_kars (w : str) : str :=
  match w with
  | [] => []
  | c :: t => if is_ligature_making_kar c then ZWNJ :: c :: zwnj_kars t else c :: zwnj_kars t
  end.

Section WithOracles.
Variable Q : oracles.

Definition search_dictionary (word base : str) (traditional : bool) : list rank :=
  match assocN (hd 0 word) gen_fixed_tables with
  | None => []
  | Some table =>
    let cw := clean_string word in
    let n := need_chars_upto (length cw) in
    map (fun d => let d' := if traditional then zwnj_kars d else d in ROther d' (10 * edist Q base d'))
        (filter (prefix_match cw n) (dict Q table cw))
  end.

Record xstate := { x_rb : list N; x_typed : str; x_pend : option N; x_sugg : list rank }.
Definition x_init : xstate := {| x_rb := []; x_typed := []; x_pend := None; x_sugg := [] |}.
Definition x_buffer (s : xstate) : str := rev (x_rb s).

(** the suggestion list before the cut, the cut size, and the raw English item appended after the cut *)
Definition dictionary_suggestion_parts (c : xcfg) (buffer typed : str) : list rank * nat * option rank :=
  let sp0 := split buffer true in
  let sp := if x_smart c then smart_quoter sp0 else sp0 in
  let first := sp_pre sp in let word := sp_word sp in let lastp := sp_trail sp in
  let l0 := RFirst word :: search_dictionary word word (o_kar (x_opts c)) in
  let l1 := dedup_ranks l0 in
  let l2 := match first, lastp with [], [] => l1 | _, _ => map (wrap first lastp) l1 end in
  let l3 := if x_ansi c then l2
            else match emoticon Q typed with
                 | Some e => l2 ++ [REmoji e 1]
                 | None => match emoji_bn Q (filter (fun ch => negb (ch =? ZWNJ)) word) with
                           | Some es => l2 ++ emoji_ranked first lastp es 1
                           | None => l2
                           end
                 end in
  let l4 := sort_ranks l3 in
  if x_english_on c && negb (str_eqb buffer typed) then (l4, 8%nat, Some (RLast typed 1)) else (l4, 9%nat, None).

Definition dictionary_suggestion (c : xcfg) (buffer typed : str) : list rank :=
  let '(l, cut, tail) := dictionary_suggestion_parts c buffer typed in
  firstn cut l ++ match tail with Some x => [x] | None => [] end.

Definition x_create (c : xcfg) (s : xstate) : xstate * output :=
  if x_suggest c then
    let l := dictionary_suggestion c (x_buffer s) (x_typed s) in
    ({| x_rb := x_rb s; x_typed := x_typed s; x_pend := x_pend s; x_sugg := l |}, OFull (x_buffer s) (map rstr l) O (x_ansi c))
  else (s, OSingle (x_buffer s) (x_ansi c)).

Definition x_current (c : xcfg) (s : xstate) : output :=
  match x_rb s with
  | [] => OSingle [] false
  | _ => if x_suggest c then OFull (x_buffer s) (map rstr (x_sugg s)) O (x_ansi c) else OSingle (x_buffer s) (x_ansi c)
  end.

Definition x_key (L : list (N * str)) (c : xcfg) (s : xstate) (k m : N) : xstate * output :=
  match get_char_for_key L k (altgr_of m) (x_numpad c) with
  | Some v =>
    let '(rb, p) := process_key_value (x_opts c) (x_rb s) (x_pend s) v in
    let typed := if x_suggest c then match keycode_to_char k with Some ch => x_typed s ++ [ch] | None => x_typed s end
                 else x_typed s in
    x_create c {| x_rb := rb; x_typed := typed; x_pend := p; x_sugg := x_sugg s |}
  | None => (s, x_current c s)
  end.

Definition x_clear (s : xstate) : xstate := {| x_rb := []; x_typed := []; x_pend := None; x_sugg := x_sugg s |}.

Definition x_backspace (c : xcfg) (s : xstate) (ctrl : bool) : xstate * output :=
  match x_rb s, ctrl with
  | _ :: _, true => (x_clear s, OSingle [] false)
  | _, _ =>
    match x_pend s with
    | Some _ =>
      let typed := removelast (x_typed s) in
      match x_rb s with
      | [] => ({| x_rb := []; x_typed := []; x_pend := None; x_sugg := x_sugg s |}, OSingle [] false)
      | _ => x_create c {| x_rb := x_rb s; x_typed := typed; x_pend := None; x_sugg := x_sugg s |}
      end
    | None =>
      match x_rb s with
      | [] => (s, OSingle [] false)
      | _ :: rb' =>
        match rb' with
        | [] => ({| x_rb := []; x_typed := []; x_pend := None; x_sugg := x_sugg s |}, OSingle [] false)
        | _ => x_create c {| x_rb := rb'; x_typed := removelast (x_typed s); x_pend := None; x_sugg := x_sugg s |}
        end
      end
    end
  end.

Definition x_ongoing (s : xstate) : bool :=
  negb (match x_rb s with [] => true | _ => false end) || (match x_pend s with Some _ => true | None => false end).

Inductive xevent :=
| XKey (k m : N)
| XBackspace (ctrl : bool)
| XCommit
| XFinish
| XUpdate (c : xcfg).

Definition x_step (L : list (N * str)) (c : xcfg) (s : xstate) (e : xevent) : xcfg * xstate * output :=
  match e with
  | XKey k m => let '(s', o) := x_key L c s k m in (c, s', o)
  | XBackspace ctrl => let '(s', o) := x_backspace c s ctrl in (c, s', o)
  | XCommit | XFinish => (c, x_clear s, OUnit)
  | XUpdate c' => (c', s, OUnit)
  end.

Fixpoint x_run (L : list (N * str)) (c : xcfg) (s : xstate) (h : list xevent) : list (output * bool) :=
  match h with
  | [] => []
  | e :: t => let '(c', s', o) := x_step L c s e in (o, x_ongoing s') :: x_run L c' s' t
  end.

End WithOracles.
