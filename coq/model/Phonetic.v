(** Model of the phonetic method: src/phonetic/suggestion.rs and src/phonetic/method.rs.
    Third-party code and bulk data enter through the [oracles] record (never axioms). *)
Require Import Riti.model.Base Riti.model.Chars Riti.model.Split Riti.model.Rank Riti.model.Layout Riti.gen.Gen_Tables.

Record oracles := {
  conv : str -> str;                    (* okkhor: Avro phonetic conversion *)
  hits : str -> str -> list str;        (* dictionary table name -> typed word -> words of that table matching the word's okkhor pattern, table order *)
  edist : str -> str -> N;              (* edit_distance *)
  ac_sys : str -> option str;           (* bundled autocorrect.json *)
  suffix_of : str -> option str;        (* suffix.json *)
  emoticon : str -> option str;         (* emojicon: emoticon -> emoji *)
  emoji_name : str -> option (list str); (* emojicon: English name -> emojis *)
  dict : str -> str -> list str;        (* dictionary.json: table name -> prefix -> the words of that table that begin with the prefix, file order *)
  emoji_bn : str -> option (list str);  (* emojicon: Bengali name -> emojis *)
  bijoy : str -> str                    (* poriborton: Unicode -> Bijoy 2000 *)
}.

Record pcfg := { c_english : bool; c_suggest : bool; c_ansi : bool; c_smart : bool }.
Definition english_on (c : pcfg) : bool := c_english c && negb (c_ansi c).

(** The first-letter table of PhoneticSuggestion::new (regenerated from the code: gen_phonetic_tables). *)
Definition tables_for_word (w : str) : list str :=
  match w with
  | c :: _ => if c <? 128 then match assocN c gen_phonetic_tables with Some l => l | None => [] end else []
  | [] => []
  end.

Definition B_YY : N := 0x9DF.
Definition B_KHANDA : N := 0x9CE.
Definition B_TA : N := 0x9A4.
Definition B_ANUSVARA : N := 0x982.
Definition B_NGA' : N := 0x999.

(** joining a base with the Bengali form of a suffix (the three rules) *)
Definition join (base suf : str) : str :=
  let rmc := last base 0 in
  let lmc := hd 0 suf in
  if is_vowel rmc && is_kar lmc then base ++ [B_YY] ++ suf
  else if rmc =? B_KHANDA then removelast base ++ [B_TA] ++ suf
  else if rmc =? B_ANUSVARA then removelast base ++ [B_NGA'] ++ suf
  else base ++ suf.

Section WithOracles.
Variable Q : oracles.

Definition search_corrected (uac : list (str * str)) (w : str) : option str :=
  match assocS w uac with Some c => Some c | None => ac_sys Q w end.

(** What is stored in the memo for a word: the auto-correct item and the dictionary hits, ranked. *)
Definition direct (uac : list (str * str)) (w : str) : list rank :=
  let ph := conv Q w in
  (match search_corrected uac w with
   | Some c => [RFirst (if forallb (fun x => x <? 128) c then conv Q c else c)]   (* a non-ASCII entry is shown as it is *)
   | None => []
   end)
  ++ flat_map (fun t => map (fun s => ROther s (10 * edist Q ph s)) (hits Q t w)) (tables_for_word w).

Definition memo := list (str * list rank).

(** the split points 1 .. len-1 of add_suffix_to_suggestions, in order *)
Definition suffix_items (m : memo) (w : str) (i : nat) : list rank :=
  match suffix_of Q (skipn i w) with
  | Some suf => match assocS (firstn i w) m with
                | Some cache => map (fun b => set_rstr b (join (rstr b) suf)) cache
                | None => []
                end
  | None => []
  end.

Definition add_suffix (m : memo) (w : str) : list rank :=
  (match assocS w m with Some l => l | None => [] end)
  ++ (if Nat.ltb 2 (length w) then flat_map (suffix_items m w) (seq 1 (length w - 1)) else []).

Definition wrap (pre tr : str) (x : rank) : rank := set_rstr x (pre ++ rstr x ++ tr).

Definition suggestion_with_dict (m : memo) (uac : list (str * str)) (pre w tr : str) : memo * list rank :=
  let ph := conv Q w in
  let m' := match assocS w m with Some _ => m | None => m ++ [(w, direct uac w)] end in
  let l1 := fold_left push_checked (add_suffix m' w) [] in
  let l2 := push_checked l1 (RLast ph 2) in
  (m', match pre, tr with [], [] => l2 | _, _ => map (wrap pre tr) l2 end).

Fixpoint emoji_ranked (pre tr : str) (es : list str) (r : N) : list rank :=
  match es with
  | [] => []
  | e :: t => REmoji (pre ++ e ++ tr) r :: emoji_ranked pre tr t (r + 1)
  end.

Fixpoint find_pos (sel : str) (l : list rank) (i : nat) : option nat :=
  match l with
  | [] => None
  | x :: t => if str_eqb (rstr x) sel then Some i else find_pos sel t (S i)
  end.

(** first split point (shortest suffix first) with a known suffix and a remembered base *)
Fixpoint sel_by_suffix (sels : list (str * str)) (w : str) (is : list nat) : str :=
  match is with
  | [] => []
  | i :: rest =>
    let k := (length w - i)%nat in
    match suffix_of Q (skipn k w) with
    | Some suf => match assocS (firstn k w) sels with
                  | Some base => join base suf
                  | None => sel_by_suffix sels w rest
                  end
    | None => sel_by_suffix sels w rest
    end
  end.

Definition prev_selection (sels : list (str * str)) (l : list rank) (pre w tr : str) : nat :=
  let selected :=
    match assocS w sels with
    | Some item => item
    | None => if Nat.leb 2 (length w) then sel_by_suffix sels w (seq 1 (length w - 1)) else []
    end in
  match find_pos (pre ++ selected ++ tr) l O with Some i => i | None => O end.

(** PhoneticSuggestion::suggest: returns the new memo, the sorted list, the affixes and the selection. *)
Definition suggest (c : pcfg) (m : memo) (uac sels : list (str * str)) (term : str)
  : memo * list rank * (str * str) * nat :=
  let sp0 := split term false in
  let sp1 := (conv Q (sp_pre sp0), sp_word sp0, conv Q (sp_trail sp0)) in
  let sp := if c_smart c then smart_quoter sp1 else sp1 in
  let pre := sp_pre sp in let w := sp_word sp in let tr := sp_trail sp in
  let '(m', l0) := suggestion_with_dict m uac pre w tr in
  let '(l1, typed_added) :=
    if c_ansi c then (l0, false)
    else match emoticon Q term with
         | Some e => ((if str_eqb term pre then l0 else push_checked l0 (RLast term 1)) ++ [REmoji e 1], true)
         | None => match emoji_name Q w with
                   | Some es => (l0 ++ emoji_ranked pre tr es 1, false)
                   | None => (l0, false)
                   end
         end in
  let l2 := if english_on c && negb typed_added && negb (str_eqb term pre) then push_checked l1 (RLast term 3) else l1 in
  let l3 := sort_ranks l2 in
  (m', l3, (pre, tr), prev_selection sels l3 pre w tr).

Definition suggest_only_phonetic (term : str) : str :=
  let sp := split term false in conv Q (sp_pre sp) ++ conv Q (sp_word sp) ++ conv Q (sp_trail sp).

(** ** The method object *)

Record pstate := {
  p_buf : str;
  p_memo : memo;
  p_uac : list (str * str);
  p_sels : list (str * str);
  p_prev : nat;
  p_sugg : list rank;
  p_affix : str * str;
}.

Inductive output :=
| OFull (aux : str) (l : list str) (sel : nat) (ansi : bool)
| OSingle (s : str) (ansi : bool)
| OUnit.

Definition p_new (uac sels : list (str * str)) : pstate :=
  {| p_buf := []; p_memo := []; p_uac := uac; p_sels := sels; p_prev := O; p_sugg := []; p_affix := ([], []) |}.

Definition set_buf (s : pstate) (b : str) : pstate :=
  {| p_buf := b; p_memo := p_memo s; p_uac := p_uac s; p_sels := p_sels s; p_prev := p_prev s; p_sugg := p_sugg s; p_affix := p_affix s |}.

Definition create_suggestion (c : pcfg) (s : pstate) : pstate * output :=
  if c_suggest c then
    let '(m', l, aff, sel) := suggest c (p_memo s) (p_uac s) (p_sels s) (p_buf s) in
    ({| p_buf := p_buf s; p_memo := m'; p_uac := p_uac s; p_sels := p_sels s; p_prev := sel; p_sugg := l; p_affix := aff |},
     OFull (p_buf s) (map rstr l) sel (c_ansi c))
  else (s, OSingle (suggest_only_phonetic (p_buf s)) (c_ansi c)).

(** the punctuation keys after which the caller's selection byte is echoed *)
Definition echo_chars : list N := [46;63;33;44;58;59;45;95;41;125;93;39;34].

Definition p_key (c : pcfg) (s : pstate) (k : N) (selection : N) : pstate * output :=
  match keycode_to_char k with
  | None => match p_buf s with [] => (s, OSingle [] false) | _ => create_suggestion c s end
  | Some ch =>
    let '(s', out) := create_suggestion c (set_buf s (p_buf s ++ [ch])) in
    (s', match out with
         | OFull aux l sel ansi => if mem ch echo_chars then OFull aux l (N.to_nat selection) ansi else out
         | _ => out
         end)
  end.

Definition bare_suggestion (s : pstate) (index : nat) : option str :=
  match nth_error (p_sugg s) index with
  | Some x => let item := rstr x in
              Some (match strip_prefix (fst (p_affix s)) item with
                    | Some r => match strip_suffix (snd (p_affix s)) r with Some r' => r' | None => item end
                    | None => item
                    end)
  | None => None
  end.

Fixpoint assoc_set (k v : str) (l : list (str * str)) : list (str * str) :=
  match l with
  | [] => [(k, v)]
  | (k', v') :: t => if str_eqb k k' then (k, v) :: t else (k', v') :: assoc_set k v t
  end.

(** candidate_committed: [None] = the index is outside the stored list (an out-of-bounds panic in the code);
    the boolean says whether the selection file is rewritten. *)
Definition p_commit (c : pcfg) (s : pstate) (index : nat) : option (pstate * bool) :=
  if negb (Nat.eqb (p_prev s) index) && c_suggest c && (match p_buf s with [] => false | _ => true end) then
    match bare_suggestion s index with
    | Some sug =>
      let w := sp_word (split (p_buf s) false) in
      Some ({| p_buf := []; p_memo := p_memo s; p_uac := p_uac s; p_sels := assoc_set w sug (p_sels s);
               p_prev := p_prev s; p_sugg := p_sugg s; p_affix := p_affix s |}, true)
    | None => None
    end
  else Some (set_buf s [], false).

Definition p_finish (s : pstate) : pstate := set_buf s [].

(** Suggestion::is_empty *)
Definition out_empty (o : output) : bool :=
  match o with OSingle [] _ => true | OFull _ [] _ _ => true | _ => false end.

(** When what is left produces an empty suggestion (a lone escape character with the list off), the word is gone. *)
Definition p_backspace (c : pcfg) (s : pstate) (ctrl : bool) : pstate * output :=
  match p_buf s with
  | [] => (s, OSingle [] false)
  | _ => if ctrl then (set_buf s [], OSingle [] false)
         else let b := removelast (p_buf s) in
              match b with
              | [] => (set_buf s [], OSingle [] false)
              | _ => let r := create_suggestion c (set_buf s b) in
                     if out_empty (snd r) then (set_buf (fst r) [], snd r) else r
              end
  end.

Definition p_ongoing (s : pstate) : bool := match p_buf s with [] => false | _ => true end.

(** update_engine: [reload = Some uac'] when the user's auto-correct file changed (or vanished: Some []). *)
Definition p_update (s : pstate) (reload : option (list (str * str))) : pstate :=
  match reload with
  | Some uac' => {| p_buf := p_buf s; p_memo := []; p_uac := uac'; p_sels := p_sels s; p_prev := p_prev s; p_sugg := []; p_affix := ([], []) |}
  | None => s
  end.

Inductive pevent :=
| PKey (k sel : N)
| PBackspace (ctrl : bool)
| PCommit (i : nat)
| PFinish
| PUpdate (c : pcfg) (reload : option (list (str * str))).

(** one event; [None] = panic *)
Definition p_step (c : pcfg) (s : pstate) (e : pevent) : option (pcfg * pstate * output) :=
  match e with
  | PKey k sel => let '(s', o) := p_key c s k sel in Some (c, s', o)
  | PBackspace ctrl => let '(s', o) := p_backspace c s ctrl in Some (c, s', o)
  | PCommit i => match p_commit c s i with Some (s', _) => Some (c, s', OUnit) | None => None end
  | PFinish => Some (c, p_finish s, OUnit)
  | PUpdate c' r => Some (c', p_update s r, OUnit)
  end.

Fixpoint p_run (c : pcfg) (s : pstate) (h : list pevent) : option (pcfg * pstate * list (output * bool)) :=
  match h with
  | [] => Some (c, s, [])
  | e :: t => match p_step c s e with
              | Some (c', s', o) => match p_run c' s' t with
                                    | Some (c'', s'', outs) => Some (c'', s'', (o, p_ongoing s') :: outs)
                                    | None => None
                                    end
              | None => None
              end
  end.

End WithOracles.
