(** A small concrete oracle record, used only for non-vacuity examples and refutation witnesses
    (computations inside Coq).  It is NOT the real third-party behaviour. *)
Require Import Riti.model.Base Riti.model.Chars Riti.model.Phonetic.

(** "transliteration": lower-case Latin letters shifted into the Bengali consonant block, other characters unchanged *)
Definition t_conv (s : str) : str := map (fun c => if (97 <=? c) && (c <=? 122) then c - 97 + 0x995 else c) s.
Definition t_hits (t w : str) : list str :=
  if str_eqb t [107] && str_eqb w [107; 97] then [[0x995; 0x9BE]; [0x995; 0x9BE; 0x981]; [0x996; 0x9BE]] else [].
Definition t_edist (a b : str) : N := N.of_nat (length a + length b - 2 * length (filter (fun c => mem c b) a)).
Definition t_ac (w : str) : option str := if str_eqb w [107; 97] then Some [113] else None.
Definition t_suffix (w : str) : option str := if str_eqb w [114] then Some [0x9B0] else if str_eqb w [101] then Some [0x9C7] else None.
Definition t_emoticon (w : str) : option str := if str_eqb w [58; 41] then Some [0x1F603] else None.
Definition t_emoji_name (w : str) : option (list str) := if str_eqb w [107; 97] then Some [[0x1F600]; [0x1F604]] else None.
Definition t_dict (t cw : str) : list str := if str_eqb t [107] then filter (is_prefix cw) [[0x995]; [0x995; 0x9BE]; [0x995; 0x9B2]; [0x995; 0x9BE; 0x995]] else [].
Definition t_emoji_bn (w : str) : option (list str) := if str_eqb w [0x995; 0x9BE] then Some [[0x1F426]] else None.
Definition test_oracles : oracles :=
  {| conv := t_conv; hits := t_hits; edist := t_edist; ac_sys := t_ac; suffix_of := t_suffix; emoticon := t_emoticon;
     emoji_name := t_emoji_name; dict := t_dict; emoji_bn := t_emoji_bn; bijoy := fun s => s |}.
Definition cfg_all_on : pcfg := {| c_english := true; c_suggest := true; c_ansi := false; c_smart := true |}.
