(** The handle life cycle of the C interface (src/ffi.rs): an automaton over live handles. *)
Require Import Riti.model.Base Riti.model.Rank Riti.model.Phonetic.

Inductive hval :=
| HConfig
| HContext
| HSuggestion (o : output)      (* the value captured when the suggestion was created *)
| HString (s : str).             (* the text handed out (NUL-terminated by the glue) *)

Record ffi := { live : list (nat * hval); next : nat }.
Definition ffi_init : ffi := {| live := []; next := 1 |}.

Fixpoint lookup (h : nat) (l : list (nat * hval)) : option hval :=
  match l with [] => None | (k, v) :: t => if Nat.eqb h k then Some v else lookup h t end.
Fixpoint remove (h : nat) (l : list (nat * hval)) : list (nat * hval) :=
  match l with [] => [] | (k, v) :: t => if Nat.eqb h k then t else (k, v) :: remove h t end.

Inductive call :=
| CNew (v : hval)               (* riti_config_new, riti_context_new_with_config, an event returning a suggestion, a string read-out *)
| CFree (h : nat)               (* the matching free function on a live handle *)
| CFreeNullString               (* riti_string_free(NULL) *)
| CRead (h : nat).              (* any read-out that returns a scalar *)

Definition alloc (st : ffi) (v : hval) : ffi := {| live := (next st, v) :: live st; next := S (next st) |}.

(** [None]: a call outside the contract (freeing or reading a handle that is not live) *)
Definition ffi_step (st : ffi) (c : call) : option ffi :=
  match c with
  | CNew v => Some (alloc st v)
  | CFree h => match lookup h (live st) with Some _ => Some {| live := remove h (live st); next := next st |} | None => None end
  | CFreeNullString => Some st
  | CRead h => match lookup h (live st) with Some _ => Some st | None => None end
  end.

Fixpoint ffi_run (st : ffi) (cs : list call) : option ffi :=
  match cs with [] => Some st | c :: t => match ffi_step st c with Some st' => ffi_run st' t | None => None end end.

(** what a string read-out of a suggestion returns *)
Definition readout (pre_edit : bool -> str -> str) (o : output) (what : nat) (i : nat) : option str :=
  match o, what with
  | OFull aux l sel ansi, 0%nat => nth_error l i                                  (* riti_suggestion_get_suggestion *)
  | OFull aux l sel ansi, 1%nat => option_map (pre_edit ansi) (nth_error l i)     (* riti_suggestion_get_pre_edit_text *)
  | OFull aux l sel ansi, 2%nat => Some aux                                       (* riti_suggestion_get_auxiliary_text *)
  | OSingle s ansi, 1%nat => Some (pre_edit ansi s)
  | OSingle s ansi, 3%nat => Some s                                               (* riti_suggestion_get_lonely_suggestion *)
  | _, _ => None
  end.
