(** Model of src/fixed/layout.rs (key -> layout entry -> value), src/utility.rs get_modifiers and
    src/keycodes.rs keycode_to_char, over the tables regenerated from the code on every run. *)
Require Import Riti.model.Base Riti.gen.Gen_Tables.

Definition b2n (b : bool) : N := if b then 1 else 0.
Definition lookup_code (k : N) (altgr numpad : bool) : N := k * 4 + b2n altgr * 2 + b2n numpad.

(** Which layout entry [Layout::get_char_for_key] consults (None: the key is not in the layout,
    or it is a number-pad key and the number-pad option is off). *)
Definition layout_lookup (k : N) (altgr numpad : bool) : option N :=
  assocN (lookup_code k altgr numpad) gen_lookups.

(** The value of an entry of a layout file; empty and missing entries give nothing. *)
Definition layout_value (L : list (N * str)) (id : N) : option str :=
  match assocN id L with
  | Some (c :: v) => Some (c :: v)
  | _ => None
  end.

Definition get_char_for_key (L : list (N * str)) (k : N) (altgr numpad : bool) : option str :=
  match layout_lookup k altgr numpad with
  | Some id => layout_value L id
  | None => None
  end.

(** get_modifiers: (shift, alt_gr) = (bit 0, bit 1) of the modifier byte. *)
Definition shift_of (m : N) : bool := N.testbit m 0.
Definition altgr_of (m : N) : bool := N.testbit m 1.

Definition keycode_to_char (k : N) : option N := assocN k gen_keychar.
