(** Basic definitions shared by the model: code points, strings, list helpers.
    No proofs here, so that the model still evaluates when a proof breaks. *)
From Coq Require Export List NArith Bool.
Export ListNotations.
Open Scope N_scope.

Definition char := N.
Definition str := list N.

Fixpoint str_eqb (a b : str) : bool :=
  match a, b with
  | [], [] => true
  | x :: a', y :: b' => N.eqb x y && str_eqb a' b'
  | _, _ => false
  end.

Definition mem (c : N) (l : list N) : bool := existsb (N.eqb c) l.

Definition str_mem (s : str) (l : list str) : bool := existsb (str_eqb s) l.

Fixpoint assocN {A} (k : N) (l : list (N * A)) : option A :=
  match l with
  | [] => None
  | (k', v) :: t => if N.eqb k k' then Some v else assocN k t
  end.

Fixpoint assocS {A} (k : str) (l : list (str * A)) : option A :=
  match l with
  | [] => None
  | (k', v) :: t => if str_eqb k k' then Some v else assocS k t
  end.

(** [is_prefix p s]: p is a prefix of s. *)
Fixpoint is_prefix (p s : str) : bool :=
  match p, s with
  | [], _ => true
  | x :: p', y :: s' => N.eqb x y && is_prefix p' s'
  | _ :: _, [] => false
  end.

Fixpoint strip_prefix (p s : str) : option str :=
  match p, s with
  | [], _ => Some s
  | x :: p', y :: s' => if N.eqb x y then strip_prefix p' s' else None
  | _ :: _, [] => None
  end.

Definition strip_suffix (p s : str) : option str :=
  match strip_prefix (rev p) (rev s) with
  | Some r => Some (rev r)
  | None => None
  end.

Definition last_char (s : str) : N := last s 0.
Definition first_char (s : str) : N := hd 0 s.

(** position of the first element satisfying f *)
Fixpoint find_index {A} (f : A -> bool) (l : list A) : option nat :=
  match l with
  | [] => None
  | x :: t => if f x then Some O else option_map S (find_index f t)
  end.

(** Range [lo, lo+n) over N by an N counter (cheap under vm_compute). *)
Fixpoint range_pos (lo : N) (n : positive) : list N :=
  match n with
  | xH => [lo]
  | xO p => range_pos lo p ++ range_pos (lo + Npos p) p
  | xI p => lo :: range_pos (lo + 1) p ++ range_pos (lo + 1 + Npos p) p
  end.
Definition rangeN (lo n : N) : list N :=
  match n with N0 => [] | Npos p => range_pos lo p end.
