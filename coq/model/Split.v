(** Model of src/utility.rs: SplittedString::split, smart_quoter, push_checked. *)
Require Import Riti.model.Base Riti.model.Chars.

Definition BACKTICK : N := 96.
Definition COLON : N := 58.

(** longest prefix of characters satisfying [f], and the rest *)
Fixpoint span (f : N -> bool) (s : str) : str * str :=
  match s with
  | [] => ([], [])
  | c :: t => if f c then let '(a, b) := span f t in (c :: a, b) else ([], s)
  end.

(** The right-to-left loop of [split] over the reversed rest: returns the length of the trailing part.
    [seen]: characters visited so far; [committed]: the value of (rest.len() - last_index). *)
Fixpoint trail_scan (include_colon : bool) (r : list N) (escape : bool) (committed seen : nat) : nat :=
  match r with
  | [] => committed
  | c :: t =>
    if negb escape && (c =? BACKTICK) then trail_scan include_colon t true committed (S seen)
    else if ((include_colon || escape) && (c =? COLON)) || is_meta c then trail_scan include_colon t false (S seen) (S seen)
    else committed
  end.

Definition split (input : str) (include_colon : bool) : str * str * str :=
  let '(preceding, rest) := span is_meta input in
  match rest with
  | [] => (input, [], [])
  | _ =>
    let n := trail_scan include_colon (rev rest) false O O in
    let k := (length rest - n)%nat in
    (preceding, firstn k rest, skipn k rest)
  end.

Definition sp_pre (x : str * str * str) : str := fst (fst x).
Definition sp_word (x : str * str * str) : str := snd (fst x).
Definition sp_trail (x : str * str * str) : str := snd x.

Definition QUOTE1 : N := 39.   (* apostrophe *)
Definition QUOTE2 : N := 34.   (* double quote *)
Definition curl_open (c : N) : N := if c =? QUOTE1 then 0x2018 else if c =? QUOTE2 then 0x201C else c.
Definition curl_close (c : N) : N := if c =? QUOTE1 then 0x2019 else if c =? QUOTE2 then 0x201D else c.

Definition smart_quoter (x : str * str * str) : str * str * str :=
  match sp_word x with
  | [] => x
  | _ => (map curl_open (sp_pre x), sp_word x, map curl_close (sp_trail x))
  end.
