(** C14 - old vowel-sign order: typewriter-order typing with the option on yields the text of
    Unicode-order typing with it off.  The syllable grammar and the two key orders, from the property text.
    Keys are given by their values (code point strings), as the layout delivers them. *)
Require Import Riti.model.Base Riti.model.Chars Riti.model.FixedCompose.

Definition rofola : str := [B_HASANTA; B_R].

(** Onset: a consonant; an onset joined to a further consonant by the hasanta key; an onset with ro-fola; an onset with zo-fola. *)
Inductive onset :=
| OC (c : N)
| OH (o : onset) (c : N)
| ORo (o : onset)
| OZo (o : onset).

Fixpoint onset_ok (o : onset) : bool :=
  match o with
  | OC c => is_pure_consonant c
  | OH o c => onset_ok o && is_pure_consonant c
  | ORo o | OZo o => onset_ok o
  end.

Fixpoint onset_keys (o : onset) : list str :=
  match o with
  | OC c => [[c]]
  | OH o c => onset_keys o ++ [[B_HASANTA]; [c]]
  | ORo o => onset_keys o ++ [rofola]
  | OZo o => onset_keys o ++ [zofola]
  end.

(** A syllable: an onset with an optional vowel sign ([alt]: the AU sign is completed with the AU length
    mark instead of the AU sign key), or any single code point that is not a vowel sign, the hasanta or the
    AU length mark (independent vowels, chandrabindu, anusvara, punctuation, digits, joiners ...). *)
Inductive syl :=
| SOnset (o : onset) (s : option N) (alt : bool)
| SOther (c : N).

Definition syl_ok (s : syl) : bool :=
  match s with
  | SOnset o None _ => onset_ok o
  | SOnset o (Some k) _ => onset_ok o && is_kar k
  | SOther c => negb (is_kar c) && negb (c =? B_HASANTA) && negb (c =? B_LENGTH_MARK)
  end.

(** Unicode order: onset, then the sign. *)
Definition unicode_keys (s : syl) : list str :=
  match s with
  | SOnset o None _ => onset_keys o
  | SOnset o (Some k) _ => onset_keys o ++ [[k]]
  | SOther c => [[c]]
  end.

(** Typewriter order: a left-standing sign before the onset; O and AU as E before plus AA / AU / AU length mark after. *)
Definition typewriter_keys (s : syl) : list str :=
  match s with
  | SOnset o None _ => onset_keys o
  | SOnset o (Some k) alt =>
      if is_left_standing_kar k then [[k]] ++ onset_keys o
      else if k =? B_O_KAR then [[B_E_KAR]] ++ onset_keys o ++ [[B_AA_KAR]]
      else if k =? B_OU_KAR then [[B_E_KAR]] ++ onset_keys o ++ [[if alt then B_LENGTH_MARK else B_OU_KAR]]
      else onset_keys o ++ [[k]]
  | SOther c => [[c]]
  end.

Definition with_order (o : fopts) (b : bool) : fopts :=
  {| o_vowel := o_vowel o; o_chandra := o_chandra o; o_kar := o_kar o; o_old_reph := o_old_reph o; o_kar_order := b |}.

Definition run_keys (o : fopts) (s : fstate) (keys : list str) : fstate := fold_left (f_key o) keys s.
