(** C12 - fixed-layout composition helpers, written from the property text as a priority list over
    (composed text [p], key value [v], options).  The text is in reading order (NOT reversed); the
    specification looks at the last one or two code points of [p] only.  Old vowel-sign order is off. *)
Require Import Riti.model.Base Riti.model.Chars Riti.model.FixedCompose.

Definition lastc (p : str) : N := last p 0.
Definition isnil {A} (l : list A) : bool := match l with [] => true | _ => false end.

(** the matching independent vowel, as a text *)
Definition indep (c : N) : str := match vowel_of_kar c with Some v => [v] | None => [] end.

(** The effect of a vowel sign [c] typed after [p]. *)
Definition sign_rule (o : fopts) (p : str) (c : N) : str :=
  let l := lastc p in
  if o_vowel o && (isnil p || is_vowel l || is_mark l) then p ++ indep c      (* automatic vowel forming *)
  else if o_chandra o && (l =? B_CHANDRA) then removelast p ++ [c; B_CHANDRA]  (* sign goes before chandrabindu *)
  else if l =? B_HASANTA then removelast p ++ indep c                         (* hasanta + sign = vowel *)
  else if o_kar o && is_pure_consonant l && is_ligature_making_kar c then p ++ [ZWNJ; c]
  else p ++ [c].

(** [reph_rule] is the old-style reph placement of C13, a parameter here. *)
Definition rule_table (reph_rule : str -> str) (o : fopts) (p v : str) : str :=
  let l := lastc p in
  if str_eqb v zofola then
    if (l =? B_R) && negb (lastc (removelast p) =? B_HASANTA) then p ++ [ZWJ] ++ v else p ++ v
  else if str_eqb v reph && o_old_reph o then reph_rule p
  else match v with
       | [] => p
       | c :: rest =>
         if is_kar c then sign_rule o p c ++ rest
         else if (c =? B_HASANTA) && (l =? B_HASANTA) then p ++ [ZWNJ] ++ rest
         else if (c =? B_LENGTH_MARK) && (l =? B_HASANTA) then removelast p ++ [B_OU] ++ rest
         else p ++ v
       end.

(** Backspace removes exactly the last code point. *)
Definition backspace_spec (p : str) : str := removelast p.

(** The class facts the rules rely on (decided by computation on the transcribed tables, which are
    proved equal to the tables generated from the code in proofs/TablesAgree.v). *)
Definition kar_has_vowel : bool := forallb (fun c => match vowel_of_kar c with Some _ => true | None => false end) kars.
