(** C13 - old-style reph: where the reph goes.  Written from the property text.
    The final syllable is described on the text read from its end:
      optional chandrabindu, optional vowel (sign), then the final conjunct  C (hasanta C)*. *)
Require Import Riti.model.Base Riti.model.Chars Riti.model.FixedCompose.

(** Length of the rest of a conjunct, read from the end, after its last consonant was taken:
    pairs (hasanta, consonant) as long as they go on. *)
Fixpoint conj_rest (t : list N) : nat :=
  match t with
  | h :: c :: t' => if (h =? B_HASANTA) && is_pure_consonant c then S (S (conj_rest t')) else O
  | _ => O
  end.

(** Length of the conjunct (consonants joined by hasanta) a reversed text starts with; 0 = none. *)
Definition conj_len (rp : list N) : nat :=
  match rp with
  | c :: t => if is_pure_consonant c then S (conj_rest t) else O
  | [] => O
  end.

(** How many code points, counted from the end of the text, the reph is placed in front of
    (0: the reph goes to the end).  [rp] is the text read from its end. *)
Definition reph_span (rp : list N) : nat :=
  let '(n1, r1) := match rp with c :: t => if c =? B_CHANDRA then (1%nat, t) else (O, rp) | [] => (O, rp) end in
  let '(n2, r2) := match r1 with v :: t => if is_vowel v then (1%nat, t) else (O, r1) | [] => (O, r1) end in
  match conj_len r2 with O => O | k => (n1 + n2 + k)%nat end.

(** The text after the reph key: [reph] inserted immediately before the final conjunct when the text
    ends in conjunct, optional vowel (sign), optional chandrabindu; at the end otherwise. *)
Definition reph_spec (p : str) : str :=
  let j := (length p - reph_span (rev p))%nat in
  firstn j p ++ reph ++ skipn j p.

(** Well-formedness used by the placement clause: every hasanta directly follows a consonant
    (checked on the text read from its end: the code point after a hasanta is a consonant). *)
Fixpoint wf_r (l : list N) : bool :=
  match l with
  | x :: t => (if x =? B_HASANTA then is_pure_consonant (hd 0 t) else true) && wf_r t
  | [] => true
  end.
Definition wf_hasanta (p : str) : bool := wf_r (rev p).

(** The syllable grammar of the property, for the declarative corollary. *)
Inductive conjunct : str -> Prop :=
| conj_one c : is_pure_consonant c = true -> conjunct [c]
| conj_more c l : is_pure_consonant c = true -> conjunct l -> conjunct (c :: B_HASANTA :: l).

(** class facts needed (decided by computation) *)
Definition classes_disjoint : bool :=
  forallb (fun v => negb (is_pure_consonant v) && negb (v =? B_HASANTA) && negb (v =? B_CHANDRA)) vowels
  && forallb (fun c => negb (c =? B_HASANTA) && negb (c =? B_CHANDRA) && negb (is_vowel c)) pure_consonants
  && negb (is_vowel B_HASANTA) && negb (is_vowel B_CHANDRA)
  && negb (is_pure_consonant B_HASANTA) && negb (is_pure_consonant B_CHANDRA) && negb (is_pure_consonant 0) && negb (is_vowel 0).
