(** C04 - a fixed-layout key emits exactly the text the layout file assigns to it.
    Written from the property text and from riti.h; does not mention the model's lookup table. *)
Require Import Riti.model.Base Riti.model.Chars Riti.model.FixedCompose Riti.model.Layout Riti.gen.Gen_Tables.

Definition helpers_off : fopts :=
  {| o_vowel := false; o_chandra := false; o_kar := false; o_old_reph := false; o_kar_order := false |}.

(** The text the layout file [L] assigns to key [k] under modifier byte [m]: the entry named after the
    key in riti.h, on the plane chosen by bit 1 (AltGr) of [m] alone; number-pad entries only while the
    number-pad option is on; empty and missing entries assign nothing. *)
Definition expected_value (L : list (N * str)) (k m : N) (numpad : bool) : option str :=
  match assocN (lookup_code k (N.testbit m 1) numpad) spec_lookups with
  | Some id => layout_value L id
  | None => None
  end.

(** Positions at which none of the unconditional joining rules of C12 applies to value [v]
    (they need a hasanta, or a bare ra for the zo-fola, at the end of the text).  The empty text is one. *)
Definition plain_position (rb : list N) (v : str) : bool :=
  if str_eqb v zofola then negb ((hd 0 rb =? B_R) && negb (nth 1 rb 0 =? B_HASANTA))
  else match v with
       | c :: _ => if is_kar c || (c =? B_HASANTA) || (c =? B_LENGTH_MARK) then negb (hd 0 rb =? B_HASANTA) else true
       | [] => true
       end.
