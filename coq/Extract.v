(** Extraction of the executable model (and the boolean specification checkers) to OCaml.
    ExtrOcamlBasic only: bool/option/unit/list/prod/sumbool/sumor map to OCaml's; N, positive and
    nat stay the extracted inductive types. *)
From Coq Require Import ExtrOcamlBasic.
Require Import Riti.model.Base Riti.model.Chars Riti.model.FixedCompose Riti.model.Layout
        Riti.model.FixedLonely Riti.model.Split Riti.model.Rank Riti.model.Phonetic Riti.model.FixedSuggest
        Riti.gen.Gen_Tables Riti.spec.C12_Spec Riti.spec.C13_Spec.

Extraction Language OCaml.
Extraction "../driver/model.ml"
  f_run f_run_obs f_step f_init f_text f_ongoing process_key_value insert_old_style_reph
  layout_probhat layout_synthetic keycode_to_char get_char_for_key altgr_of
  rule_table reph_spec wf_hasanta
  split smart_quoter rank_cmp sort_ranks
  p_new p_step p_ongoing suggest suggest_only_phonetic join direct
  x_init x_step x_ongoing x_buffer dictionary_suggestion_parts search_dictionary.
