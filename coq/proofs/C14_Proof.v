From Coq Require Import Lia.
Require Import Riti.model.Base Riti.model.Chars Riti.model.FixedCompose Riti.spec.C12_Spec Riti.proofs.C12_Proof Riti.spec.C14_Spec.

(** * Class facts, by computation over the transcribed tables *)
Definition cons_fact (c : N) : bool :=
  negb (c =? B_HASANTA) && negb (c =? B_LENGTH_MARK) && negb (is_kar c) && negb (is_left_standing_kar c)
  && negb (c =? B_E_KAR) && negb (is_vowel c) && negb (is_mark c) && negb (c =? B_CHANDRA).
Lemma cons_all : forallb cons_fact pure_consonants = true. Proof. vm_compute. reflexivity. Qed.
Definition kar_fact (k : N) : bool :=
  negb (k =? B_HASANTA) && negb (k =? B_LENGTH_MARK) && negb (k =? B_R) && negb (is_pure_consonant k).
Lemma kar_all : forallb kar_fact kars = true. Proof. vm_compute. reflexivity. Qed.
Definition lsk_fact (k : N) : bool := is_kar k && negb (is_ligature_making_kar k) && negb (k =? B_HASANTA).
Lemma lsk_all : forallb lsk_fact left_standing_kars = true. Proof. vm_compute. reflexivity. Qed.

Lemma cons_facts14 c : is_pure_consonant c = true ->
  (c =? B_HASANTA) = false /\ (c =? B_LENGTH_MARK) = false /\ is_kar c = false /\ is_left_standing_kar c = false
  /\ (c =? B_E_KAR) = false /\ is_vowel c = false /\ is_mark c = false /\ (c =? B_CHANDRA) = false.
Proof.
  intros H. apply mem_In in H. pose proof cons_all as D. rewrite forallb_forall in D. specialize (D c H).
  unfold cons_fact in D.
  repeat (apply andb_prop in D; let H := fresh in destruct D as [D H]; apply negb_true_iff in H).
  apply negb_true_iff in D. repeat split; assumption.
Qed.

Lemma kar_facts14 k : is_kar k = true ->
  (k =? B_HASANTA) = false /\ (k =? B_LENGTH_MARK) = false /\ (k =? B_R) = false /\ is_pure_consonant k = false.
Proof.
  intros H. apply mem_In in H. pose proof kar_all as D. rewrite forallb_forall in D. specialize (D k H).
  unfold kar_fact in D.
  repeat (apply andb_prop in D; let H := fresh in destruct D as [D H]; apply negb_true_iff in H).
  apply negb_true_iff in D. repeat split; assumption.
Qed.

Lemma lsk_facts14 k : is_left_standing_kar k = true ->
  is_kar k = true /\ is_ligature_making_kar k = false /\ (k =? B_HASANTA) = false.
Proof.
  intros H. apply mem_In in H. pose proof lsk_all as D. rewrite forallb_forall in D. specialize (D k H).
  unfold lsk_fact in D. apply andb_prop in D. destruct D as [D H3]. apply andb_prop in D. destruct D as [H1 H2].
  apply negb_true_iff in H2, H3. auto.
Qed.

Lemma str1_zofola c : str_eqb [c] zofola = false.
Proof. unfold zofola. cbn [str_eqb]. apply andb_false_r. Qed.
Lemma str1_reph c : str_eqb [c] reph = false.
Proof. unfold reph. cbn [str_eqb]. apply andb_false_r. Qed.

Ltac open_pkv := unfold process_key_value, pkv_gen, pkv_tail, rmc_of, push_str; cbn [hd tl rev app last].
Ltac fin := cbn [andb orb negb]; rewrite ?andb_false_r, ?andb_true_r, ?orb_false_r; cbn [andb orb negb]; try reflexivity.
Ltac rw_false := repeat match goal with H : _ = false |- _ => rewrite H end.
Ltac rw_all := repeat match goal with H : _ = false |- _ => rewrite H | H : _ = true |- _ => rewrite H end.

(** * Single keys *)

(** a consonant key, nothing waiting: appended, in both orders, at any position *)
Lemma pkv_cons o rb c : is_pure_consonant c = true -> process_key_value o rb None [c] = (c :: rb, None).
Proof.
  intros Hc. destruct (cons_facts14 c Hc) as (H1&H2&H3&H4&H5&H6&H7&H8).
  open_pkv. rewrite str1_zofola, str1_reph, H3, H1, H2. cbn [andb].
  fin; destruct (o_kar_order o); fin.
Qed.

(** a consonant key while a sign waits: consonant, then the sign *)
Lemma pkv_cons_pend o rb k c : o_kar_order o = true -> is_pure_consonant c = true ->
  process_key_value o rb (Some k) [c] = (k :: c :: rb, None).
Proof.
  intros Ho Hc. destruct (cons_facts14 c Hc) as (H1&H2&H3&H4&H5&H6&H7&H8).
  open_pkv. rewrite str1_zofola, str1_reph, H3, H1, H2, Ho. fin.
Qed.

(** any code point that is not a sign, the hasanta or the length mark, nothing waiting *)
Lemma pkv_other o rb c : is_kar c = false -> (c =? B_HASANTA) = false -> (c =? B_LENGTH_MARK) = false ->
  process_key_value o rb None [c] = (c :: rb, None).
Proof.
  intros H3 H1 H2. open_pkv. rewrite str1_zofola, str1_reph, H3, H1, H2. cbn [andb].
  fin; destruct (o_kar_order o); fin.
Qed.

(** the hasanta key after a consonant *)
Lemma pkv_H_plain o x rb : is_pure_consonant x = true ->
  process_key_value o (x :: rb) None [B_HASANTA] = (B_HASANTA :: x :: rb, None).
Proof.
  intros Hc. destruct (cons_facts14 x Hc) as (H1&H2&H3&H4&H5&H6&H7&H8).
  open_pkv. rewrite str1_zofola, str1_reph. replace (is_kar B_HASANTA) with false by reflexivity.
  replace (B_HASANTA =? B_HASANTA) with true by reflexivity. replace (B_HASANTA =? B_LENGTH_MARK) with false by reflexivity.
  rewrite ?H1, ?H4, ?H5. fin; destruct (o_kar_order o); fin.
Qed.

(** the hasanta key after a left-standing sign (old order): the sign waits again *)
Lemma pkv_H_lsk o k rb : o_kar_order o = true -> is_left_standing_kar k = true ->
  process_key_value o (k :: rb) None [B_HASANTA] = (B_HASANTA :: rb, Some k).
Proof.
  intros Ho Hk. destruct (lsk_facts14 k Hk) as (K1&K2&K3).
  open_pkv. rewrite str1_zofola, str1_reph. replace (is_kar B_HASANTA) with false by reflexivity.
  replace (B_HASANTA =? B_HASANTA) with true by reflexivity. replace (B_HASANTA =? B_LENGTH_MARK) with false by reflexivity.
  rewrite ?K3, ?Ho, ?Hk. fin.
Qed.

Lemma rofola_zofola : str_eqb rofola zofola = false. Proof. reflexivity. Qed.
Lemma rofola_reph : str_eqb rofola reph = false. Proof. reflexivity. Qed.

Lemma pkv_ro_plain o x rb : is_pure_consonant x = true ->
  process_key_value o (x :: rb) None rofola = (B_R :: B_HASANTA :: x :: rb, None).
Proof.
  intros Hc. destruct (cons_facts14 x Hc) as (H1&H2&H3&H4&H5&H6&H7&H8).
  open_pkv. rewrite rofola_zofola, rofola_reph. unfold rofola. replace (is_kar B_HASANTA) with false by reflexivity.
  replace (B_HASANTA =? B_HASANTA) with true by reflexivity. replace (B_HASANTA =? B_LENGTH_MARK) with false by reflexivity.
  rewrite ?H1, ?H4, ?H5. fin; destruct (o_kar_order o); fin.
Qed.

Lemma pkv_ro_lsk o k rb : o_kar_order o = true -> is_left_standing_kar k = true ->
  process_key_value o (k :: rb) None rofola = (k :: B_R :: B_HASANTA :: rb, None).
Proof.
  intros Ho Hk. destruct (lsk_facts14 k Hk) as (K1&K2&K3).
  open_pkv. rewrite rofola_zofola, rofola_reph. unfold rofola. replace (is_kar B_HASANTA) with false by reflexivity.
  replace (B_HASANTA =? B_HASANTA) with true by reflexivity. replace (B_HASANTA =? B_LENGTH_MARK) with false by reflexivity.
  rewrite ?K3, ?Ho, ?Hk. fin.
Qed.

(** the zo-fola key: what the Unicode-order run (option off) appends after [rb] *)
Definition zo_off (rb : list N) : list N :=
  B_Z :: B_HASANTA :: (if (hd 0 rb =? B_R) && negb (nth 1 rb 0 =? B_HASANTA) then ZWJ :: rb else rb).

Lemma pkv_zo_plain o x rb : is_pure_consonant x = true ->
  process_key_value o (x :: rb) None zofola = (zo_off (x :: rb), None).
Proof.
  intros Hc. destruct (cons_facts14 x Hc) as (H1&H2&H3&H4&H5&H6&H7&H8).
  open_pkv. replace (str_eqb zofola zofola) with true by reflexivity. rewrite H4, andb_false_r.
  unfold zo_off. cbn [hd]. destruct ((x =? B_R) && negb (nth 1 (x :: rb) 0 =? B_HASANTA)); reflexivity.
Qed.

Lemma pkv_zo_lsk o k rb : o_kar_order o = true -> is_left_standing_kar k = true ->
  process_key_value o (k :: rb) None zofola = (k :: zo_off rb, None).
Proof.
  intros Ho Hk. open_pkv. replace (str_eqb zofola zofola) with true by reflexivity. rewrite Ho, Hk. cbn [andb].
  unfold zo_off. destruct ((hd 0 rb =? B_R) && negb (nth 1 rb 0 =? B_HASANTA)); reflexivity.
Qed.

(** a left-standing sign typed where the text does not end in hasanta (old order): it waits *)
Lemma pkv_lsk_capture o rb k : o_kar_order o = true -> is_left_standing_kar k = true -> (hd 0 rb =? B_HASANTA) = false ->
  process_key_value o rb None [k] = (rb, Some k).
Proof.
  intros Ho Hk Hh. destruct (lsk_facts14 k Hk) as (K1&K2&K3).
  open_pkv. rewrite str1_zofola, str1_reph, K1, Ho, Hh, Hk. reflexivity.
Qed.

(** a sign that does not make a ligature, typed after a consonant with the option off: appended *)
Lemma pkv_kar_off_cons o x rb k : o_kar_order o = false -> is_pure_consonant x = true -> is_kar k = true ->
  is_ligature_making_kar k = false -> process_key_value o (x :: rb) None [k] = (k :: x :: rb, None).
Proof.
  intros Ho Hc Hk Hl. destruct (cons_facts14 x Hc) as (H1&H2&H3&H4&H5&H6&H7&H8).
  open_pkv. rewrite str1_zofola, str1_reph, Hk, Ho. cbn [andb].
  unfold kar_chain. cbn [hd tl]. rewrite H6, H7, H8, H1, Hc, Hl. cbn [orb]. rewrite !andb_false_r. cbn [app rev].
  destruct (o_kar o); reflexivity.
Qed.

(** a sign that is neither left-standing nor the second half of a two-part sign after E:
    typed after a consonant it does the same in both orders *)
Lemma pkv_kar_same o x rb k : is_pure_consonant x = true -> is_kar k = true -> is_left_standing_kar k = false ->
  process_key_value (with_order o true) (x :: rb) None [k] = process_key_value (with_order o false) (x :: rb) None [k].
Proof.
  intros Hc Hk Hl. destruct (cons_facts14 x Hc) as (H1&H2&H3&H4&H5&H6&H7&H8).
  open_pkv. rewrite str1_zofola, str1_reph, Hk. cbn [o_kar_order with_order andb o_old_reph].
  rewrite Hl, H5, !andb_false_r. cbn [andb]. reflexivity.
Qed.

Lemma kar_chain_hd o x rb k : is_pure_consonant x = true -> is_kar k = true ->
  hd 0 (kar_chain o x (x :: rb) k) = k.
Proof.
  intros Hc Hk. destruct (cons_facts14 x Hc) as (H1&H2&H3&H4&H5&H6&H7&H8).
  unfold kar_chain. rewrite H6, H7, H8, H1, Hc. cbn [orb]. rewrite !andb_false_r.
  destruct (o_kar o); cbn [andb]; [destruct (is_ligature_making_kar k)|]; reflexivity.
Qed.

(** joining the two-part signs (old order) *)
Lemma pkv_join_aa o rb : o_kar_order o = true ->
  process_key_value o (B_E_KAR :: rb) None [B_AA_KAR] = (B_O_KAR :: rb, None).
Proof. intros Ho. open_pkv. rewrite Ho. reflexivity. Qed.
Lemma pkv_join_ou o rb : o_kar_order o = true ->
  process_key_value o (B_E_KAR :: rb) None [B_OU_KAR] = (B_OU_KAR :: rb, None).
Proof. intros Ho. open_pkv. rewrite Ho. reflexivity. Qed.
Lemma pkv_join_lm o rb : o_kar_order o = true ->
  process_key_value o (B_E_KAR :: rb) None [B_LENGTH_MARK] = (B_OU_KAR :: rb, None).
Proof. intros Ho. open_pkv. rewrite Ho. reflexivity. Qed.

(** * Runs *)
Definition st (rb : list N) (p : option N) : fstate := {| f_rb := rb; f_pend := p |}.

Lemma run_keys_app o s k1 k2 : run_keys o s (k1 ++ k2) = run_keys o (run_keys o s k1) k2.
Proof. unfold run_keys. apply fold_left_app. Qed.

Lemma f_key_eq o rb p v rb' p' : process_key_value o rb p v = (rb', p') -> f_key o (st rb p) v = st rb' p'.
Proof. intros H. unfold f_key, st. cbn [f_rb f_pend]. rewrite H. reflexivity. Qed.

Lemma run1 o s v : run_keys o s [v] = f_key o s v. Proof. reflexivity. Qed.
Lemma run2 o s v w : run_keys o s [v; w] = f_key o (f_key o s v) w. Proof. reflexivity. Qed.

Lemma zo_off_hd rb : is_pure_consonant (hd 0 (zo_off rb)) = true.
Proof. reflexivity. Qed.

(** The onset typed with nothing waiting: both orders do the same, and the text then ends in a consonant. *)
Lemma onset_plain o on rb : onset_ok on = true ->
  exists x R, is_pure_consonant x = true /\
    run_keys (with_order o true) (st rb None) (onset_keys on) = st (x :: R) None /\
    run_keys (with_order o false) (st rb None) (onset_keys on) = st (x :: R) None.
Proof.
  revert rb. induction on as [c | on IH c | on IH | on IH]; intros rb Hok; cbn [onset_ok onset_keys] in *.
  - exists c, rb. split; [exact Hok|]. rewrite !run1. split; apply f_key_eq, pkv_cons; exact Hok.
  - apply andb_prop in Hok. destruct Hok as [Ho Hc]. destruct (IH rb Ho) as (x & R & Hx & E1 & E2).
    exists c, (B_HASANTA :: x :: R). split; [exact Hc|].
    rewrite !run_keys_app, E1, E2, !run2. split.
    + rewrite (f_key_eq _ _ _ _ _ _ (pkv_H_plain _ x R Hx)). apply f_key_eq, pkv_cons; exact Hc.
    + rewrite (f_key_eq _ _ _ _ _ _ (pkv_H_plain _ x R Hx)). apply f_key_eq, pkv_cons; exact Hc.
  - destruct (IH rb Hok) as (x & R & Hx & E1 & E2).
    exists B_R, (B_HASANTA :: x :: R). split; [reflexivity|].
    rewrite !run_keys_app, E1, E2, !run1. split; apply f_key_eq, pkv_ro_plain; exact Hx.
  - destruct (IH rb Hok) as (x & R & Hx & E1 & E2).
    exists (hd 0 (zo_off (x :: R))), (tl (zo_off (x :: R))). split; [apply zo_off_hd|].
    rewrite !run_keys_app, E1, E2, !run1.
    assert (Z : hd 0 (zo_off (x :: R)) :: tl (zo_off (x :: R)) = zo_off (x :: R)) by reflexivity. rewrite Z.
    split; apply f_key_eq, pkv_zo_plain; exact Hx.
Qed.

(** The onset typed while a left-standing sign waits (old order): the Unicode-order text, then the sign. *)
Lemma onset_pending o on rb k : onset_ok on = true -> is_left_standing_kar k = true ->
  exists x R, is_pure_consonant x = true /\
    run_keys (with_order o true) (st rb (Some k)) (onset_keys on) = st (k :: x :: R) None /\
    run_keys (with_order o false) (st rb None) (onset_keys on) = st (x :: R) None.
Proof.
  intros Hok Hk. revert Hok. induction on as [c | on IH c | on IH | on IH]; intros Hok; cbn [onset_ok onset_keys] in *.
  - exists c, rb. split; [exact Hok|]. rewrite !run1. split.
    + apply f_key_eq, pkv_cons_pend; [reflexivity | exact Hok].
    + apply f_key_eq, pkv_cons; exact Hok.
  - apply andb_prop in Hok. destruct Hok as [Ho Hc]. destruct (IH Ho) as (x & R & Hx & E1 & E2).
    exists c, (B_HASANTA :: x :: R). split; [exact Hc|].
    rewrite !run_keys_app, E1, E2, !run2. split.
    + rewrite (f_key_eq _ _ _ _ _ _ (pkv_H_lsk (with_order o true) k (x :: R) eq_refl Hk)).
      apply f_key_eq, pkv_cons_pend; [reflexivity | exact Hc].
    + rewrite (f_key_eq _ _ _ _ _ _ (pkv_H_plain _ x R Hx)). apply f_key_eq, pkv_cons; exact Hc.
  - destruct (IH Hok) as (x & R & Hx & E1 & E2).
    exists B_R, (B_HASANTA :: x :: R). split; [reflexivity|].
    rewrite !run_keys_app, E1, E2, !run1. split.
    + apply f_key_eq, pkv_ro_lsk; [reflexivity | exact Hk].
    + apply f_key_eq, pkv_ro_plain; exact Hx.
  - destruct (IH Hok) as (x & R & Hx & E1 & E2).
    exists (hd 0 (zo_off (x :: R))), (tl (zo_off (x :: R))). split; [apply zo_off_hd|].
    rewrite !run_keys_app, E1, E2, !run1.
    assert (Z : hd 0 (zo_off (x :: R)) :: tl (zo_off (x :: R)) = zo_off (x :: R)) by reflexivity. rewrite Z.
    split.
    + apply f_key_eq, pkv_zo_lsk; [reflexivity | exact Hk].
    + apply f_key_eq, pkv_zo_plain; exact Hx.
Qed.

Lemma lsk_E : is_left_standing_kar B_E_KAR = true. Proof. reflexivity. Qed.

(** One syllable: from any text that does not end in hasanta and with nothing waiting, typewriter order
    with the option on and Unicode order with it off reach the same state, which again does not end in
    hasanta and has nothing waiting. *)
Lemma syllable_equiv o s rb :
  syl_ok s = true -> (hd 0 rb =? B_HASANTA) = false ->
  exists rb', (hd 0 rb' =? B_HASANTA) = false /\
    run_keys (with_order o true) (st rb None) (typewriter_keys s) = st rb' None /\
    run_keys (with_order o false) (st rb None) (unicode_keys s) = st rb' None.
Proof.
  intros Hok Hh. destruct s as [on [k|] alt | c]; cbn [syl_ok typewriter_keys unicode_keys] in *.
  - apply andb_prop in Hok. destruct Hok as [Hon Hk].
    destruct (kar_facts14 k Hk) as (K1&K2&K3&K4).
    destruct (is_left_standing_kar k) eqn:Hl.
    { (* left-standing sign: typed first, waits, re-attached after the onset *)
      destruct (onset_pending o on rb k Hon Hl) as (x & R & Hx & E1 & E2).
      destruct (lsk_facts14 k Hl) as (L1&L2&L3).
      exists (k :: x :: R). split; [exact K1|].
      rewrite !run_keys_app, !run1, E2. split.
      - rewrite (f_key_eq _ _ _ _ _ _ (pkv_lsk_capture (with_order o true) rb k eq_refl Hl Hh)). exact E1.
      - apply f_key_eq, pkv_kar_off_cons; auto. }
    destruct (k =? B_O_KAR) eqn:HO.
    { apply N.eqb_eq in HO. subst k.
      destruct (onset_pending o on rb B_E_KAR Hon lsk_E) as (x & R & Hx & E1 & E2).
      exists (B_O_KAR :: x :: R). split; [reflexivity|].
      rewrite !run_keys_app, !run1, E2. split.
      - rewrite (f_key_eq _ _ _ _ _ _ (pkv_lsk_capture (with_order o true) rb B_E_KAR eq_refl lsk_E Hh)). rewrite E1.
        apply f_key_eq, pkv_join_aa. reflexivity.
      - apply f_key_eq, pkv_kar_off_cons; auto. }
    destruct (k =? B_OU_KAR) eqn:HU.
    { apply N.eqb_eq in HU. subst k.
      destruct (onset_pending o on rb B_E_KAR Hon lsk_E) as (x & R & Hx & E1 & E2).
      exists (B_OU_KAR :: x :: R). split; [reflexivity|].
      rewrite !run_keys_app, !run1, E2. split.
      - rewrite (f_key_eq _ _ _ _ _ _ (pkv_lsk_capture (with_order o true) rb B_E_KAR eq_refl lsk_E Hh)). rewrite E1.
        destruct alt; apply f_key_eq; [apply pkv_join_lm | apply pkv_join_ou]; reflexivity.
      - apply f_key_eq, pkv_kar_off_cons; auto. }
    (* any other sign: typed after the onset in both orders *)
    destruct (onset_plain o on rb Hon) as (x & R & Hx & E1 & E2).
    pose proof (pkv_kar_same o x R k Hx Hk Hl) as Same.
    destruct (process_key_value (with_order o false) (x :: R) None [k]) as [rb' p'] eqn:Off.
    assert (Hp : p' = None /\ hd 0 rb' = k).
    { revert Off. unfold process_key_value, pkv_gen, pkv_tail, rmc_of, push_str. cbn [hd tl rev app last].
      rewrite str1_zofola, str1_reph, Hk. cbn [o_kar_order with_order andb app rev].
      intros Off. inversion Off. split; [reflexivity|]. apply kar_chain_hd; assumption. }
    destruct Hp as [-> Hhd].
    exists rb'. split; [rewrite Hhd; exact K1|].
    rewrite !run_keys_app, !run1, E1, E2. split; apply f_key_eq; [exact Same | exact Off].
  - destruct (onset_plain o on rb Hok) as (x & R & Hx & E1 & E2).
    destruct (cons_facts14 x Hx) as (H1&_).
    exists (x :: R). split; [exact H1|]. split; assumption.
  - apply andb_prop in Hok. destruct Hok as [Hok H3]. apply andb_prop in Hok. destruct Hok as [H1 H2].
    apply negb_true_iff in H1, H2, H3.
    exists (c :: rb). split; [exact H2|]. rewrite !run1. split; apply f_key_eq, pkv_other; assumption.
Qed.

(** Words: any sequence of syllables. *)
Lemma word_equiv o : forall (w : list syl) rb,
  forallb syl_ok w = true -> (hd 0 rb =? B_HASANTA) = false ->
  run_keys (with_order o true) (st rb None) (flat_map typewriter_keys w)
  = run_keys (with_order o false) (st rb None) (flat_map unicode_keys w).
Proof.
  induction w as [|s w IH]; intros rb Hok Hh; [reflexivity|].
  cbn [forallb flat_map] in *. apply andb_prop in Hok. destruct Hok as [Hs Hw].
  destruct (syllable_equiv o s rb Hs Hh) as (rb' & Hh' & E1 & E2).
  rewrite !run_keys_app, E1, E2. apply IH; assumption.
Qed.

(** While a left-standing sign waits: it is not in the text, the session is ongoing, one backspace discards it. *)
Lemma waiting_sign o rb k :
  o_kar_order o = true -> is_left_standing_kar k = true -> (hd 0 rb =? B_HASANTA) = false ->
  let s' := f_key o (st rb None) [k] in
  f_text s' = rev rb /\ f_ongoing s' = true /\ fst (f_backspace false s') = st rb None.
Proof.
  intros Ho Hk Hh. cbn zeta. rewrite (f_key_eq _ _ _ _ _ _ (pkv_lsk_capture o rb k Ho Hk Hh)).
  unfold f_text, f_ongoing, f_backspace, st. cbn [f_rb f_pend].
  split; [reflexivity|]. split; [apply orb_true_r|]. destruct rb; reflexivity.
Qed.
