(** Facts about SplittedString::split (model/Split.v). *)
From Coq Require Import Lia.
Require Import Riti.model.Base Riti.model.Chars Riti.model.Split.

(** ** span *)
Lemma span_app f s : fst (span f s) ++ snd (span f s) = s.
Proof. induction s as [|c t IH]; cbn [span]; [reflexivity|]. destruct (f c); [|reflexivity]. destruct (span f t). cbn in *. rewrite IH. reflexivity. Qed.

Lemma span_fst_all f s : forallb f (fst (span f s)) = true.
Proof. induction s as [|c t IH]; cbn [span]; [reflexivity|]. destruct (f c) eqn:E; [|reflexivity]. destruct (span f t). cbn in *. rewrite E, IH. reflexivity. Qed.

Lemma span_snd_hd f s : match snd (span f s) with c :: _ => f c = false | [] => True end.
Proof. induction s as [|c t IH]; cbn [span]; [exact I|]. destruct (f c) eqn:E; [|exact E]. destruct (span f t). exact IH. Qed.

Lemma span_prefix f p r : forallb f p = true -> match r with c :: _ => f c = false | [] => True end -> span f (p ++ r) = (p, r).
Proof.
  induction p as [|c t IH]; intros Hp Hr; cbn [app span forallb] in *.
  - destruct r as [|c r]; [reflexivity|]. cbn [span]. rewrite Hr. reflexivity.
  - apply andb_prop in Hp. destruct Hp as [Hc Ht]. rewrite Hc, (IH Ht Hr). reflexivity.
Qed.

(** ** the trailing scan, relative form: number of characters up to and including the last committed one *)
Fixpoint ts (ic : bool) (r : list N) (e : bool) : option nat :=
  match r with
  | [] => None
  | c :: t =>
    if negb e && (c =? BACKTICK) then option_map S (ts ic t true)
    else if ((ic || e) && (c =? COLON)) || is_meta c then Some (S (match ts ic t false with Some k => k | None => O end))
    else None
  end.

Lemma trail_scan_ts ic : forall r e c s,
  trail_scan ic r e c s = match ts ic r e with Some k => (s + k)%nat | None => c end.
Proof.
  induction r as [|x t IH]; intros e c s; cbn [trail_scan ts]; [reflexivity|].
  destruct (negb e && (x =? BACKTICK)).
  { rewrite IH. destruct (ts ic t true); cbn [option_map]; [lia | reflexivity]. }
  destruct (((ic || e) && (x =? COLON)) || is_meta x); [|reflexivity].
  rewrite IH. destruct (ts ic t false); lia.
Qed.

Definition trail_len (ic : bool) (r : list N) : nat := match ts ic r false with Some k => k | None => O end.

Lemma trail_scan_len ic r : trail_scan ic r false O O = trail_len ic r.
Proof. rewrite trail_scan_ts. unfold trail_len. destruct (ts ic r false); reflexivity. Qed.

Lemma ts_bound ic : forall r e k, ts ic r e = Some k -> (k <= length r)%nat.
Proof.
  induction r as [|x t IH]; intros e k H; cbn [ts length] in *; [discriminate|].
  destruct (negb e && (x =? BACKTICK)).
  { destruct (ts ic t true) eqn:E; cbn in H; [|discriminate]. inversion H; subst. apply IH in E. lia. }
  destruct (((ic || e) && (x =? COLON)) || is_meta x); [|discriminate].
  inversion H; subst. destruct (ts ic t false) eqn:E; [apply IH in E; lia | lia].
Qed.

(** after the last committed character nothing is committed any more *)
Lemma ts_idem ic : forall r e k, ts ic r e = Some k -> ts ic (skipn k r) false = None.
Proof.
  induction r as [|x t IH]; intros e k H; cbn [ts] in *; [discriminate|].
  destruct (negb e && (x =? BACKTICK)).
  { destruct (ts ic t true) eqn:E; cbn in H; [|discriminate]. inversion H; subst. cbn [skipn]. eapply IH; exact E. }
  destruct (((ic || e) && (x =? COLON)) || is_meta x); [|discriminate].
  inversion H; subst. cbn [skipn]. destruct (ts ic t false) eqn:E; [eapply IH; exact E | exact E].
Qed.

Lemma trail_len_bound ic r : (trail_len ic r <= length r)%nat.
Proof. unfold trail_len. destruct (ts ic r false) eqn:E; [eapply ts_bound; exact E | lia]. Qed.

Lemma trail_len_idem ic r : trail_len ic (skipn (trail_len ic r) r) = O.
Proof.
  unfold trail_len at 2. destruct (ts ic r false) eqn:E.
  - unfold trail_len. rewrite (ts_idem ic r false n E). reflexivity.
  - cbn [skipn]. unfold trail_len. rewrite E. reflexivity.
Qed.

(** ** split *)
Lemma split_unfold input ic :
  split input ic =
  let p := fst (span is_meta input) in let rest := snd (span is_meta input) in
  match rest with
  | [] => (input, [], [])
  | _ => let k := (length rest - trail_len ic (rev rest))%nat in (p, firstn k rest, skipn k rest)
  end.
Proof. unfold split. destruct (span is_meta input) as [p rest]. cbn [fst snd]. destruct rest; [reflexivity|]. rewrite trail_scan_len. reflexivity. Qed.

(** nothing is lost or invented: the three parts concatenate to the input *)
Lemma split_concat input ic : sp_pre (split input ic) ++ sp_word (split input ic) ++ sp_trail (split input ic) = input.
Proof.
  rewrite split_unfold. cbn zeta. pose proof (span_app is_meta input) as A.
  destruct (snd (span is_meta input)) as [|c rest] eqn:E.
  - unfold sp_pre, sp_word, sp_trail. cbn. rewrite app_nil_r. reflexivity.
  - unfold sp_pre, sp_word, sp_trail. cbn [fst snd]. rewrite firstn_skipn. exact A.
Qed.

Lemma split_pre_meta input ic : sp_word (split input ic) <> [] -> forallb is_meta (sp_pre (split input ic)) = true.
Proof.
  rewrite split_unfold. cbn zeta. destruct (snd (span is_meta input)) eqn:E; unfold sp_pre, sp_word; cbn [fst snd]; [congruence|].
  intros _. apply span_fst_all.
Qed.

(** text that is only punctuation is all "preceding" *)
Lemma split_all_meta input ic : forallb is_meta input = true -> split input ic = (input, [], []).
Proof.
  intros H. rewrite split_unfold. cbn zeta.
  assert (E : span is_meta input = (input, [])).
  { rewrite <- (app_nil_r input) at 1. apply span_prefix; [exact H | exact I]. }
  rewrite E. reflexivity.
Qed.

(** a word wrapped in punctuation is split into exactly (leading, word, trailing) *)
Lemma ts_all_meta ic : forall r t, forallb is_meta r = true -> ts ic (r ++ t) false = Some (length r + match ts ic t false with Some k => k | None => O end)%nat \/ r = [].
Proof.
  induction r as [|x r IH]; intros t H; [right; reflexivity|]. left. cbn [forallb] in H. apply andb_prop in H. destruct H as [Hx Hr].
  cbn [app ts length]. 
  assert (Hb : (x =? BACKTICK) = false).
  { destruct (x =? BACKTICK) eqn:E; [|reflexivity]. apply N.eqb_eq in E. subst. vm_compute in Hx. discriminate. }
  rewrite Hb. cbn [negb andb]. rewrite Hx, orb_true_r.
  destruct (IH t Hr) as [E|E]; [rewrite E; reflexivity | subst; reflexivity].
Qed.

Lemma split_wrapped l w r ic :
  forallb is_meta l = true -> forallb is_meta r = true -> w <> [] ->
  is_meta (hd 0 w) = false -> is_meta (last w 0) = false -> (last w 0 =? BACKTICK) = false ->
  (ic && (last w 0 =? COLON)) = false ->
  split (l ++ w ++ r) ic = (l, w, r).
Proof.
  intros Hl Hr Hw Hh Hla Hbt Hco. rewrite split_unfold. cbn zeta.
  assert (E : span is_meta (l ++ w ++ r) = (l, w ++ r)).
  { apply span_prefix; [exact Hl|]. destruct w; [congruence | exact Hh]. }
  rewrite E. cbn [fst snd]. destruct (w ++ r) eqn:Ewr; [destruct w; [congruence | discriminate]|]. rewrite <- Ewr. clear Ewr.
  assert (T : trail_len ic (rev (w ++ r)) = length r).
  { rewrite rev_app_distr. unfold trail_len.
    assert (Hw' : ts ic (rev w) false = None).
    { destruct (rev w) as [|x t] eqn:Erw; [reflexivity|].
      assert (x = last w 0). { rewrite <- (rev_involutive w), Erw. cbn [rev]. rewrite last_last. reflexivity. }
      subst x. cbn [ts]. rewrite Hbt. cbn [negb andb orb]. rewrite orb_false_r in *. rewrite Hco, Hla. reflexivity. }
    destruct (ts_all_meta ic (rev r) (rev w)) as [E2|E2].
    - rewrite forallb_forall in *. intros x Hx. apply Hr. apply in_rev. exact Hx.
    - rewrite E2, Hw', rev_length. lia.
    - rewrite E2. cbn [app]. rewrite Hw'. apply (f_equal (@length N)) in E2. rewrite rev_length in E2. cbn in E2. lia. }
  rewrite T, app_length. replace (length w + length r - length r)%nat with (length w) by lia.
  rewrite firstn_app, firstn_all, PeanoNat.Nat.sub_diag. cbn [firstn]. rewrite app_nil_r.
  rewrite skipn_app, skipn_all, PeanoNat.Nat.sub_diag. reflexivity.
Qed.

(** the word part of any split is stable: put behind any punctuation it is again the word part, with nothing trailing *)
Lemma split_word_stable input ic p :
  sp_word (split input ic) <> [] -> forallb is_meta p = true ->
  split (p ++ sp_word (split input ic)) ic = (p, sp_word (split input ic), []).
Proof.
  rewrite (split_unfold input ic). cbn zeta. pose proof (span_snd_hd is_meta input) as Hh.
  destruct (snd (span is_meta input)) as [|c rest0] eqn:E; unfold sp_word; cbn [fst snd]; [congruence|].
  set (rest := c :: rest0) in *. set (n := trail_len ic (rev rest)). set (k := (length rest - n)%nat).
  intros Hw Hp. set (w := firstn k rest) in *.
  assert (Hn : (n <= length rest)%nat). { unfold n. rewrite <- (rev_length rest). apply trail_len_bound. }
  assert (Hrw : rev w = skipn n (rev rest)).
  { unfold w, k. rewrite skipn_rev. reflexivity. }
  assert (Hk : (0 < k)%nat). { destruct k; [cbn in Hw; congruence | lia]. }
  assert (Hhd : is_meta (hd 0 w) = false). { unfold w, rest. destruct k; [lia|]. cbn [firstn hd]. exact Hh. }
  rewrite split_unfold. cbn zeta.
  assert (Es : span is_meta (p ++ w) = (p, w)).
  { apply span_prefix; [exact Hp|]. destruct w; [congruence | exact Hhd]. }
  rewrite Es. cbn [fst snd]. destruct w as [|x t] eqn:Ew; [congruence|]. rewrite <- Ew in *.
  assert (T : trail_len ic (rev w) = O). { rewrite Hrw. apply trail_len_idem. }
  rewrite T, PeanoNat.Nat.sub_0_r, firstn_all, skipn_all. reflexivity.
Qed.
