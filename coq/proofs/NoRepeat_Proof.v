(** C15, "none repeats": the fixed-layout candidate list holds no text twice, PROVIDED the slice of the dictionary
    that matches the typed word has its repeats next to each other (Vec::dedup only removes neighbours) and the emoji
    of the word are not themselves candidates.  The provisos are facts about the data files; they are stated as
    hypotheses here and looked at on every list by the C15 stream (data-exhaustively in the thorough tier). *)
From Coq Require Import Lia Permutation Sorted.
Require Import Riti.model.Base Riti.model.Chars Riti.model.Split Riti.model.Rank Riti.model.Layout Riti.model.Phonetic
        Riti.model.FixedCompose Riti.model.FixedSuggest Riti.gen.Gen_Tables
        Riti.proofs.Rank_Proof Riti.proofs.Phonetic_Proof Riti.proofs.C03_Proof Riti.proofs.Lists_Proof Riti.proofs.Order_Proof
        Riti.proofs.Fixed_Proof.

(** every repeat of a text sits in one block *)
Definition repeats_adjacent (l : list str) : Prop :=
  forall a x m b, l = a ++ x :: m ++ x :: b -> Forall (eq x) m.

Fixpoint dedup_s (prev : str) (l : list str) : list str :=
  match l with
  | [] => []
  | y :: t => if str_eqb prev y then dedup_s prev t else y :: dedup_s y t
  end.

Lemma dedup_from_strs : forall l p, map rstr (dedup_from p l) = dedup_s (rstr p) (map rstr l).
Proof.
  induction l as [|y t IH]; intros p; [reflexivity|]. cbn [dedup_from map dedup_s].
  destruct (str_eqb (rstr p) (rstr y)); [apply IH|]. cbn [map]. rewrite IH. reflexivity.
Qed.

Lemma dedup_s_subset : forall l p x, In x (dedup_s p l) -> In x l.
Proof.
  induction l as [|y t IH]; intros p x H; cbn [dedup_s] in H; [destruct H|].
  destruct (str_eqb p y); [right; eapply IH; exact H|]. destruct H as [<-|H]; [left; reflexivity | right; eapply IH; exact H].
Qed.

Lemma adjacent_tail x l : repeats_adjacent (x :: l) -> repeats_adjacent l.
Proof. intros H a y m b E. apply (H (x :: a) y m b). rewrite E. reflexivity. Qed.

Lemma adjacent_drop_second x l : repeats_adjacent (x :: x :: l) -> repeats_adjacent (x :: l).
Proof.
  intros H a y m b E. destruct a as [|a0 a].
  - cbn [app] in E. injection E as E1 E2. subst y.
    assert (F : Forall (eq x) (x :: m)). { apply (H [] x (x :: m) b). cbn [app]. rewrite E2. reflexivity. }
    inversion F; assumption.
  - cbn [app] in E. injection E as E1 E2. subst a0. apply (H (x :: x :: a) y m b). cbn [app]. rewrite E2. reflexivity.
Qed.

Lemma adjacent_dedup : forall l p, repeats_adjacent (p :: l) -> NoDup (p :: dedup_s p l).
Proof.
  induction l as [|y t IH]; intros p H; cbn [dedup_s]; [constructor; [intros []|constructor]|].
  destruct (str_eqb p y) eqn:E.
  - apply str_eqb_eq in E. subst y. apply IH. apply adjacent_drop_second. exact H.
  - assert (Hy : NoDup (y :: dedup_s y t)) by (apply IH; eapply adjacent_tail; exact H).
    constructor; [|exact Hy]. intros [Hin|Hin].
    + subst y. rewrite str_eqb_refl in E. discriminate.
    + apply dedup_s_subset in Hin. apply in_split in Hin. destruct Hin as (m & b & Et).
      assert (F : Forall (eq p) (y :: m)). { apply (H [] p (y :: m) b). cbn [app]. rewrite Et. reflexivity. }
      inversion F as [|? ? Epy _]; subst. rewrite str_eqb_refl in E. discriminate.
Qed.

Lemma dedup_ranks_nodup x t : repeats_adjacent (map rstr (x :: t)) -> NoDup (map rstr (dedup_ranks (x :: t))).
Proof. intros H. cbn [dedup_ranks map]. rewrite dedup_from_strs. apply adjacent_dedup. exact H. Qed.

Lemma NoDup_map_inj {A B} (f : A -> B) l : (forall a b, f a = f b -> a = b) -> NoDup l -> NoDup (map f l).
Proof.
  intros Hf H. induction H as [|x l Hx H IH]; cbn [map]; constructor; [|exact IH].
  intros Hin. apply in_map_iff in Hin. destruct Hin as [y [E Hy]]. apply Hf in E. subst y. exact (Hx Hy).
Qed.

Lemma NoDup_firstn {A} n (l : list A) : NoDup l -> NoDup (firstn n l).
Proof.
  revert l. induction n as [|n IH]; intros l H; [constructor|]. destruct l as [|x l]; [constructor|]. inversion H; subst.
  cbn [firstn]. constructor; [|apply IH; assumption]. intros Hin. apply firstn_In in Hin. contradiction.
Qed.

Lemma NoDup_app_disjoint {A} (l r : list A) : NoDup l -> NoDup r -> (forall x, In x l -> ~ In x r) -> NoDup (l ++ r).
Proof.
  intros Hl Hr D. induction Hl as [|x l Hx Hl IH]; [exact Hr|]. cbn [app]. constructor.
  - rewrite in_app_iff. intros [H|H]; [exact (Hx H) | exact (D x (or_introl eq_refl) H)].
  - apply IH. intros y Hy. apply D. right. exact Hy.
Qed.

Lemma wrap_inj (f l a b : str) : f ++ a ++ l = f ++ b ++ l -> a = b.
Proof. intros E. apply app_inv_head in E. apply app_inv_tail in E. exact E. Qed.

Section F.
Variable Q : oracles.

(** the texts the dictionary contributes for a word: the word itself, then the matching slice in table order *)
Definition slice (c : xcfg) (buffer : str) : list str :=
  ds_word c buffer :: map rstr (search_dictionary Q (ds_word c buffer) (ds_word c buffer) (o_kar (x_opts c))).

Definition wrapped (c : xcfg) (buffer : str) (s : str) : str := ds_first c buffer ++ s ++ ds_last c buffer.

(** what is assumed of the data for this composition *)
Record data_ok (c : xcfg) (buffer typed : str) : Prop := {
  ok_slice : repeats_adjacent (slice c buffer);
  ok_emoticon : forall e, emoticon Q typed = Some e -> ~ In e (map (wrapped c buffer) (slice c buffer));
  ok_names : forall es, emoji_bn Q (filter (fun ch => negb (ch =? ZWNJ)) (ds_word c buffer)) = Some es ->
               NoDup es /\ forall e, In e es -> ~ In e (slice c buffer)
}.

Lemma l2_strs c buffer :
  let l1 := dedup_ranks (RFirst (ds_word c buffer) :: search_dictionary Q (ds_word c buffer) (ds_word c buffer) (o_kar (x_opts c))) in
  map rstr (match ds_first c buffer, ds_last c buffer with [], [] => l1 | _, _ => map (wrap (ds_first c buffer) (ds_last c buffer)) l1 end)
  = map (wrapped c buffer) (map rstr l1).
Proof.
  cbn zeta. set (l1 := dedup_ranks _). unfold wrapped.
  assert (G : map rstr (map (wrap (ds_first c buffer) (ds_last c buffer)) l1) = map (fun s => ds_first c buffer ++ s ++ ds_last c buffer) (map rstr l1)).
  { rewrite !map_map. apply map_ext. intros y. apply rstr_wrap. }
  destruct (ds_first c buffer) eqn:Ef, (ds_last c buffer) eqn:El; try exact G.
  rewrite map_map. cbn [app]. rewrite <- (map_id (map rstr l1)) at 1. rewrite map_map. apply map_ext. intros y. rewrite app_nil_r. reflexivity.
Qed.

Lemma l1_subset c buffer s :
  In s (map rstr (dedup_ranks (RFirst (ds_word c buffer) :: search_dictionary Q (ds_word c buffer) (ds_word c buffer) (o_kar (x_opts c))))) -> In s (slice c buffer).
Proof.
  intros H. apply in_map_iff in H. destruct H as [y [<- Hy]]. apply dedup_subset in Hy. unfold slice.
  destruct Hy as [<-|Hy]; [left; reflexivity | right; apply in_map; exact Hy].
Qed.

Lemma ds_l3_nodup c buffer typed : data_ok c buffer typed -> NoDup (map rstr (ds_l3 Q c buffer typed)).
Proof.
  intros [Hs He Hn]. unfold ds_l3.
  set (l1 := dedup_ranks _).
  assert (N1 : NoDup (map rstr l1)) by (apply dedup_ranks_nodup; exact Hs).
  assert (N2 : NoDup (map (wrapped c buffer) (map rstr l1))).
  { apply NoDup_map_inj; [|exact N1]. intros a b. apply wrap_inj. }
  pose proof (l2_strs c buffer) as E2. cbn zeta in E2. fold l1 in E2.
  destruct (x_ansi c); [rewrite E2; exact N2|].
  destruct (emoticon Q typed) as [e|] eqn:Ee.
  - rewrite map_app, E2. apply NoDup_app_one; [exact N2|]. cbn [map rstr]. intros Hin. apply (He e eq_refl).
    apply in_map_iff in Hin. destruct Hin as [s [<- Hs']]. apply in_map. apply l1_subset. exact Hs'.
  - destruct (emoji_bn Q _) as [es|] eqn:En; [|rewrite E2; exact N2].
    destruct (Hn es eq_refl) as [Nes Des]. rewrite map_app, E2, emoji_ranked_strs.
    apply NoDup_app_disjoint; [exact N2 | |].
    + apply NoDup_map_inj; [|exact Nes]. intros a b. apply wrap_inj.
    + intros x Hx Hx'. apply in_map_iff in Hx. destruct Hx as [s [<- Hs']]. apply in_map_iff in Hx'. destruct Hx' as [e' [E' He']].
      apply wrap_inj in E'. subst e'. apply (Des s He'). apply l1_subset. exact Hs'.
Qed.

(** no text occurs twice among the candidates before the raw English item *)
Lemma ds_no_repeats c buffer typed :
  data_ok c buffer typed ->
  let '(l, cut, _) := dictionary_suggestion_parts Q c buffer typed in NoDup (map rstr (firstn cut l)).
Proof.
  intros H. rewrite parts_eq.
  assert (N : NoDup (map rstr (sort_ranks (ds_l3 Q c buffer typed)))).
  { eapply Permutation_NoDup; [|apply ds_l3_nodup; exact H]. apply Permutation_map. apply Permutation_sym. apply sort_perm. }
  destruct (x_english_on c && _); rewrite <- firstn_map; apply NoDup_firstn; exact N.
Qed.

(** and the raw English item, which is only added when it differs from the composed text, differs from the first candidate
    unless smart quotes re-wrote the composed text into it - impossible, the raw text is ASCII - so the whole list is
    repeat-free as soon as the raw text is not one of the other candidates *)
Lemma ds_no_repeats_all c buffer typed :
  data_ok c buffer typed ->
  (let '(l, cut, _) := dictionary_suggestion_parts Q c buffer typed in ~ In typed (map rstr (firstn cut l))) ->
  NoDup (map rstr (dictionary_suggestion Q c buffer typed)).
Proof.
  intros H T. pose proof (ds_no_repeats c buffer typed H) as N. unfold dictionary_suggestion.
  destruct (dictionary_suggestion_parts Q c buffer typed) as [[l cut] tl] eqn:E.
  rewrite parts_eq in E. destruct (x_english_on c && _); injection E as <- <- <-.
  - rewrite map_app. apply NoDup_app_one; [exact N | exact T].
  - rewrite app_nil_r. exact N.
Qed.

End F.

(** a repeat-free slice trivially has its repeats adjacent (the usual case: one dictionary word is listed twice) *)
Lemma nodup_adjacent l : NoDup l -> repeats_adjacent l.
Proof.
  intros N a x m b E. subst l. apply NoDup_remove_2 in N. exfalso. apply N. rewrite !in_app_iff. right. right. left. reflexivity.
Qed.

Fixpoint nodup_b (l : list str) : bool :=
  match l with [] => true | x :: t => negb (existsb (str_eqb x) t) && nodup_b t end.
Lemma nodup_b_ok l : nodup_b l = true -> NoDup l.
Proof.
  induction l as [|x t IH]; intros H; [constructor|]. cbn [nodup_b] in H. apply andb_prop in H. destruct H as [H1 H2].
  constructor; [|apply IH; exact H2]. intros Hin. apply negb_true_iff in H1.
  assert (X : existsb (str_eqb x) t = true) by (apply existsb_exists; exists x; split; [exact Hin | apply str_eqb_refl]). congruence.
Qed.
