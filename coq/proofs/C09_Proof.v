(** Learning a candidate choice and finding it again (C09). *)
From Coq Require Import Lia.
Require Import Riti.model.Base Riti.model.Chars Riti.model.Split Riti.model.Rank Riti.model.Layout Riti.model.Phonetic
        Riti.proofs.Rank_Proof Riti.proofs.Phonetic_Proof Riti.proofs.C05_Proof.

Lemma strip_prefix_app p x : strip_prefix p (p ++ x) = Some x.
Proof. induction p as [|a p IH]; cbn [app strip_prefix]; [reflexivity|]. rewrite N.eqb_refl. exact IH. Qed.

Lemma strip_suffix_app t x : strip_suffix t (x ++ t) = Some x.
Proof. unfold strip_suffix. rewrite rev_app_distr, strip_prefix_app, rev_involutive. reflexivity. Qed.

Lemma assoc_set_same k v l : assocS k (assoc_set k v l) = Some v.
Proof.
  induction l as [|[k' v'] t IH]; cbn [assoc_set assocS]; [rewrite str_eqb_refl; reflexivity|].
  destruct (str_eqb k k') eqn:E; cbn [assocS]; [rewrite str_eqb_refl; reflexivity | rewrite E; exact IH].
Qed.

Lemma str_eqb_sym a b : str_eqb a b = str_eqb b a.
Proof.
  destruct (str_eqb a b) eqn:E.
  - apply str_eqb_eq in E. subst. symmetry. apply str_eqb_refl.
  - destruct (str_eqb b a) eqn:E2; [|reflexivity]. apply str_eqb_eq in E2. subst. rewrite str_eqb_refl in E. discriminate.
Qed.

Lemma assoc_set_other k k2 v l : str_eqb k2 k = false -> assocS k2 (assoc_set k v l) = assocS k2 l.
Proof.
  intros Hne. induction l as [|[k' v'] t IH]; cbn [assoc_set assocS]; [rewrite Hne; reflexivity|].
  destruct (str_eqb k k') eqn:E; cbn [assocS].
  - apply str_eqb_eq in E. subst k'. rewrite Hne. reflexivity.
  - destruct (str_eqb k2 k'); [reflexivity | exact IH].
Qed.

Section C09.
Variable Q : oracles.

(** the candidate without the punctuation put around it *)
Lemma bare_of_wrapped s i x (b : str) :
  nth_error (p_sugg s) i = Some x -> rstr x = fst (p_affix s) ++ b ++ snd (p_affix s) -> bare_suggestion s i = Some b.
Proof. intros Hn Hx. unfold bare_suggestion. rewrite Hn, Hx, strip_prefix_app, strip_suffix_app. reflexivity. Qed.

(** a learning commit stores word -> bare candidate, rewrites the file, ends the word *)
Lemma commit_learns c s i x (b : str) :
  c_suggest c = true -> p_buf s <> [] -> p_prev s <> i ->
  nth_error (p_sugg s) i = Some x -> rstr x = fst (p_affix s) ++ b ++ snd (p_affix s) ->
  exists s', p_commit c s i = Some (s', true) /\ p_buf s' = [] /\ p_uac s' = p_uac s /\
    assocS (sp_word (split (p_buf s) false)) (p_sels s') = Some b /\
    (forall k, str_eqb k (sp_word (split (p_buf s) false)) = false -> assocS k (p_sels s') = assocS k (p_sels s)).
Proof.
  intros Hs Hb Hp Hn Hx. unfold p_commit. rewrite Hs.
  assert (E : Nat.eqb (p_prev s) i = false) by (apply PeanoNat.Nat.eqb_neq; exact Hp). rewrite E.
  destruct (p_buf s) eqn:Eb; [congruence|]. cbn [negb andb]. rewrite (bare_of_wrapped s i x b Hn Hx).
  eexists. split; [reflexivity|]. cbn [p_buf p_uac p_sels]. split; [reflexivity|]. split; [reflexivity|].
  split; [apply assoc_set_same | intros k Hk; apply assoc_set_other; exact Hk].
Qed.

(** committing the preselected candidate changes nothing (and writes nothing) *)
Lemma commit_preselected_noop c s : p_commit c s (p_prev s) = Some (set_buf s [], false).
Proof. unfold p_commit. rewrite PeanoNat.Nat.eqb_refl. reflexivity. Qed.

Lemma find_pos_some sel l : forall k, (exists x, In x l /\ rstr x = sel) -> find_pos sel l k <> None.
Proof.
  induction l as [|y t IH]; intros k [x [Hin Hx]]; [destruct Hin|]. cbn [find_pos].
  destruct (str_eqb (rstr y) sel) eqn:E; [discriminate|]. apply IH. destruct Hin as [->|Hin]; [rewrite Hx, str_eqb_refl in E; discriminate | eauto].
Qed.

(** with a learned entry for the word, the preselected candidate is the learned text in its wrapping - whenever
    that text is in the list at all *)
Lemma learned_is_preselected (sels : list (str * str)) l (pre w tr b : str) :
  assocS w sels = Some b -> (exists x, In x l /\ rstr x = pre ++ b ++ tr) ->
  option_map rstr (nth_error l (prev_selection Q sels l pre w tr)) = Some (pre ++ b ++ tr).
Proof.
  intros Hw Hex. unfold prev_selection. rewrite Hw.
  destruct (find_pos (pre ++ b ++ tr) l 0) as [i|] eqn:E; [|exfalso; eapply find_pos_some; eauto].
  pose proof (find_pos_hit _ _ _ _ E) as H. rewrite PeanoNat.Nat.sub_0_r in H. exact H.
Qed.

(** the word followed by a known suffix, without an entry of its own: the first split point (shortest suffix)
    with a known suffix and a learned base decides, and the joined text is preselected when offered *)
Lemma sel_by_suffix_first (sels : list (str * str)) (w : str) : forall is i (suf base : str),
  (forall j, In j is -> True) ->
  (exists pre_is post_is, is = pre_is ++ i :: post_is /\
     forall j, In j pre_is -> match suffix_of Q (skipn (length w - j) w) with
                              | Some _ => assocS (firstn (length w - j) w) sels = None
                              | None => True end) ->
  suffix_of Q (skipn (length w - i) w) = Some suf -> assocS (firstn (length w - i) w) sels = Some base ->
  sel_by_suffix Q sels w is = join base suf.
Proof.
  intros is i suf base _ (pre_is & post_is & -> & Hpre) Hs Hb.
  induction pre_is as [|j t IH]; cbn [app sel_by_suffix].
  - rewrite Hs, Hb. reflexivity.
  - pose proof (Hpre j (or_introl eq_refl)) as Hj. destruct (suffix_of Q (skipn (length w - j) w)); [rewrite Hj|]; apply IH; intros k Hk; apply Hpre; right; exact Hk.
Qed.

(** read over the split points 1, 2, ... (suffix of one letter, of two, ...): the LONGEST learned base whose remainder is a
    known suffix decides - a shorter learned base is only consulted when no longer one fits *)
Lemma sel_longest_base (sels : list (str * str)) (w : str) (i : nat) (suf base : str) :
  (1 <= i <= length w - 1)%nat ->
  suffix_of Q (skipn (length w - i) w) = Some suf -> assocS (firstn (length w - i) w) sels = Some base ->
  (forall j, (1 <= j < i)%nat -> suffix_of Q (skipn (length w - j) w) = None \/ assocS (firstn (length w - j) w) sels = None) ->
  sel_by_suffix Q sels w (seq 1 (length w - 1)) = join base suf.
Proof.
  intros Hi Hs Hb Hsmaller.
  assert (E : seq 1 (length w - 1) = seq 1 (i - 1) ++ i :: seq (S i) (length w - 1 - i)).
  { replace (length w - 1)%nat with ((i - 1) + (1 + (length w - 1 - i)))%nat at 1 by lia.
    rewrite seq_app. replace (1 + (i - 1))%nat with i by lia. reflexivity. }
  apply (sel_by_suffix_first sels w _ i suf base); [auto | | exact Hs | exact Hb].
  exists (seq 1 (i - 1)), (seq (S i) (length w - 1 - i)). split; [exact E|].
  intros j Hj. apply in_seq in Hj. destruct (Hsmaller j ltac:(lia)) as [H|H]; [rewrite H; exact I|].
  destruct (suffix_of Q (skipn (length w - j) w)); [exact H | exact I].
Qed.

Lemma suffix_learned_is_preselected (sels : list (str * str)) l (pre w tr sel : str) :
  assocS w sels = None -> (2 <= length w)%nat -> sel_by_suffix Q sels w (seq 1 (length w - 1)) = sel ->
  (exists x, In x l /\ rstr x = pre ++ sel ++ tr) ->
  option_map rstr (nth_error l (prev_selection Q sels l pre w tr)) = Some (pre ++ sel ++ tr).
Proof.
  intros Hw Hl Hsel Hex. unfold prev_selection. rewrite Hw. apply PeanoNat.Nat.leb_le in Hl. rewrite Hl, Hsel.
  destruct (find_pos (pre ++ sel ++ tr) l 0) as [i|] eqn:E; [|exfalso; eapply find_pos_some; eauto].
  pose proof (find_pos_hit _ _ _ _ E) as H. rewrite PeanoNat.Nat.sub_0_r in H. exact H.
Qed.

(** the whole round trip inside one context: after the learning commit, typing a text with the same word part
    (so the same list by C05) preselects the learned candidate *)
Lemma learn_then_retype c s i x (b : str) s' :
  c_suggest c = true -> p_buf s <> [] -> p_prev s <> i ->
  nth_error (p_sugg s) i = Some x -> rstr x = fst (p_affix s) ++ b ++ snd (p_affix s) ->
  p_commit c s i = Some (s', true) ->
  forall l (pre tr : str), (exists y, In y l /\ rstr y = pre ++ b ++ tr) ->
    option_map rstr (nth_error l (prev_selection Q (p_sels s') l pre (sp_word (split (p_buf s) false)) tr)) = Some (pre ++ b ++ tr).
Proof.
  intros Hs Hb Hp Hn Hx Hc l pre tr Hex.
  destruct (commit_learns c s i x b Hs Hb Hp Hn Hx) as (s'' & Hc' & _ & _ & Hl & _).
  rewrite Hc in Hc'. inversion Hc'; subst s''. apply learned_is_preselected; assumption.
Qed.

End C09.
