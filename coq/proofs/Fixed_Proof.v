(** The fixed-layout candidate list (C15, C16, C17/C18 fixed parts). *)
From Coq Require Import Lia Permutation Sorted.
Require Import Riti.model.Base Riti.model.Chars Riti.model.Split Riti.model.Rank Riti.model.Layout Riti.model.Phonetic
        Riti.model.FixedCompose Riti.model.FixedSuggest Riti.gen.Gen_Tables
        Riti.proofs.Rank_Proof Riti.proofs.Phonetic_Proof Riti.proofs.C03_Proof Riti.proofs.Lists_Proof Riti.proofs.Order_Proof.

Section F.
Variable Q : oracles.

Definition ds_sp (c : xcfg) (buffer : str) : str * str * str :=
  let sp0 := split buffer true in if x_smart c then smart_quoter sp0 else sp0.
Definition ds_first c b := sp_pre (ds_sp c b).
Definition ds_word c b := sp_word (ds_sp c b).
Definition ds_last c b := sp_trail (ds_sp c b).

(** the list before sorting *)
Definition ds_l3 (c : xcfg) (buffer typed : str) : list rank :=
  let first := ds_first c buffer in let word := ds_word c buffer in let lastp := ds_last c buffer in
  let l1 := dedup_ranks (RFirst word :: search_dictionary Q word word (o_kar (x_opts c))) in
  let l2 := match first, lastp with [], [] => l1 | _, _ => map (wrap first lastp) l1 end in
  if x_ansi c then l2
  else match emoticon Q typed with
       | Some e => l2 ++ [REmoji e 1]
       | None => match emoji_bn Q (filter (fun ch => negb (ch =? ZWNJ)) word) with
                 | Some es => l2 ++ emoji_ranked first lastp es 1
                 | None => l2
                 end
       end.

Lemma parts_eq c buffer typed :
  dictionary_suggestion_parts Q c buffer typed =
  if x_english_on c && negb (str_eqb buffer typed) then (sort_ranks (ds_l3 c buffer typed), 8%nat, Some (RLast typed 1))
  else (sort_ranks (ds_l3 c buffer typed), 9%nat, None).
Proof. reflexivity. Qed.

Lemma ds_eq c buffer typed :
  dictionary_suggestion Q c buffer typed =
  if x_english_on c && negb (str_eqb buffer typed) then firstn 8 (sort_ranks (ds_l3 c buffer typed)) ++ [RLast typed 1]
  else firstn 9 (sort_ranks (ds_l3 c buffer typed)) ++ [].
Proof. unfold dictionary_suggestion. rewrite parts_eq. destruct (x_english_on c && _); reflexivity. Qed.

(** at most nine candidates *)
Lemma ds_length c buffer typed : (length (dictionary_suggestion Q c buffer typed) <= 9)%nat.
Proof.
  rewrite ds_eq. destruct (x_english_on c && _); rewrite app_length, firstn_length; cbn [length]; lia.
Qed.

(** the first candidate is the composed text itself (with smart-quote curling) *)
Lemma ds_l3_head c buffer typed : exists t, ds_l3 c buffer typed = RFirst (ds_first c buffer ++ ds_word c buffer ++ ds_last c buffer) :: t.
Proof.
  unfold ds_l3. set (w := ds_word c buffer). set (f := ds_first c buffer). set (l := ds_last c buffer).
  set (l1 := dedup_ranks _).
  assert (H1 : exists t, l1 = RFirst w :: t) by (unfold l1; cbn [dedup_ranks]; eauto).
  destruct H1 as [t1 E1].
  assert (H2 : exists t, match f, l with [], [] => l1 | _, _ => map (wrap f l) l1 end = RFirst (f ++ w ++ l) :: t).
  { rewrite E1. destruct f eqn:Ef, l eqn:El; cbn [map wrap set_rstr rstr]; eauto. cbn [app]. rewrite app_nil_r. eauto. }
  destruct H2 as [t2 E2]. rewrite E2.
  destruct (x_ansi c); [eauto|]. destruct (emoticon Q typed); [cbn [app]; eauto|]. destruct (emoji_bn Q _); cbn [app]; eauto.
Qed.

Lemma ds_first_candidate c buffer typed :
  hd (RLast [] 0) (dictionary_suggestion Q c buffer typed) = RFirst (ds_first c buffer ++ ds_word c buffer ++ ds_last c buffer).
Proof.
  rewrite ds_eq. destruct (ds_l3_head c buffer typed) as [t E]. rewrite E.
  pose proof (sort_hd_first (ds_first c buffer ++ ds_word c buffer ++ ds_last c buffer) t) as H.
  destruct (sort_ranks (RFirst _ :: t)) as [|x r] eqn:Es.
  { apply (f_equal (@length rank)) in Es. rewrite sort_length in Es. discriminate. }
  cbn [hd] in H. subst x. destruct (x_english_on c && _); reflexivity.
Qed.

(** what the dictionary contributes: words of the first letter's table that begin with the cleaned typed word *)
Lemma strip_prefix_is_prefix : forall p d r, strip_prefix p d = Some r -> is_prefix p d = true.
Proof.
  induction p as [|a p IH]; intros d r H; [reflexivity|]. destruct d as [|b d]; cbn [strip_prefix is_prefix] in *; [discriminate|].
  destruct (a =? b); [cbn [andb]; eapply IH; exact H | discriminate].
Qed.

Lemma search_items word base trad x :
  In x (search_dictionary Q word base trad) ->
  exists table d, assocN (hd 0 word) gen_fixed_tables = Some table /\ In d (dict Q table (clean_string word)) /\
    is_prefix (clean_string word) d = true /\
    x = ROther (if trad then zwnj_kars d else d) (10 * edist Q base (if trad then zwnj_kars d else d)).
Proof.
  unfold search_dictionary. destruct (assocN (hd 0 word) gen_fixed_tables) as [table|]; [|intros []].
  intros H. apply in_map_iff in H. destruct H as [d [<- Hd]]. apply filter_In in Hd. destruct Hd as [Hd Hm].
  exists table, d. split; [reflexivity|]. split; [exact Hd|]. split; [|reflexivity].
  unfold prefix_match in Hm. destruct (strip_prefix (clean_string word) d) as [r|] eqn:E; [|discriminate].
  eapply strip_prefix_is_prefix; exact E.
Qed.

Lemma dedup_from_subset : forall l p x, In x (dedup_from p l) -> In x l.
Proof. induction l as [|y t IH]; intros p x H; cbn [dedup_from] in H; [destruct H|]. destruct (str_eqb _ _); [right; eapply IH; exact H|]. destruct H as [<-|H]; [left; reflexivity | right; eapply IH; exact H]. Qed.
Lemma dedup_subset l x : In x (dedup_ranks l) -> In x l.
Proof. destruct l as [|y t]; [intros []|]. cbn [dedup_ranks]. intros [<-|H]; [left; reflexivity | right; eapply dedup_from_subset; exact H]. Qed.

Lemma firstn_In {A} n (l : list A) x : In x (firstn n l) -> In x l.
Proof. revert l. induction n as [|n IH]; intros l H; [destruct H|]. destruct l; [destruct H|]. destruct H as [<-|H]; [left; reflexivity | right; apply IH; exact H]. Qed.

(** classification of every candidate *)
Inductive fixed_item (c : xcfg) (buffer typed : str) : rank -> Prop :=
| fi_typed x : x = RFirst (ds_first c buffer ++ ds_word c buffer ++ ds_last c buffer) -> fixed_item c buffer typed x
| fi_dict table d x : assocN (hd 0 (ds_word c buffer)) gen_fixed_tables = Some table ->
    In d (dict Q table (clean_string (ds_word c buffer))) -> is_prefix (clean_string (ds_word c buffer)) d = true ->
    let d' := if o_kar (x_opts c) then zwnj_kars d else d in
    x = ROther (ds_first c buffer ++ d' ++ ds_last c buffer) (10 * edist Q (ds_word c buffer) d') -> fixed_item c buffer typed x
| fi_emoji s r : x_ansi c = false -> fixed_item c buffer typed (REmoji s r)
| fi_english : x_english_on c = true -> str_eqb buffer typed = false -> fixed_item c buffer typed (RLast typed 1).

Lemma ds_l3_items c buffer typed x : In x (ds_l3 c buffer typed) -> fixed_item c buffer typed x.
Proof.
  unfold ds_l3. set (w := ds_word c buffer). set (f := ds_first c buffer). set (l := ds_last c buffer).
  assert (L1 : forall y, In y (dedup_ranks (RFirst w :: search_dictionary Q w w (o_kar (x_opts c)))) ->
               y = RFirst w \/ exists table d, assocN (hd 0 w) gen_fixed_tables = Some table /\ In d (dict Q table (clean_string w)) /\ is_prefix (clean_string w) d = true /\
                    y = ROther (if o_kar (x_opts c) then zwnj_kars d else d) (10 * edist Q w (if o_kar (x_opts c) then zwnj_kars d else d))).
  { intros y Hy. apply dedup_subset in Hy. destruct Hy as [<-|Hy]; [left; reflexivity | right; apply search_items; exact Hy]. }
  assert (L2 : forall y, In y (match f, l with [], [] => dedup_ranks (RFirst w :: search_dictionary Q w w (o_kar (x_opts c))) | _, _ => map (wrap f l) (dedup_ranks (RFirst w :: search_dictionary Q w w (o_kar (x_opts c)))) end) -> fixed_item c buffer typed y).
  { intros y Hy.
    assert (S : exists z, In z (dedup_ranks (RFirst w :: search_dictionary Q w w (o_kar (x_opts c)))) /\ y = set_rstr z (f ++ rstr z ++ l)).
    { destruct f eqn:Ef, l eqn:El; try (apply in_map_iff in Hy; destruct Hy as [z [<- Hz]]; exists z; split; [exact Hz | reflexivity]).
      exists y. split; [exact Hy|]. cbn [app]. rewrite app_nil_r. destruct y; reflexivity. }
    destruct S as [z [Hz ->]]. destruct (L1 z Hz) as [->|(table & d & Et & Hd & Hp & ->)].
    - apply fi_typed. reflexivity.
    - eapply fi_dict; eauto. }
  destruct (x_ansi c) eqn:Ha; [apply L2|]. destruct (emoticon Q typed).
  - intros H. apply in_app_iff in H. destruct H as [H|[<-|[]]]; [apply L2; exact H | apply fi_emoji; exact Ha].
  - destruct (emoji_bn Q _); [|apply L2]. intros H. apply in_app_iff in H. destruct H as [H|H]; [apply L2; exact H|].
    clear -H Ha. revert H. generalize 1. induction l0 as [|e t IH]; intros r H; [destruct H|]. cbn [emoji_ranked] in H.
    destruct H as [<-|H]; [apply fi_emoji; exact Ha | eapply IH; exact H].
Qed.

Lemma ds_items c buffer typed : Forall (fixed_item c buffer typed) (dictionary_suggestion Q c buffer typed).
Proof.
  rewrite ds_eq. apply Forall_forall. intros x Hx. destruct (x_english_on c && negb (str_eqb buffer typed)) eqn:E;
    apply in_app_iff in Hx; destruct Hx as [Hx|Hx].
  - apply ds_l3_items. apply (proj1 (sort_In _ _)). eapply firstn_In; exact Hx.
  - destruct Hx as [<-|[]]. apply andb_prop in E. destruct E as [E1 E2]. apply negb_true_iff in E2. apply fi_english; assumption.
  - apply ds_l3_items. apply (proj1 (sort_In _ _)). eapply firstn_In; exact Hx.
  - destruct Hx.
Qed.

(** the candidates before the English item are sorted by the rank key (edit distance for dictionary words) *)
Lemma firstn_sorted {A} (R : A -> A -> Prop) n l : StronglySorted R l -> StronglySorted R (firstn n l).
Proof.
  revert l. induction n as [|n IH]; intros l H; [constructor|]. destruct l; [constructor|]. inversion H; subst. cbn [firstn]. constructor; [apply IH; assumption|].
  rewrite Forall_forall in *. intros x Hx. apply H3. eapply firstn_In; exact Hx.
Qed.
Lemma ds_sorted c buffer typed :
  let '(l, cut, _) := dictionary_suggestion_parts Q c buffer typed in StronglySorted key_le (firstn cut l).
Proof. rewrite parts_eq. destruct (x_english_on c && _); apply firstn_sorted, sort_sorted. Qed.

Lemma ds_english_last c buffer typed :
  x_english_on c = true -> str_eqb buffer typed = false -> last (dictionary_suggestion Q c buffer typed) (RFirst []) = RLast typed 1.
Proof. intros E1 E2. rewrite ds_eq, E1, E2. cbn [negb andb]. apply last_last. Qed.

(** ANSI: neither emoji nor the raw English item *)
Lemma ds_ansi c buffer typed x : x_ansi c = true -> In x (dictionary_suggestion Q c buffer typed) -> is_direct x = true.
Proof.
  intros Ha Hx. pose proof (ds_items c buffer typed) as F. rewrite Forall_forall in F. specialize (F x Hx).
  destruct F as [x -> | table d x _ _ _ d' -> | s r Hf | He _]; try reflexivity; try congruence.
  unfold x_english_on in He. rewrite Ha in He. rewrite andb_false_r in He. discriminate.
Qed.

(** Bengali emoji names: all emoji of the name are put into the list (before the cut), wrapped like the word *)
Lemma ds_emoji_names c buffer typed es e :
  x_ansi c = false -> emoticon Q typed = None -> emoji_bn Q (filter (fun ch => negb (ch =? ZWNJ)) (ds_word c buffer)) = Some es -> In e es ->
  In (ds_first c buffer ++ e ++ ds_last c buffer) (map rstr (sort_ranks (ds_l3 c buffer typed))).
Proof.
  intros Ha He Hn Hin. apply sorted_strs. unfold ds_l3. rewrite Ha, He, Hn. rewrite map_app, in_app_iff. right.
  rewrite emoji_ranked_strs. apply in_map_iff. exists e. auto.
Qed.
Lemma ds_emoticon c buffer typed e :
  x_ansi c = false -> emoticon Q typed = Some e -> In e (map rstr (sort_ranks (ds_l3 c buffer typed))).
Proof. intros Ha He. apply sorted_strs. unfold ds_l3. rewrite Ha, He. rewrite map_app, in_app_iff. right. left. reflexivity. Qed.


(** Bengali names: exactly the emoji of the name, in table order, among the emoji of the sorted list *)
Lemma ds_l2_no_emoji c buffer :
  let l1 := dedup_ranks (RFirst (ds_word c buffer) :: search_dictionary Q (ds_word c buffer) (ds_word c buffer) (o_kar (x_opts c))) in
  filter is_emoji (match ds_first c buffer, ds_last c buffer with [], [] => l1 | _, _ => map (wrap (ds_first c buffer) (ds_last c buffer)) l1 end) = [].
Proof.
  cbn zeta. set (l1 := dedup_ranks _).
  assert (N1 : Forall (fun x => is_emoji x = false) l1).
  { apply Forall_forall. intros x Hx. apply dedup_subset in Hx. destruct Hx as [<-|Hx]; [reflexivity|]. apply search_items in Hx. destruct Hx as (t & d & _ & _ & _ & ->). reflexivity. }
  apply filter_none. destruct (ds_first c buffer), (ds_last c buffer); try exact N1;
    apply Forall_forall; intros x Hx; apply in_map_iff in Hx; destruct Hx as [y [<- Hy]]; rewrite Forall_forall in N1; specialize (N1 y Hy);
    destruct (wrap_class (ds_first c buffer) (ds_last c buffer) y) as (_ & B & _); destruct y; cbn in *; congruence.
Qed.

Lemma ds_names_in_table_order c buffer typed es :
  x_ansi c = false -> emoticon Q typed = None -> emoji_bn Q (filter (fun ch => negb (ch =? ZWNJ)) (ds_word c buffer)) = Some es ->
  filter is_emoji (sort_ranks (ds_l3 c buffer typed)) = emoji_ranked (ds_first c buffer) (ds_last c buffer) es 1.
Proof.
  intros Ha He Hn. unfold ds_l3. rewrite Ha, He, Hn.
  pose proof (ds_l2_no_emoji c buffer) as N. cbn zeta in N.
  match goal with |- filter is_emoji (sort_ranks (?l2 ++ ?em)) = _ =>
    pose proof (emoji_in_table_order l2 (ds_first c buffer) (ds_last c buffer) es [] N eq_refl) as X end.
  rewrite app_nil_r in X. exact X.
Qed.

End F.
