(** History independence of the phonetic suggestions (C05), and with it C06 (phonetic part) and C11. *)
From Coq Require Import Lia.
Require Import Riti.model.Base Riti.model.Chars Riti.model.Split Riti.model.Rank Riti.model.Layout Riti.model.Phonetic
        Riti.proofs.Split_Proof Riti.proofs.Rank_Proof Riti.proofs.Phonetic_Proof.

Section C05.
Variable Q : oracles.

Definition present (m : memo) (k : str) : bool := match assocS k m with Some _ => true | None => false end.
(** [k] can be the word part of a split *)
Definition wordlike (k : str) : Prop := exists b, sp_word (split b false) = k.

(** memo transparency: every entry is the pure function [direct] of its key *)
Definition I1 (uac : list (str * str)) (m : memo) : Prop := forall k v, assocS k m = Some v -> v = direct Q uac k.
(** every key has been the word part of some composition *)
Definition I2 (m : memo) : Prop := forall k, present m k = true -> wordlike k.
(** prefix closure: the word part of every (strict / non-strict) non-empty prefix of the composition is memoised *)
Definition I3 (strict : bool) (m : memo) (buf : str) : Prop :=
  forall j, (0 < j)%nat -> (if strict then (j < length buf)%nat else (j <= length buf)%nat) ->
            present m (sp_word (split (firstn j buf) false)) = true.

Lemma assocS_app {A} k (m : list (str * A)) w d :
  assocS k (m ++ [(w, d)]) = match assocS k m with Some v => Some v | None => if str_eqb k w then Some d else None end.
Proof.
  induction m as [|[k' v'] t IH]; cbn [app assocS]; [destruct (str_eqb k w); reflexivity|].
  destruct (str_eqb k k'); [reflexivity | exact IH].
Qed.

Definition upd (m : memo) (uac : list (str * str)) (w : str) : memo :=
  match assocS w m with Some _ => m | None => m ++ [(w, direct Q uac w)] end.

Lemma upd_w uac m w : I1 uac m -> assocS w (upd m uac w) = Some (direct Q uac w).
Proof.
  intros H. unfold upd. destruct (assocS w m) as [v|] eqn:E.
  - rewrite E. f_equal. apply H. exact E.
  - rewrite assocS_app, E, str_eqb_refl. reflexivity.
Qed.

Lemma upd_mono uac m w k : present m k = true -> present (upd m uac w) k = true.
Proof.
  unfold upd, present. destruct (assocS w m); [auto|]. rewrite assocS_app. destruct (assocS k m); [auto | discriminate].
Qed.

Lemma upd_I1 uac m w : I1 uac m -> I1 uac (upd m uac w).
Proof.
  intros H k v. unfold upd. destruct (assocS w m) eqn:E; [apply H|].
  rewrite assocS_app. destruct (assocS k m) eqn:Ek.
  - intros X. inversion X; subst. apply H. exact Ek.
  - destruct (str_eqb k w) eqn:Ekw; [|discriminate]. apply str_eqb_eq in Ekw. subst. intros X. inversion X. reflexivity.
Qed.

Lemma upd_I2 uac m w : I2 m -> wordlike w -> I2 (upd m uac w).
Proof.
  intros H Hw k. unfold upd, present. destruct (assocS w m) eqn:E; [apply H|].
  rewrite assocS_app. destruct (assocS k m) eqn:Ek.
  - intros _. apply H. unfold present. rewrite Ek. reflexivity.
  - destruct (str_eqb k w) eqn:Ekw; [|discriminate]. apply str_eqb_eq in Ekw. subst. intros _. exact Hw.
Qed.

Lemma upd_present_w uac m w : present (upd m uac w) w = true.
Proof. unfold upd, present. destruct (assocS w m) eqn:E; [rewrite E; reflexivity|]. rewrite assocS_app, E, str_eqb_refl. reflexivity. Qed.

(** the lookups that the suffix step makes agree in any two memos satisfying the invariants *)
Lemma prefix_lookup_eq uac m1 m2 buf i :
  let w := sp_word (split buf false) in
  I1 uac m1 -> I1 uac m2 -> I2 m1 -> I2 m2 -> I3 true m1 buf -> I3 true m2 buf ->
  (1 <= i < length w)%nat ->
  assocS (firstn i w) (upd m1 uac w) = assocS (firstn i w) (upd m2 uac w).
Proof.
  cbn zeta. set (w := sp_word (split buf false)). intros H11 H12 H21 H22 H31 H32 Hi.
  assert (Hw : wordlike w) by (exists buf; reflexivity).
  assert (Hwn : w <> []) by (destruct w; [cbn in Hi; lia | discriminate]).
  set (k := firstn i w).
  assert (Hk : k <> []). { unfold k. destruct w; [congruence|]. destruct i; [lia | discriminate]. }
  (* if k is wordlike, the invariants force it into every memo *)
  assert (Force : forall m, I3 true m buf -> wordlike k -> present (upd m uac w) k = true).
  { intros m H3 [b Hb]. apply upd_mono.
    set (pre0 := sp_pre (split buf false)). set (tr0 := sp_trail (split buf false)).
    assert (Hbuf : buf = pre0 ++ w ++ tr0) by (symmetry; apply split_concat).
    assert (Hpre : forallb is_meta pre0 = true) by (apply split_pre_meta; exact Hwn).
    specialize (H3 (length pre0 + i)%nat).
    assert (F : firstn (length pre0 + i) buf = pre0 ++ k).
    { rewrite Hbuf at 1. rewrite firstn_app_2. f_equal. rewrite firstn_app. replace (i - length w)%nat with 0%nat by lia.
      cbn [firstn]. rewrite app_nil_r. reflexivity. }
    rewrite F in H3.
    assert (S : split (pre0 ++ k) false = (pre0, k, [])).
    { rewrite <- Hb. apply split_word_stable; [rewrite Hb; exact Hk | exact Hpre]. }
    rewrite S in H3. apply H3; [destruct i; lia|].
    rewrite Hbuf, !app_length. lia. }
  destruct (present (upd m1 uac w) k) eqn:P1.
  - assert (Wk : wordlike k) by (apply (upd_I2 uac m1 w H21 Hw); exact P1).
    pose proof (Force m2 H32 Wk) as P2. unfold present in P1, P2.
    destruct (assocS k (upd m1 uac w)) eqn:E1; [|discriminate]. destruct (assocS k (upd m2 uac w)) eqn:E2; [|discriminate].
    rewrite (upd_I1 uac m1 w H11 _ _ E1), (upd_I1 uac m2 w H12 _ _ E2). reflexivity.
  - destruct (present (upd m2 uac w) k) eqn:P2.
    + assert (Wk : wordlike k) by (apply (upd_I2 uac m2 w H22 Hw); exact P2).
      rewrite (Force m1 H31 Wk) in P1. discriminate.
    + unfold present in P1, P2. destruct (assocS k (upd m1 uac w)); [discriminate|]. destruct (assocS k (upd m2 uac w)); [discriminate | reflexivity].
Qed.

Lemma flat_map_ext_in' {A B} (f g : A -> list B) l : (forall x, In x l -> f x = g x) -> flat_map f l = flat_map g l.
Proof. induction l as [|x t IH]; intros H; cbn [flat_map]; [reflexivity|]. rewrite (H x (or_introl eq_refl)), IH; [reflexivity|]. intros y Hy. apply H. right. exact Hy. Qed.

Lemma swd_core_upd m uac w : swd_core Q m uac w = push_checked (fold_left push_checked (add_suffix Q (upd m uac w) w) []) (RLast (conv Q w) 2).
Proof. reflexivity. Qed.

Lemma swd_core_eq uac m1 m2 buf :
  let w := sp_word (split buf false) in
  I1 uac m1 -> I1 uac m2 -> I2 m1 -> I2 m2 -> I3 true m1 buf -> I3 true m2 buf ->
  swd_core Q m1 uac w = swd_core Q m2 uac w.
Proof.
  cbn zeta. set (w := sp_word (split buf false)). intros H11 H12 H21 H22 H31 H32.
  rewrite !swd_core_upd. f_equal. f_equal. unfold add_suffix.
  rewrite (upd_w uac m1 w H11), (upd_w uac m2 w H12). f_equal.
  destruct (Nat.ltb 2 (length w)); [|reflexivity].
  apply flat_map_ext_in'. intros i Hi. apply in_seq in Hi. unfold suffix_items.
  destruct (suffix_of Q (skipn i w)); [|reflexivity].
  unfold w. rewrite (prefix_lookup_eq uac m1 m2 buf i); auto. fold w. lia.
Qed.

(** smart quoting and conversion do not touch the word part *)
Lemma sg_word_is_split c term : sg_word Q c term = sp_word (split term false).
Proof.
  unfold sg_word, sg_sp. destruct (c_smart c); [|reflexivity].
  unfold smart_quoter, sp_word. cbn [fst snd]. destruct (snd (fst (split term false))); reflexivity.
Qed.

Lemma sg_l0_eq c uac m1 m2 buf :
  I1 uac m1 -> I1 uac m2 -> I2 m1 -> I2 m2 -> I3 true m1 buf -> I3 true m2 buf ->
  sg_l0 Q c m1 uac buf = sg_l0 Q c m2 uac buf.
Proof.
  intros. unfold sg_l0. rewrite !swd_eq, sg_word_is_split. rewrite (swd_core_eq uac m1 m2 buf); auto.
Qed.

Lemma sg_l2_eq c uac m1 m2 buf :
  I1 uac m1 -> I1 uac m2 -> I2 m1 -> I2 m2 -> I3 true m1 buf -> I3 true m2 buf ->
  sg_l2 Q c m1 uac buf = sg_l2 Q c m2 uac buf.
Proof. intros. unfold sg_l2, sg_l1. rewrite (sg_l0_eq c uac m1 m2 buf); auto. Qed.

Lemma sg_m_is_upd c m uac term : sg_m Q c m uac term = upd m uac (sp_word (split term false)).
Proof. unfold sg_m. rewrite <- sg_word_is_split with (c := c). reflexivity. Qed.

(** ** states *)
Definition Inv (strict : bool) (s : pstate) : Prop :=
  I1 (p_uac s) (p_memo s) /\ I2 (p_memo s) /\ I3 strict (p_memo s) (p_buf s).

(** what two states must share for all their future outputs to coincide *)
Definition same_core (s1 s2 : pstate) : Prop := p_buf s1 = p_buf s2 /\ p_uac s1 = p_uac s2 /\ p_sels s1 = p_sels s2.
Definition same_view (s1 s2 : pstate) : Prop := p_sugg s1 = p_sugg s2 /\ p_affix s1 = p_affix s2 /\ p_prev s1 = p_prev s2.

(** the suggestion for the current composition is a function of the surviving text, the options, the
    user list and the learned selections - whatever else happened to the two contexts before *)
Lemma create_suggestion_same c s1 s2 :
  c_suggest c = true -> same_core s1 s2 -> Inv true s1 -> Inv true s2 ->
  snd (create_suggestion Q c s1) = snd (create_suggestion Q c s2)
  /\ same_core (fst (create_suggestion Q c s1)) (fst (create_suggestion Q c s2))
  /\ same_view (fst (create_suggestion Q c s1)) (fst (create_suggestion Q c s2))
  /\ Inv false (fst (create_suggestion Q c s1)) /\ Inv false (fst (create_suggestion Q c s2)).
Proof.
  intros Hs (Hb & Hu & Hl) (A1 & A2 & A3) (B1 & B2 & B3).
  destruct (create_suggestion_full Q c s1 Hs) as (l1 & sel1 & O1 & L1 & S1 & G1 & P1 & Bf1 & U1 & Se1 & M1 & Af1).
  destruct (create_suggestion_full Q c s2 Hs) as (l2 & sel2 & O2 & L2 & S2 & G2 & P2 & Bf2 & U2 & Se2 & M2 & Af2).
  assert (EL : l1 = l2).
  { rewrite L1, L2, <- Hb, <- Hu. f_equal. apply sg_l2_eq; auto; rewrite ?Hu, ?Hb; auto. }
  assert (ES : sel1 = sel2) by (rewrite S1, S2, EL, Hl, Hb; reflexivity).
  split; [rewrite O1, O2, EL, ES, Hb; reflexivity|].
  split; [unfold same_core; rewrite Bf1, Bf2, U1, U2, Se1, Se2; auto|].
  split; [unfold same_view; rewrite G1, G2, P1, P2, Af1, Af2, EL, ES, Hb; auto|].
  assert (Post : forall s, I1 (p_uac s) (p_memo s) -> I2 (p_memo s) -> I3 true (p_memo s) (p_buf s) ->
                 Inv false (fst (create_suggestion Q c s))).
  { intros s X1 X2 X3.
    destruct (create_suggestion_full Q c s Hs) as (_ & _ & _ & _ & _ & _ & _ & Bf & U & _ & M & _).
    unfold Inv. rewrite Bf, U, M, sg_m_is_upd. split; [apply upd_I1; exact X1|].
    split; [apply upd_I2; [exact X2 | exists (p_buf s); reflexivity]|].
    intros j Hj Hle. destruct (PeanoNat.Nat.eq_dec j (length (p_buf s))) as [E|E].
    - subst j. rewrite firstn_all. apply upd_present_w.
    - apply upd_mono. apply X3; [exact Hj | lia]. }
  split; apply Post; assumption.
Qed.


(** ** the invariant of every reachable state, and the bisimulation *)
Definition Inv2 (c : pcfg) (s : pstate) : Prop :=
  I1 (p_uac s) (p_memo s) /\ I2 (p_memo s) /\ (c_suggest c = true -> I3 false (p_memo s) (p_buf s)).
(** the stored list, affixes and selection are those of the current composition *)
Definition V (c : pcfg) (s : pstate) : Prop :=
  p_buf s <> [] -> c_suggest c = true -> same_view s (fst (create_suggestion Q c s)).
Definition Good (c : pcfg) (s : pstate) : Prop := Inv2 c s /\ V c s.

Definition R (c : pcfg) (s1 s2 : pstate) : Prop := same_core s1 s2 /\ Good c s1 /\ Good c s2.

Lemma I3_weaken m buf : I3 false m buf -> I3 true m buf.
Proof. intros H j Hj Hl. apply H; [exact Hj | lia]. Qed.

Lemma I3_nil b m : I3 b m [].
Proof. intros j Hj Hl. destruct b; cbn in Hl; lia. Qed.

Lemma I3_snoc m buf ch : I3 false m buf -> I3 true m (buf ++ [ch]).
Proof.
  intros H j Hj Hl. rewrite app_length in Hl. cbn in Hl.
  rewrite firstn_app. replace (j - length buf)%nat with 0%nat by lia. cbn [firstn]. rewrite app_nil_r. apply H; [exact Hj | lia].
Qed.

Lemma firstn_removelast {A} (l : list A) j : (j < length l)%nat -> firstn j (removelast l) = firstn j l.
Proof.
  revert j. induction l as [|x t IH]; intros j Hj; [cbn in Hj; lia|].
  destruct t as [|y t']; [cbn in Hj; assert (j = 0%nat) by lia; subst; reflexivity|].
  destruct j; [reflexivity|]. cbn [removelast firstn]. f_equal. apply IH. cbn in *. lia.
Qed.

Lemma length_removelast {A} (l : list A) : length (removelast l) = (length l - 1)%nat.
Proof. induction l as [|x t IH]; [reflexivity|]. destruct t; [reflexivity|]. cbn [removelast length] in *. rewrite IH. lia. Qed.

Lemma I3_removelast m buf : I3 false m buf -> I3 true m (removelast buf).
Proof.
  intros H j Hj Hl. rewrite length_removelast in Hl. rewrite firstn_removelast by lia. apply H; [exact Hj | lia].
Qed.

Lemma same_view_trans a b c' : same_view a b -> same_view b c' -> same_view a c'.
Proof. unfold same_view. intros (A1 & A2 & A3) (B1 & B2 & B3). rewrite A1, A2, A3. auto. Qed.
Lemma same_view_sym a b : same_view a b -> same_view b a.
Proof. unfold same_view. intros (A1 & A2 & A3). auto. Qed.

(** re-running the suggestion on its own result changes nothing that can be observed *)
Lemma create_good c s :
  c_suggest c = true -> I1 (p_uac s) (p_memo s) -> I2 (p_memo s) -> I3 true (p_memo s) (p_buf s) ->
  Good c (fst (create_suggestion Q c s)).
Proof.
  intros Hs X1 X2 X3.
  assert (Hcore : same_core s s) by (unfold same_core; auto).
  destruct (create_suggestion_same c s s Hs Hcore (conj X1 (conj X2 X3)) (conj X1 (conj X2 X3))) as (_ & _ & _ & Post & _).
  set (s' := fst (create_suggestion Q c s)) in *.
  split.
  - destruct Post as (P1 & P2 & P3). split; [exact P1|]. split; [exact P2 | intros _; exact P3].
  - intros _ _.
    destruct Post as (P1 & P2 & P3).
    destruct (create_suggestion_full Q c s Hs) as (_ & _ & _ & _ & _ & _ & _ & Bf & U & Se & _ & _).
    assert (Hc2 : same_core s s') by (unfold same_core, s'; rewrite Bf, U, Se; auto).
    destruct (create_suggestion_same c s s' Hs Hc2 (conj X1 (conj X2 X3)) (conj P1 (conj P2 (I3_weaken _ _ P3)))) as (_ & _ & Vw & _ & _).
    exact Vw.
Qed.

Lemma good_set_buf_nil c s : Inv2 c s -> Good c (set_buf s []).
Proof.
  intros (A1 & A2 & _). split; [|intros H; cbn in H; congruence].
  split; [exact A1|]. split; [exact A2 | intros _; apply I3_nil].
Qed.

(** two good states with the same core show the same list *)
Lemma good_same_view c s1 s2 : same_core s1 s2 -> Good c s1 -> Good c s2 -> p_buf s1 <> [] -> c_suggest c = true -> same_view s1 s2.
Proof.
  intros Hc ((A1 & A2 & A3) & V1) ((B1 & B2 & B3) & V2) Hb Hs.
  pose proof Hc as (Eb & _ & _).
  destruct (create_suggestion_same c s1 s2 Hs Hc (conj A1 (conj A2 (I3_weaken _ _ (A3 Hs)))) (conj B1 (conj B2 (I3_weaken _ _ (B3 Hs)))))
    as (_ & _ & Vw & _ & _).
  eapply same_view_trans; [apply V1; assumption|]. eapply same_view_trans; [exact Vw|].
  apply same_view_sym, V2; [rewrite <- Eb; exact Hb | exact Hs].
Qed.

(** creating the suggestion in two related states *)
Lemma create_related c s1 s2 :
  same_core s1 s2 ->
  I1 (p_uac s1) (p_memo s1) -> I2 (p_memo s1) -> (c_suggest c = true -> I3 true (p_memo s1) (p_buf s1)) ->
  I1 (p_uac s2) (p_memo s2) -> I2 (p_memo s2) -> (c_suggest c = true -> I3 true (p_memo s2) (p_buf s2)) ->
  snd (create_suggestion Q c s1) = snd (create_suggestion Q c s2) /\
  R c (fst (create_suggestion Q c s1)) (fst (create_suggestion Q c s2)).
Proof.
  intros Hc A1 A2 A3 B1 B2 B3. destruct (c_suggest c) eqn:Hs.
  - destruct (create_suggestion_same c s1 s2 Hs Hc (conj A1 (conj A2 (A3 eq_refl))) (conj B1 (conj B2 (B3 eq_refl)))) as (O & C & _ & _ & _).
    split; [exact O|]. split; [exact C|]. split; apply create_good; auto.
  - rewrite !(create_suggestion_single Q c _ Hs). cbn [fst snd]. destruct Hc as (Eb & Eu & El).
    split; [rewrite Eb; reflexivity|]. split; [unfold same_core; auto|].
    split; (split; [split; [assumption | split; [assumption | intros X; congruence]] | intros _ X; congruence]).
Qed.

Lemma bisim_key c s1 s2 k selb :
  R c s1 s2 ->
  snd (p_key Q c s1 k selb) = snd (p_key Q c s2 k selb) /\ R c (fst (p_key Q c s1 k selb)) (fst (p_key Q c s2 k selb)).
Proof.
  intros HR. pose proof HR as (Hc & ((A1 & A2 & A3) & V1) & ((B1 & B2 & B3) & V2)). pose proof Hc as (Eb & Eu & El).
  unfold p_key. destruct (keycode_to_char k) as [ch|].
  - assert (Hc' : same_core (set_buf s1 (p_buf s1 ++ [ch])) (set_buf s2 (p_buf s2 ++ [ch]))).
    { unfold same_core. cbn. rewrite Eb, Eu, El. auto. }
    destruct (create_related c _ _ Hc') as (O & Rn); cbn [set_buf p_buf p_uac p_memo]; auto;
      try (intros X; apply I3_snoc; auto).
    destruct (create_suggestion Q c (set_buf s1 (p_buf s1 ++ [ch]))) as [s1' o1].
    destruct (create_suggestion Q c (set_buf s2 (p_buf s2 ++ [ch]))) as [s2' o2]. cbn [fst snd] in *.
    subst o2. split; [reflexivity | exact Rn].
  - assert (CR : snd (create_suggestion Q c s1) = snd (create_suggestion Q c s2) /\ R c (fst (create_suggestion Q c s1)) (fst (create_suggestion Q c s2))).
    { apply create_related; auto; intros X; apply I3_weaken; auto. }
    rewrite <- Eb. destruct (p_buf s1); [cbn [fst snd]; split; [reflexivity | exact HR] | exact CR].
Qed.

Lemma bisim_backspace c s1 s2 ctrl :
  R c s1 s2 ->
  snd (p_backspace Q c s1 ctrl) = snd (p_backspace Q c s2 ctrl) /\ R c (fst (p_backspace Q c s1 ctrl)) (fst (p_backspace Q c s2 ctrl)).
Proof.
  intros HR. pose proof HR as (Hc & ((A1 & A2 & A3) & V1) & ((B1 & B2 & B3) & V2)). pose proof Hc as (Eb & Eu & El).
  assert (Nil : R c (set_buf s1 []) (set_buf s2 [])).
  { split; [unfold same_core; cbn; auto|]. split; apply good_set_buf_nil; split; auto. }
  unfold p_backspace. rewrite <- Eb. destruct (p_buf s1) as [|x t] eqn:E1.
  - cbn [fst snd]. split; [reflexivity | exact HR].
  - 
    destruct ctrl; [cbn [fst snd]; split; [reflexivity | exact Nil]|].
    destruct (removelast (x :: t)) as [|y r] eqn:Er; [cbn [fst snd]; split; [reflexivity | exact Nil]|].
    assert (Hc' : same_core (set_buf s1 (y :: r)) (set_buf s2 (y :: r))) by (unfold same_core; cbn; auto).
    assert (CR : snd (create_suggestion Q c (set_buf s1 (y :: r))) = snd (create_suggestion Q c (set_buf s2 (y :: r))) /\
                 R c (fst (create_suggestion Q c (set_buf s1 (y :: r)))) (fst (create_suggestion Q c (set_buf s2 (y :: r))))).
    { apply (create_related c _ _ Hc'); cbn [set_buf p_buf p_uac p_memo]; auto.
      + intros X. rewrite <- Er. apply I3_removelast; auto.
      + intros X. rewrite <- Er, Eb. apply I3_removelast; auto. }
    destruct CR as (O & Rn). cbn zeta. rewrite <- O.
    destruct (out_empty (snd (create_suggestion Q c (set_buf s1 (y :: r))))); cbn [fst snd]; [|split; [exact O | exact Rn]].
    split; [reflexivity|].
    destruct Rn as (Hc2 & (I2a & _) & (I2b & _)). destruct Hc2 as (_ & Eu2 & El2).
    split; [unfold same_core; cbn; auto|]. split; apply good_set_buf_nil; assumption.
Qed.

Lemma bisim_commit c s1 s2 i :
  R c s1 s2 ->
  match p_commit c s1 i, p_commit c s2 i with
  | Some (s1', w1), Some (s2', w2) => w1 = w2 /\ R c s1' s2'
  | None, None => True
  | _, _ => False
  end.
Proof.
  intros (Hc & G1 & G2). pose proof Hc as (Eb & Eu & El).
  pose proof G1 as ((A1 & A2 & A3) & V1). pose proof G2 as ((B1 & B2 & B3) & V2).
  assert (Nil : R c (set_buf s1 []) (set_buf s2 [])).
  { split; [unfold same_core; cbn; auto|]. split; apply good_set_buf_nil; split; auto. }
  unfold p_commit. rewrite <- Eb.
  destruct (p_buf s1) as [|x t] eqn:E1.
  { rewrite !andb_false_r. cbv iota. split; [reflexivity | exact Nil]. }
  destruct (c_suggest c) eqn:Hs.
  2:{ rewrite !andb_false_r. cbn [andb]. cbv iota. split; [reflexivity | exact Nil]. }
  assert (Hne : p_buf s1 <> []) by (rewrite E1; discriminate).
  destruct (good_same_view c s1 s2 Hc G1 G2 Hne Hs) as (Sg & Af & Pv).
  rewrite <- Pv. rewrite !andb_true_r.
  destruct (negb (Nat.eqb (p_prev s1) i)); cbv iota.
  - unfold bare_suggestion. rewrite <- Sg, <- Af. destruct (nth_error (p_sugg s1) i); [|exact I].
    split; [reflexivity|]. rewrite <- El.
    split; [unfold same_core; cbn; auto|].
    split; (split; [split; [assumption | split; [assumption | intros _; apply I3_nil]] | intros X; cbn in X; congruence]).
  - split; [reflexivity | exact Nil].
Qed.

Lemma bisim_update c c' s1 s2 reload :
  R c s1 s2 -> p_buf s1 = [] -> R c' (p_update s1 reload) (p_update s2 reload).
Proof.
  intros (Hc & ((A1 & A2 & A3) & V1) & ((B1 & B2 & B3) & V2)) Hb. pose proof Hc as (Eb & Eu & El).
  unfold p_update. destruct reload as [uac'|].
  - split; [unfold same_core; cbn; auto|].
    split; (split; [split; [intros k v X; cbn in X; discriminate | split; [intros k X; unfold present in X; cbn in X; discriminate |
                     intros _; cbn [p_buf]; rewrite ?Hb, <- ?Eb, ?Hb; apply I3_nil]] | intros X; cbn [p_buf] in X; rewrite <- ?Eb, ?Hb in X; congruence]).
  - split; [exact Hc|]. split; (split; [split; [assumption | split; [assumption | intros _; rewrite <- ?Eb, Hb; apply I3_nil]] | intros X; rewrite <- ?Eb, Hb in X; congruence]).
Qed.

(** ** events and histories *)
Definition in_contract (s : pstate) (e : pevent) : Prop :=
  match e with PUpdate _ _ => p_buf s = [] | _ => True end.

Lemma bisim_step c s1 s2 e :
  R c s1 s2 -> in_contract s1 e ->
  match p_step Q c s1 e, p_step Q c s2 e with
  | Some (c1, s1', o1), Some (c2, s2', o2) => c1 = c2 /\ o1 = o2 /\ R c1 s1' s2'
  | None, None => True
  | _, _ => False
  end.
Proof.
  intros HR Hin. destruct e as [k selb | ctrl | i | | c' reload]; cbn [p_step].
  - destruct (bisim_key c s1 s2 k selb HR) as (O & Rn).
    destruct (p_key Q c s1 k selb), (p_key Q c s2 k selb). cbn [fst snd] in *. auto.
  - destruct (bisim_backspace c s1 s2 ctrl HR) as (O & Rn).
    destruct (p_backspace Q c s1 ctrl), (p_backspace Q c s2 ctrl). cbn [fst snd] in *. auto.
  - pose proof (bisim_commit c s1 s2 i HR) as H.
    destruct (p_commit c s1 i) as [[s1' w1]|], (p_commit c s2 i) as [[s2' w2]|]; try exact H. destruct H as (_ & H). auto.
  - destruct HR as (Hc & ((A1 & A2 & A3) & V1) & ((B1 & B2 & B3) & V2)). pose proof Hc as (Eb & Eu & El).
    split; [reflexivity|]. split; [reflexivity|]. split; [unfold same_core; cbn; auto|]. split; apply good_set_buf_nil; split; auto.
  - split; [reflexivity|]. split; [reflexivity|]. apply (bisim_update c c' s1 s2 reload HR Hin).
Qed.

Lemma good_new c uac sels : Good c (p_new uac sels).
Proof.
  split; [|intros X; cbn in X; congruence].
  split; [intros k v X; cbn in X; discriminate|]. split; [intros k X; unfold present in X; cbn in X; discriminate | intros _; apply I3_nil].
Qed.

(** every state reached from a new context by in-contract events is Good *)
Inductive Reach (uac0 sels0 : list (str * str)) : pcfg -> pstate -> Prop :=
| reach_new c : Reach uac0 sels0 c (p_new uac0 sels0)
| reach_step c s e c' s' o : Reach uac0 sels0 c s -> in_contract s e -> p_step Q c s e = Some (c', s', o) -> Reach uac0 sels0 c' s'
| reach_cfg c c' s : Reach uac0 sels0 c s -> p_buf s = [] -> Reach uac0 sels0 c' s.

Lemma good_cfg c c' s : Good c s -> p_buf s = [] -> Good c' s.
Proof.
  intros ((A1 & A2 & A3) & V1) Hb. split; [split; [assumption | split; [assumption | intros _; rewrite Hb; apply I3_nil]] | intros X; congruence].
Qed.

Lemma reach_good uac0 sels0 c s : Reach uac0 sels0 c s -> Good c s.
Proof.
  induction 1 as [c | c s e c' s' o Hr IH Hin Hst | c c' s Hr IH Hb].
  - apply good_new.
  - assert (HR : R c s s) by (split; [unfold same_core; auto | split; exact IH]).
    pose proof (bisim_step c s s e HR Hin) as H. rewrite Hst in H. destruct H as (_ & _ & (_ & G & _)). exact G.
  - eapply good_cfg; eauto.
Qed.

(** run two related states through the same history *)
Fixpoint hist_ok (c : pcfg) (s : pstate) (h : list pevent) : Prop :=
  match h with
  | [] => True
  | e :: t => in_contract s e /\ match p_step Q c s e with Some (c', s', _) => hist_ok c' s' t | None => True end
  end.

Lemma bisim_run : forall h c s1 s2, R c s1 s2 -> hist_ok c s1 h ->
  match p_run Q c s1 h, p_run Q c s2 h with
  | Some (_, _, o1), Some (_, _, o2) => o1 = o2
  | None, None => True
  | _, _ => False
  end.
Proof.
  induction h as [|e t IH]; intros c s1 s2 HR Hok; cbn [p_run]; [reflexivity|].
  destruct Hok as [Hin Hrest]. pose proof (bisim_step c s1 s2 e HR Hin) as H.
  destruct (p_step Q c s1 e) as [[[c1 s1'] o1]|], (p_step Q c s2 e) as [[[c2 s2'] o2]|]; try (exfalso; exact H); [|exact I].
  destruct H as (-> & -> & HR'). specialize (IH c2 s1' s2' HR' Hrest).
  assert (Eo : p_ongoing s1' = p_ongoing s2'). { destruct HR' as ((Eb & _) & _). unfold p_ongoing. rewrite Eb. reflexivity. }
  destruct (p_run Q c2 s1' t) as [[[? ?] outs1]|], (p_run Q c2 s2' t) as [[[? ?] outs2]|]; try exact IH.
  rewrite IH, Eo. reflexivity.
Qed.

End C05.
