(** Facts about the rank comparator and the stable sort of model/Rank.v. *)
From Coq Require Import Lia Permutation Sorted.
Require Import Riti.model.Base Riti.model.Rank.

(** The comparator is the lexicographic comparison of a key: class (First < Emoji/Other < Last), then number. *)
Definition rank_tier (x : rank) : N := match x with RFirst _ => 0 | REmoji _ _ | ROther _ _ => 1 | RLast _ _ => 2 end.
Definition rank_num (x : rank) : N := match x with RFirst _ => 0 | REmoji _ r | ROther _ r | RLast _ r => r end.
Definition key_le (a b : rank) : Prop :=
  rank_tier a < rank_tier b \/ (rank_tier a = rank_tier b /\ rank_num a <= rank_num b).

Lemma rank_le_key a b : rank_le a b = true <-> key_le a b.
Proof.
  unfold rank_le, key_le.
  destruct a as [s|s r|s r|s r], b as [s'|s' r'|s' r'|s' r']; cbn [rank_cmp rank_tier rank_num];
    try (destruct (N.compare_spec r r') as [Hc|Hc|Hc]); split; intros Hx; try reflexivity; try discriminate; try lia.
Qed.

Lemma key_le_total a b : key_le a b \/ key_le b a.
Proof. unfold key_le. lia. Qed.
Lemma key_le_trans a b c : key_le a b -> key_le b c -> key_le a c.
Proof. unfold key_le. lia. Qed.
Lemma key_le_refl a : key_le a a.
Proof. unfold key_le. lia. Qed.

Lemma rank_le_total a b : rank_le a b = true \/ rank_le b a = true.
Proof. rewrite !rank_le_key. apply key_le_total. Qed.
Lemma rank_le_false a b : rank_le a b = false -> key_le b a.
Proof. intros H. destruct (rank_le_total a b) as [T|T]; [congruence | apply rank_le_key; exact T]. Qed.

(** ** insertion and sort: permutation *)
Lemma insert_perm x l : Permutation (insert_rank x l) (x :: l).
Proof.
  induction l as [|y t IH]; cbn [insert_rank]; [reflexivity|].
  destruct (rank_le y x); [|reflexivity].
  rewrite IH. apply perm_swap.
Qed.

Lemma sort_fold_perm l acc : Permutation (fold_left (fun a x => insert_rank x a) l acc) (l ++ acc).
Proof.
  revert acc. induction l as [|x t IH]; intros acc; cbn [fold_left app]; [reflexivity|].
  rewrite IH. rewrite insert_perm. symmetry. apply Permutation_middle.
Qed.

Lemma sort_perm l : Permutation (sort_ranks l) l.
Proof. unfold sort_ranks. rewrite sort_fold_perm, app_nil_r. reflexivity. Qed.

Lemma sort_In x l : In x (sort_ranks l) <-> In x l.
Proof. split; apply Permutation_in; [apply sort_perm | symmetry; apply sort_perm]. Qed.

Lemma sort_length l : length (sort_ranks l) = length l.
Proof. apply Permutation_length, sort_perm. Qed.

(** ** sortedness *)
Lemma insert_sorted x l : StronglySorted key_le l -> StronglySorted key_le (insert_rank x l).
Proof.
  induction l as [|y t IH]; intros Hs; cbn [insert_rank].
  - constructor; constructor.
  - inversion Hs as [|? ? Ht Hall]; subst. destruct (rank_le y x) eqn:E.
    + constructor; [apply IH; exact Ht|].
      apply rank_le_key in E.
      rewrite Forall_forall in *. intros z Hz. apply (Permutation_in _ (insert_perm x t)) in Hz.
      destruct Hz as [<-|Hz]; [exact E | apply Hall; exact Hz].
    + apply rank_le_false in E. constructor; [exact Hs|].
      constructor; [exact E|]. rewrite Forall_forall in *. intros z Hz. eapply key_le_trans; [exact E | apply Hall; exact Hz].
Qed.

Lemma sort_fold_sorted l acc : StronglySorted key_le acc -> StronglySorted key_le (fold_left (fun a x => insert_rank x a) l acc).
Proof. revert acc. induction l as [|x t IH]; intros acc H; cbn [fold_left]; [exact H | apply IH, insert_sorted, H]. Qed.

Lemma sort_sorted l : StronglySorted key_le (sort_ranks l).
Proof. apply sort_fold_sorted. constructor. Qed.

(** ** push_checked *)
Lemma push_checked_In l x y : In y l -> In y (push_checked l x).
Proof. unfold push_checked. destruct (rank_mem x l); [auto | intros H; apply in_or_app; auto]. Qed.

Lemma str_eqb_eq a b : str_eqb a b = true <-> a = b.
Proof.
  revert b. induction a as [|x a IH]; intros [|y b]; cbn [str_eqb]; try (split; [discriminate | discriminate]); [tauto|].
  rewrite andb_true_iff, N.eqb_eq, IH. split; [intros [-> ->]; reflexivity | intros H; inversion H; auto].
Qed.
Lemma str_eqb_refl a : str_eqb a a = true. Proof. apply str_eqb_eq. reflexivity. Qed.

Lemma push_checked_has l x : exists y, In y (push_checked l x) /\ rstr y = rstr x.
Proof.
  unfold push_checked, rank_mem. destruct (existsb _ l) eqn:E.
  - apply existsb_exists in E. destruct E as [y [Hy Hs]]. apply str_eqb_eq in Hs. eauto.
  - exists x. split; [apply in_or_app; right; left; reflexivity | reflexivity].
Qed.

Lemma push_checked_nonempty l x : push_checked l x <> [].
Proof. destruct (push_checked_has l x) as [y [H _]]. intros E. rewrite E in H. exact H. Qed.

(** strings of a push_checked-built list are pairwise distinct *)
Definition strs (l : list rank) : list str := map rstr l.

Lemma rank_mem_false_notin x l : rank_mem x l = false -> ~ In (rstr x) (strs l).
Proof.
  unfold rank_mem, strs. intros E H. apply in_map_iff in H. destruct H as [y [Hs Hy]].
  assert (existsb (fun y0 => str_eqb (rstr y0) (rstr x)) l = true).
  { apply existsb_exists. exists y. split; [exact Hy | apply str_eqb_eq; exact Hs]. }
  congruence.
Qed.

Lemma NoDup_app_one {A} (l : list A) (x : A) : NoDup l -> ~ In x l -> NoDup (l ++ [x]).
Proof.
  induction l as [|y t IH]; intros Hn Hx; cbn [app]; [constructor; [intros []| constructor]|].
  inversion Hn; subst. constructor.
  - rewrite in_app_iff. intros [H|[H|[]]]; [contradiction | subst; apply Hx; left; reflexivity].
  - apply IH; [assumption | intros H; apply Hx; right; exact H].
Qed.

Lemma push_checked_nodup l x : NoDup (strs l) -> NoDup (strs (push_checked l x)).
Proof.
  intros H. unfold push_checked. destruct (rank_mem x l) eqn:E; [exact H|].
  unfold strs. rewrite map_app. cbn [map]. apply NoDup_app_one; [exact H | apply rank_mem_false_notin; exact E].
Qed.
