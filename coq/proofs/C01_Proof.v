(** No in-contract event can make the model panic (C01): the only partial operation of the model is the
    commit, which indexes the stored candidate list; the stored list is the most recently returned one. *)
From Coq Require Import Lia.
Require Import Riti.model.Base Riti.model.Chars Riti.model.Split Riti.model.Rank Riti.model.Layout Riti.model.Phonetic
        Riti.gen.Gen_Tables Riti.proofs.TablesAgree Riti.proofs.Rank_Proof Riti.proofs.Phonetic_Proof Riti.proofs.C03_Proof.

Section C01.
Variable Q : oracles.

Definition commit_in_range (c : pcfg) (s : pstate) (e : pevent) : Prop :=
  match e with
  | PCommit i => p_buf s <> [] -> c_suggest c = true -> (i < length (p_sugg s))%nat
  | _ => True
  end.

Lemma step_total c s e : commit_in_range c s e -> p_step Q c s e <> None.
Proof.
  destruct e as [k selb | ctrl | i | | c' r]; cbn [p_step commit_in_range]; intros H.
  - destruct (p_key Q c s k selb). discriminate.
  - destruct (p_backspace Q c s ctrl). discriminate.
  - unfold p_commit. destruct (c_suggest c) eqn:Hs; [|rewrite andb_false_r; cbn; discriminate].
    destruct (p_buf s) eqn:Eb; [rewrite andb_false_r; discriminate|].
    destruct (negb (Nat.eqb (p_prev s) i)); cbn [andb]; [|discriminate].
    unfold bare_suggestion. destruct (nth_error (p_sugg s) i) eqn:En; [discriminate|].
    apply nth_error_None in En. assert (i < length (p_sugg s))%nat by (apply H; [discriminate | reflexivity]). lia.
  - discriminate.
  - discriminate.
Qed.

(** the list a key or backspace event returns is the list a following commit indexes *)
Lemma returned_is_stored_create c s aux l sel ansi :
  snd (create_suggestion Q c s) = OFull aux l sel ansi -> map rstr (p_sugg (fst (create_suggestion Q c s))) = l.
Proof.
  destruct (c_suggest c) eqn:Hs.
  - destruct (create_suggestion_full Q c s Hs) as (l' & sel' & Ho & _ & _ & Hg & _). rewrite Ho, Hg. intros X. inversion X. reflexivity.
  - rewrite (create_suggestion_single Q c s Hs). cbn. discriminate.
Qed.

Lemma returned_is_stored_key c s k selb aux l sel ansi :
  snd (p_key Q c s k selb) = OFull aux l sel ansi -> map rstr (p_sugg (fst (p_key Q c s k selb))) = l.
Proof.
  unfold p_key. destruct (keycode_to_char k) as [ch|].
  - pose proof (returned_is_stored_create c (set_buf s (p_buf s ++ [ch]))) as H.
    destruct (create_suggestion Q c (set_buf s (p_buf s ++ [ch]))) as [s' o]. cbn [fst snd] in *.
    destruct o as [a l0 s0 an| |]; try discriminate.
    intros X. assert (l0 = l) by (destruct (mem ch echo_chars); inversion X; reflexivity). subst. eapply H. reflexivity.
  - destruct (p_buf s); [cbn; discriminate | apply returned_is_stored_create].
Qed.

Lemma returned_is_stored_backspace c s ctrl aux l sel ansi :
  snd (p_backspace Q c s ctrl) = OFull aux l sel ansi -> map rstr (p_sugg (fst (p_backspace Q c s ctrl))) = l.
Proof.
  unfold p_backspace. destruct (p_buf s); [cbn; discriminate|]. destruct ctrl; [cbn; discriminate|].
  destruct (removelast (n :: s0)) as [|y r]; [cbn; discriminate|]. cbn zeta.
  pose proof (returned_is_stored_create c (set_buf s (y :: r)) aux l sel ansi) as H.
  destruct (out_empty (snd (create_suggestion Q c (set_buf s (y :: r))))); cbn [fst snd]; [|exact H].
  intros X. rewrite <- (H X). destruct (fst (create_suggestion Q c (set_buf s (y :: r)))); reflexivity.
Qed.

(** the composition only ever holds ASCII characters (what makes byte slicing of it safe) *)
Definition ascii (s : str) : Prop := Forall (fun ch => ch < 128) s.

Lemma keychar_ascii k ch : keycode_to_char k = Some ch -> ch < 128.
Proof.
  unfold keycode_to_char. pose proof keychars_ascii as H. rewrite forallb_forall in H.
  induction gen_keychar as [|[k' c'] t IH]; cbn [assocN]; [discriminate|].
  destruct (N.eqb k k').
  - intros X. inversion X; subst. specialize (H (k', ch) (or_introl eq_refl)). cbn in H. apply N.ltb_lt in H. exact H.
  - apply IH. intros x Hx. apply H. right. exact Hx.
Qed.

Lemma removelast_Forall {A} (P : A -> Prop) l : Forall P l -> Forall P (removelast l).
Proof. induction 1 as [|x t Hx Ht IH]; [constructor|]. destruct t; [constructor|]. cbn [removelast]. constructor; [exact Hx | exact IH]. Qed.

Lemma create_buf c s : p_buf (fst (create_suggestion Q c s)) = p_buf s.
Proof.
  destruct (c_suggest c) eqn:Hs.
  - destruct (create_suggestion_full Q c s Hs) as (_ & _ & _ & _ & _ & _ & _ & Hb & _). exact Hb.
  - rewrite (create_suggestion_single Q c s Hs). reflexivity.
Qed.

Lemma step_ascii c s e c' s' o : ascii (p_buf s) -> p_step Q c s e = Some (c', s', o) -> ascii (p_buf s').
Proof.
  intros Ha. destruct e as [k selb | ctrl | i | | cc r]; cbn [p_step].
  - unfold p_key. destruct (keycode_to_char k) as [ch|] eqn:Ek.
    + pose proof (create_buf c (set_buf s (p_buf s ++ [ch]))) as Hb.
      destruct (create_suggestion Q c (set_buf s (p_buf s ++ [ch]))) as [s1 o1]. cbn [fst] in Hb.
      intros X. inversion X; subst. rewrite Hb. cbn [set_buf p_buf]. apply Forall_app. split; [exact Ha|].
      constructor; [eapply keychar_ascii; eauto | constructor].
    + destruct (p_buf s) eqn:Eb.
      * intros X. inversion X; subst. rewrite Eb. constructor.
      * pose proof (create_buf c s) as Hb. destruct (create_suggestion Q c s) as [s1 o1]. cbn [fst] in Hb.
        intros X. inversion X; subst. rewrite Hb, Eb. exact Ha.
  - unfold p_backspace. destruct (p_buf s) eqn:Eb.
    + intros X. inversion X; subst. rewrite Eb. constructor.
    + destruct ctrl; [intros X; inversion X; subst; constructor|].
      destruct (removelast (n :: s0)) eqn:Er; [intros X; inversion X; subst; constructor|].
      pose proof (create_buf c (set_buf s (n0 :: l))) as Hb. destruct (create_suggestion Q c (set_buf s (n0 :: l))) as [s1 o1]. cbn [fst snd] in *.
      destruct (out_empty o1); intros X; inversion X; subst; [destruct s1; constructor|].
      rewrite Hb. cbn [set_buf p_buf]. rewrite <- Er. apply removelast_Forall. exact Ha.
  - unfold p_commit. destruct (negb _ && _ && _).
    + destruct (bare_suggestion s i); intros X; inversion X; subst. constructor.
    + intros X. inversion X; subst. constructor.
  - intros X. inversion X; subst. constructor.
  - intros X. inversion X; subst. unfold p_update. destruct r; exact Ha.
Qed.


(** the composition (what the auxiliary text shows) as a function of the events alone *)
Definition compose_step (buf : str) (e : pevent) : str :=
  match e with
  | PKey k _ => match keycode_to_char k with Some ch => buf ++ [ch] | None => buf end
  | PBackspace true => []
  | PBackspace false => removelast buf
  | PCommit _ | PFinish => []
  | PUpdate _ _ => buf
  end.

(** ... with one exception: a backspace whose result is an empty suggestion although characters are left (they display as
    nothing) ends the word, so that "empty suggestion" and "no session" always go together *)
Lemma buffer_is_composition c s e c' s' o :
  p_step Q c s e = Some (c', s', o) ->
  p_buf s' = compose_step (p_buf s) e \/ (e = PBackspace false /\ out_empty o = true /\ p_buf s' = []).
Proof.
  destruct e as [k selb | ctrl | i | | cc r]; cbn [p_step compose_step].
  - intros X0. left. revert X0. unfold p_key. destruct (keycode_to_char k) as [ch|].
    + pose proof (create_buf c (set_buf s (p_buf s ++ [ch]))) as Hb.
      destruct (create_suggestion Q c (set_buf s (p_buf s ++ [ch]))) as [s1 o1]. cbn [fst] in Hb. intros X. inversion X; subst. exact Hb.
    + destruct (p_buf s) eqn:Eb; [intros X; inversion X; subst; exact Eb|].
      pose proof (create_buf c s) as Hb. destruct (create_suggestion Q c s) as [s1 o1]. cbn [fst] in Hb. intros X. inversion X; subst. rewrite Hb. exact Eb.
  - unfold p_backspace. destruct (p_buf s) eqn:Eb.
    + intros X. inversion X; subst. left. rewrite Eb. destruct ctrl; reflexivity.
    + destruct ctrl; [intros X; inversion X; left; reflexivity|].
      destruct (removelast (n :: s0)) eqn:Er; [intros X; inversion X; left; reflexivity|].
      pose proof (create_buf c (set_buf s (n0 :: l))) as Hb. destruct (create_suggestion Q c (set_buf s (n0 :: l))) as [s1 o1]. cbn [fst snd] in *.
      destruct (out_empty o1) eqn:Eo; intros X; inversion X; subst.
      * right. split; [reflexivity|]. split; [exact Eo | destruct s1; reflexivity].
      * left. exact Hb.
  - intros X0. left. revert X0. unfold p_commit. destruct (negb _ && _ && _); [destruct (bare_suggestion s i)|]; intros X; inversion X; reflexivity.
  - intros H. left. inversion H; reflexivity.
  - intros H. left. inversion H. unfold p_update. destruct r; reflexivity.
Qed.

End C01.
