From Coq Require Import Lia ZifyBool ZifyN.
Require Import Riti.model.Base Riti.model.Chars Riti.model.Split Riti.model.Rank Riti.model.Layout Riti.model.Phonetic
        Riti.gen.Gen_Tables Riti.proofs.TablesAgree Riti.proofs.Split_Proof Riti.proofs.Rank_Proof Riti.proofs.Phonetic_Proof.

Definition alnum (c : N) : bool := ((48 <=? c) && (c <=? 57)) || ((65 <=? c) && (c <=? 90)) || ((97 <=? c) && (c <=? 122)).

Lemma alnum_sweep :
  forallb (fun c => negb (alnum c) || (negb (is_meta c) && negb (c =? BACKTICK) && negb (c =? COLON))) (rangeN 48 75) = true.
Proof. vm_compute. reflexivity. Qed.

Lemma alnum_plain c : alnum c = true -> is_meta c = false /\ (c =? BACKTICK) = false /\ (c =? COLON) = false.
Proof.
  intros H. pose proof alnum_sweep as S. rewrite forallb_forall in S.
  assert (Hin : In c (rangeN 48 75)).
  { apply rangeN_spec. unfold alnum in H. lia. }
  specialize (S c Hin). rewrite H in S. cbn [negb orb] in S.
  apply andb_prop in S. destruct S as [S H3]. apply andb_prop in S. destruct S as [H1 H2].
  apply negb_true_iff in H1, H2, H3. auto.
Qed.

(** the listed punctuation: META without the danda *)
Definition punct_chars : list N := [45;93;126;33;64;35;37;38;42;40;41;95;61;43;91;123;125;39;34;59;60;62;47;63;124;46;44].
Lemma punct_is_meta : forallb is_meta punct_chars = true. Proof. vm_compute. reflexivity. Qed.
Lemma punct_str_meta s : forallb (fun c => mem c punct_chars) s = true -> forallb is_meta s = true.
Proof.
  intros H. rewrite forallb_forall in *. intros c Hc. specialize (H c Hc).
  pose proof punct_is_meta as P. rewrite forallb_forall in P. apply P.
  unfold mem in H. apply existsb_exists in H. destruct H as [x [Hx E]]. apply N.eqb_eq in E. subst. exact Hx.
Qed.

Lemma hd_in_forallb {A} (f : A -> bool) (d : A) l : l <> [] -> forallb f l = true -> f (hd d l) = true.
Proof. destruct l; [congruence|]. cbn. intros _ H. apply andb_prop in H. tauto. Qed.
Lemma last_in_forallb {A} (f : A -> bool) (d : A) l : l <> [] -> forallb f l = true -> f (last l d) = true.
Proof.
  intros Hn H. rewrite forallb_forall in H. apply H. destruct l as [|x t]; [congruence|].
  clear. revert x. induction t as [|y t IH]; intros x; [left; reflexivity|]. right. cbn [last]. apply IH.
Qed.

(** splitting a letters-and-digits word wrapped in the listed punctuation *)
Lemma split_alnum l w r ic :
  forallb (fun c => mem c punct_chars) l = true -> forallb (fun c => mem c punct_chars) r = true ->
  w <> [] -> forallb alnum w = true ->
  split (l ++ w ++ r) ic = (l, w, r).
Proof.
  intros Hl Hr Hw Ha.
  destruct (alnum_plain _ (hd_in_forallb alnum 0 w Hw Ha)) as (H1 & _ & _).
  destruct (alnum_plain _ (last_in_forallb alnum 0 w Hw Ha)) as (H2 & H3 & H4).
  apply split_wrapped; auto using punct_str_meta. rewrite H4. apply andb_false_r.
Qed.

Section C03.
Variable Q : oracles.

Lemma lonely_wrapped l w r :
  forallb (fun c => mem c punct_chars) l = true -> forallb (fun c => mem c punct_chars) r = true ->
  w <> [] -> forallb alnum w = true ->
  suggest_only_phonetic Q (l ++ w ++ r) = conv Q l ++ conv Q w ++ conv Q r.
Proof. intros. unfold suggest_only_phonetic. rewrite split_alnum by assumption. reflexivity. Qed.

(** the transliteration of the split parts is always a candidate *)
Lemma swd_core_has_translit m uac w : In (conv Q w) (map rstr (swd_core Q m uac w)).
Proof.
  unfold swd_core.
  match goal with |- In _ (map rstr (push_checked ?l ?x)) => destruct (push_checked_has l x) as [y [Hy Hs]] end.
  apply in_map_iff. exists y. split; [exact Hs | exact Hy].
Qed.

Lemma rstr_set x s : rstr (set_rstr x s) = s. Proof. destruct x; reflexivity. Qed.

Lemma l0_has_translit c m uac term :
  In (sg_pre Q c term ++ conv Q (sg_word Q c term) ++ sg_tr Q c term) (map rstr (sg_l0 Q c m uac term)).
Proof.
  unfold sg_l0. rewrite swd_eq. pose proof (swd_core_has_translit m uac (sg_word Q c term)) as H.
  destruct (sg_pre Q c term) eqn:Ep, (sg_tr Q c term) eqn:Et.
  - cbn [app]. rewrite app_nil_r. exact H.
  - rewrite map_map. apply in_map_iff in H. destruct H as [y [Hy Hin]]. apply in_map_iff. exists y. split; [|exact Hin].
    unfold wrap. rewrite rstr_set, Hy. reflexivity.
  - rewrite map_map. apply in_map_iff in H. destruct H as [y [Hy Hin]]. apply in_map_iff. exists y. split; [|exact Hin].
    unfold wrap. rewrite rstr_set, Hy. reflexivity.
  - rewrite map_map. apply in_map_iff in H. destruct H as [y [Hy Hin]]. apply in_map_iff. exists y. split; [|exact Hin].
    unfold wrap. rewrite rstr_set, Hy. reflexivity.
Qed.

Lemma in_strs_push l x s : In s (map rstr l) -> In s (map rstr (push_checked l x)).
Proof. intros H. apply in_map_iff in H. destruct H as [y [Hy Hin]]. apply in_map_iff. exists y. split; [exact Hy | apply push_checked_In; exact Hin]. Qed.

Lemma in_strs_app_l l r s : In s (map rstr l) -> In s (map rstr (l ++ r)).
Proof. rewrite map_app, in_app_iff. auto. Qed.

Lemma l2_keeps_l0 c m uac term s : In s (map rstr (sg_l0 Q c m uac term)) -> In s (map rstr (sg_l2 Q c m uac term)).
Proof.
  intros H. unfold sg_l2, sg_l1. destruct (c_ansi c).
  { destruct (english_on c && _ && _); [apply in_strs_push|]; exact H. }
  destruct (emoticon Q term).
  { destruct (english_on c && _ && _); [apply in_strs_push|]; apply in_strs_app_l;
      destruct (str_eqb term _); try exact H; apply in_strs_push; exact H. }
  destruct (emoji_name Q _).
  { destruct (english_on c && _ && _); [apply in_strs_push|]; apply in_strs_app_l; exact H. }
  destruct (english_on c && _ && _); [apply in_strs_push|]; exact H.
Qed.

Lemma sorted_strs l s : In s (map rstr (sort_ranks l)) <-> In s (map rstr l).
Proof.
  split; intros H; apply in_map_iff in H; destruct H as [y [Hy Hin]]; apply in_map_iff; exists y; (split; [exact Hy|]);
    apply sort_In; exact Hin.
Qed.

Lemma translit_is_candidate c m uac sels term :
  let '(_, l, _, _) := suggest Q c m uac sels term in
  In (sg_pre Q c term ++ conv Q (sg_word Q c term) ++ sg_tr Q c term) (map rstr l).
Proof. rewrite suggest_eq. apply sorted_strs, l2_keeps_l0, l0_has_translit. Qed.

End C03.

(** every typeable ASCII character has a key, and every key of riti.h types the character its name says *)
Lemma typeable_have_keys :
  forallb (fun c => existsb (fun kc => snd kc =? c) gen_keychar) (rangeN 33 94) = true.
Proof. vm_compute. reflexivity. Qed.
Lemma keychars_ascii : forallb (fun kc => snd kc <? 128) gen_keychar = true.
Proof. vm_compute. reflexivity. Qed.
