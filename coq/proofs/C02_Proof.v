From Coq Require Import Lia Permutation.
Require Import Riti.model.Base Riti.model.Chars Riti.model.Split Riti.model.Rank Riti.model.Layout Riti.model.Phonetic
        Riti.model.FixedCompose Riti.model.FixedSuggest Riti.proofs.Rank_Proof Riti.proofs.Phonetic_Proof.

Section C02.
Variable Q : oracles.

(** well-formedness of one returned suggestion; [echo] = the caller's selection was echoed *)
Definition full_ok (buf : str) (echo : option nat) (o : output) : Prop :=
  match o with
  | OFull aux l sel _ => l <> [] /\ aux = buf /\ ((sel < length l)%nat \/ echo = Some sel)
  | OSingle _ _ => True
  | OUnit => False
  end.

Lemma create_ok c s : full_ok (p_buf s) None (snd (create_suggestion Q c s)) /\ p_buf (fst (create_suggestion Q c s)) = p_buf s.
Proof.
  destruct (c_suggest c) eqn:Hs.
  - destruct (create_suggestion_full Q c s Hs) as (l & sel & Ho & Hl & Hsel & _ & _ & Hb & _).
    rewrite Ho, Hb. split; [|reflexivity]. cbn [full_ok].
    assert (Hne : l <> []).
    { rewrite Hl. intros E. apply (f_equal (@length rank)) in E. rewrite sort_length in E.
      pose proof (sg_l2_nonempty Q c (p_memo s) (p_uac s) (p_buf s)) as N. destruct (sg_l2 Q c _ _ _); [congruence | discriminate]. }
    split; [apply map_nonempty; exact Hne|]. split; [reflexivity|]. left.
    rewrite map_length, Hsel. apply prev_selection_lt. exact Hne.
  - rewrite (create_suggestion_single Q c s Hs). cbn [fst snd full_ok]. auto.
Qed.

Lemma set_buf_buf s b : p_buf (set_buf s b) = b. Proof. reflexivity. Qed.

(** a key event *)
Lemma p_key_ok c s k selb :
  let r := p_key Q c s k selb in
  full_ok (p_buf (fst r))
          (match keycode_to_char k with Some ch => if mem ch echo_chars then Some (N.to_nat selb) else None | None => None end)
          (snd r)
  /\ p_buf (fst r) = match keycode_to_char k with Some ch => p_buf s ++ [ch] | None => p_buf s end.
Proof.
  cbn zeta. unfold p_key. destruct (keycode_to_char k) as [ch|].
  - pose proof (create_ok c (set_buf s (p_buf s ++ [ch]))) as [Hf Hb].
    destruct (create_suggestion Q c (set_buf s (p_buf s ++ [ch]))) as [s' out]. cbn [fst snd] in *.
    rewrite set_buf_buf in *. split; [|exact Hb]. rewrite Hb.
    destruct out as [aux l sel ansi| |]; cbn [full_ok] in *; try exact Hf.
    destruct Hf as (Hl & Ha & Hsel). destruct (mem ch echo_chars); cbn [full_ok].
    + split; [exact Hl|]. split; [exact Ha|]. right. reflexivity.
    + split; [exact Hl|]. split; [exact Ha|]. destruct Hsel as [H|H]; [left; exact H | discriminate].
  - destruct (p_buf s) eqn:Eb.
    + cbn [fst snd full_ok]. auto.
    + pose proof (create_ok c s) as [Hf Hb]. rewrite Hb. split; [exact Hf | exact Eb].
Qed.

Lemma p_backspace_ok c s ctrl :
  let r := p_backspace Q c s ctrl in full_ok (p_buf (fst r)) None (snd r).
Proof.
  cbn zeta. unfold p_backspace. destruct (p_buf s) eqn:Eb; [cbn; auto|].
  destruct ctrl; [cbn; auto|]. destruct (removelast (n :: s0)) eqn:Er; [cbn; auto|].
  pose proof (create_ok c (set_buf s (n0 :: l))) as [Hf Hb].
  destruct (create_suggestion Q c (set_buf s (n0 :: l))) as [s' o]. cbn [fst snd] in *.
  destruct (out_empty o) eqn:Eo; cbn [fst snd].
  - destruct o as [aux l' sel ansi|t a|]; cbn [out_empty] in Eo; try discriminate.
    + destruct l'; [|discriminate]. cbn [full_ok] in Hf. destruct Hf as (Hl & _). congruence.
    + cbn [full_ok]. exact I.
  - rewrite Hb. exact Hf.
Qed.

(** ** fixed method *)
Lemma dedup_nonempty x t : dedup_ranks (x :: t) <> []. Proof. discriminate. Qed.

Lemma firstn_nonempty {A} (n : nat) (l : list A) : l <> [] -> (0 < n)%nat -> firstn n l <> [].
Proof. destruct l, n; try congruence; try lia; discriminate. Qed.

Lemma dictionary_suggestion_nonempty c buffer typed : dictionary_suggestion Q c buffer typed <> [].
Proof.
  unfold dictionary_suggestion, dictionary_suggestion_parts.
  set (sp := if x_smart c then _ else _).
  set (l1 := dedup_ranks _).
  assert (H1 : l1 <> []) by apply dedup_nonempty.
  set (l2 := match sp_pre sp, sp_trail sp with [], [] => l1 | _, _ => map _ l1 end).
  assert (H2 : l2 <> []).
  { unfold l2. destruct (sp_pre sp), (sp_trail sp); try exact H1; apply map_nonempty; exact H1. }
  set (l3 := if x_ansi c then l2 else _).
  assert (H3 : l3 <> []).
  { unfold l3. destruct (x_ansi c); [exact H2|]. destruct (emoticon Q typed); [apply app_nonempty_l; exact H2|].
    destruct (emoji_bn Q _); [apply app_nonempty_l; exact H2 | exact H2]. }
  assert (H4 : sort_ranks l3 <> []).
  { intros E. apply (f_equal (@length rank)) in E. rewrite sort_length in E. destruct l3; [congruence | discriminate]. }
  destruct (x_english_on c && negb (str_eqb buffer typed)); apply app_nonempty_l; apply firstn_nonempty; try exact H4; lia.
Qed.

(** the stored list is non-empty whenever it can be shown again *)
Definition x_inv (c : xcfg) (s : xstate) : Prop := x_rb s = [] \/ x_suggest c = false \/ x_sugg s <> [].

Definition xfull_ok (buf : str) (o : output) : Prop :=
  match o with
  | OFull aux l sel _ => l <> [] /\ aux = buf /\ (sel < length l)%nat
  | OSingle _ _ => True
  | OUnit => False
  end.

Lemma x_create_ok c s :
  xfull_ok (x_buffer s) (snd (x_create Q c s)) /\ x_inv c (fst (x_create Q c s)) /\ x_buffer (fst (x_create Q c s)) = x_buffer s.
Proof.
  unfold x_create. destruct (x_suggest c) eqn:Hs; cbn [fst snd xfull_ok].
  - pose proof (dictionary_suggestion_nonempty c (x_buffer s) (x_typed s)) as N. repeat split.
    + apply map_nonempty; exact N.
    + rewrite map_length. destruct (dictionary_suggestion Q c _ _); [congruence | cbn; lia].
    + right. right. exact N.
  - repeat split. right. left. exact Hs.
Qed.

Lemma x_key_ok L c s k m :
  x_inv c s ->
  let r := x_key Q L c s k m in xfull_ok (x_buffer (fst r)) (snd r) /\ x_inv c (fst r).
Proof.
  intros Hi. cbn zeta. unfold x_key. destruct (get_char_for_key L k (altgr_of m) (x_numpad c)) as [v|].
  - destruct (process_key_value _ _ _ v) as [rb p].
    match goal with |- context [x_create Q c ?st] => pose proof (x_create_ok c st) as (H1 & H2 & H3) end.
    rewrite H3. split; [exact H1 | exact H2].
  - cbn [fst snd]. split; [|exact Hi]. unfold x_current. destruct (x_rb s) eqn:Er; [cbn; auto|].
    destruct (x_suggest c) eqn:Hs; cbn [xfull_ok]; [|auto].
    destruct Hi as [H|[H|H]]; [congruence | congruence|].
    repeat split; [apply map_nonempty; exact H | rewrite map_length; destruct (x_sugg s); [congruence | cbn; lia]].
Qed.

Lemma x_backspace_ok c s ctrl :
  x_inv c s ->
  let r := x_backspace Q c s ctrl in xfull_ok (x_buffer (fst r)) (snd r) /\ x_inv c (fst r).
Proof.
  intros Hi. cbn zeta. unfold x_backspace.
  assert (Hclr : forall sg, x_inv c {| x_rb := []; x_typed := []; x_pend := None; x_sugg := sg |}) by (intros; left; reflexivity).
  destruct (x_rb s) eqn:Er, ctrl; cbn [fst snd].
  - destruct (x_pend s); cbn [fst snd xfull_ok]; [split; [auto | apply Hclr] | split; [auto | exact Hi]].
  - destruct (x_pend s); cbn [fst snd xfull_ok]; [split; [auto | apply Hclr] | split; [auto | exact Hi]].
  - split; [cbn; auto | left; reflexivity].
  - destruct (x_pend s).
    + match goal with |- context [x_create Q c ?st] => pose proof (x_create_ok c st) as (H1 & H2 & H3) end.
      rewrite H3. split; [exact H1 | exact H2].
    + destruct l.
      * cbn [fst snd xfull_ok]. split; [auto | apply Hclr].
      * match goal with |- context [x_create Q c ?st] => pose proof (x_create_ok c st) as (H1 & H2 & H3) end.
        rewrite H3. split; [exact H1 | exact H2].
Qed.

End C02.
