(** What the assembled candidate lists contain and in which order (C07, C08, C16, C18). *)
From Coq Require Import Lia Permutation Sorted.
Require Import Riti.model.Base Riti.model.Chars Riti.model.Split Riti.model.Rank Riti.model.Layout Riti.model.Phonetic
        Riti.model.FixedCompose Riti.model.FixedSuggest
        Riti.proofs.Split_Proof Riti.proofs.Rank_Proof Riti.proofs.Phonetic_Proof Riti.proofs.C03_Proof Riti.proofs.C05_Proof.

(** ** generic list facts *)
Lemma fold_push_subset xs : forall acc y, In y (fold_left push_checked xs acc) -> In y acc \/ In y xs.
Proof.
  induction xs as [|x t IH]; intros acc y H; cbn [fold_left] in H; [left; exact H|].
  apply IH in H. destruct H as [H|H]; [|right; right; exact H].
  unfold push_checked in H. destruct (rank_mem x acc); [left; exact H|].
  apply in_app_iff in H. destruct H as [H|[H|[]]]; [left; exact H | right; left; exact H].
Qed.

Lemma fold_push_acc xs : forall acc y, In y acc -> In y (fold_left push_checked xs acc).
Proof. induction xs as [|x t IH]; intros acc y H; cbn [fold_left]; [exact H | apply IH, push_checked_In, H]. Qed.

(** every element offered to push_checked is represented (by an element with the same text) *)
Lemma fold_push_has xs : forall acc x, In x xs -> exists y, In y (fold_left push_checked xs acc) /\ rstr y = rstr x.
Proof.
  induction xs as [|a t IH]; intros acc x H; [destruct H|]. cbn [fold_left]. destruct H as [->|H]; [|apply IH; exact H].
  destruct (push_checked_has acc x) as [y [Hy Hs]]. exists y. split; [apply fold_push_acc; exact Hy | exact Hs].
Qed.

Lemma fold_push_hd xs : forall a acc, hd a (fold_left push_checked xs (a :: acc)) = a.
Proof.
  induction xs as [|x t IH]; intros a acc; cbn [fold_left]; [reflexivity|].
  unfold push_checked. destruct (rank_mem x (a :: acc)); [apply IH|]. cbn [app]. apply IH.
Qed.

Lemma fold_push_nodup xs : forall acc, NoDup (strs acc) -> NoDup (strs (fold_left push_checked xs acc)).
Proof. induction xs as [|x t IH]; intros acc H; cbn [fold_left]; [exact H | apply IH, push_checked_nodup, H]. Qed.

(** ** rank classes *)
Definition is_emoji (x : rank) : bool := match x with REmoji _ _ => true | _ => false end.
(** what can be offered under ANSI: no emoji, no emoticon literal (Last 1), no raw English (Last 3) *)
Definition plain (x : rank) : bool := match x with REmoji _ _ => false | RLast _ r => r =? 2 | _ => true end.
(** direct candidates: auto-correct entry or dictionary word *)
Definition is_direct (x : rank) : bool := match x with RFirst _ | ROther _ _ => true | _ => false end.

Lemma set_rstr_class x s : is_direct (set_rstr x s) = is_direct x /\ plain (set_rstr x s) = plain x /\ is_emoji (set_rstr x s) = is_emoji x
                           /\ rank_tier (set_rstr x s) = rank_tier x /\ rank_num (set_rstr x s) = rank_num x.
Proof. destruct x; cbn; auto. Qed.

Section L.
Variable Q : oracles.

Lemma direct_is_direct uac w : Forall (fun x => is_direct x = true) (direct Q uac w).
Proof.
  unfold direct. apply Forall_app. split.
  - destruct (search_corrected Q uac w); repeat constructor.
  - apply Forall_forall. intros x Hx. apply in_flat_map in Hx. destruct Hx as [t [_ Hx]]. apply in_map_iff in Hx. destruct Hx as [s [<- _]]. reflexivity.
Qed.

(** the items add_suffix delivers, under memo transparency *)
Lemma add_suffix_items uac m w x :
  I1 Q uac m -> In x (add_suffix Q m w) ->
  In x (direct Q uac w) \/
  exists i b suf, (1 <= i < length w)%nat /\ suffix_of Q (skipn i w) = Some suf /\ In b (direct Q uac (firstn i w)) /\
                  x = set_rstr b (join (rstr b) suf).
Proof.
  intros H1 Hx. unfold add_suffix in Hx. apply in_app_iff in Hx. destruct Hx as [Hx|Hx].
  - left. destruct (assocS w m) eqn:E; [|destruct Hx]. rewrite <- (H1 w l E). exact Hx.
  - right. destruct (Nat.ltb 2 (length w)); [|destruct Hx]. apply in_flat_map in Hx. destruct Hx as [i [Hi Hx]]. apply in_seq in Hi.
    unfold suffix_items in Hx. destruct (suffix_of Q (skipn i w)) as [suf|] eqn:Es; [|destruct Hx].
    destruct (assocS (firstn i w) m) as [cache|] eqn:Ec; [|destruct Hx]. apply in_map_iff in Hx. destruct Hx as [b [<- Hb]].
    exists i, b, suf. split; [lia|]. split; [exact Es|]. split; [rewrite <- (H1 _ _ Ec); exact Hb | reflexivity].
Qed.

Lemma swd_core_items uac m w x :
  I1 Q uac m -> In x (swd_core Q m uac w) ->
  x = RLast (conv Q w) 2 \/ In x (direct Q uac w) \/
  exists i b suf, (1 <= i < length w)%nat /\ suffix_of Q (skipn i w) = Some suf /\ In b (direct Q uac (firstn i w)) /\
                  x = set_rstr b (join (rstr b) suf).
Proof.
  intros H1 Hx. rewrite swd_core_upd in Hx. unfold push_checked in Hx.
  assert (Hf : In x (fold_left push_checked (add_suffix Q (upd Q m uac w) w) []) -> 
               In x (direct Q uac w) \/ exists i b suf, (1 <= i < length w)%nat /\ suffix_of Q (skipn i w) = Some suf /\ In b (direct Q uac (firstn i w)) /\ x = set_rstr b (join (rstr b) suf)).
  { intros H. apply fold_push_subset in H. destruct H as [[]|H]. eapply add_suffix_items; [apply upd_I1; exact H1 | exact H]. }
  destruct (rank_mem _ _); [right; apply Hf; exact Hx|].
  apply in_app_iff in Hx. destruct Hx as [Hx|[<-|[]]]; [right; apply Hf; exact Hx | left; reflexivity].
Qed.

(** every item of the dictionary part of the list is a direct candidate or the transliteration *)
Lemma swd_core_plain uac m w : I1 Q uac m -> Forall (fun x => plain x = true) (swd_core Q m uac w).
Proof.
  intros H1. apply Forall_forall. intros x Hx. destruct (swd_core_items uac m w x H1 Hx) as [->|[H|(i & b & suf & _ & _ & Hb & ->)]]; [reflexivity| |].
  - pose proof (direct_is_direct uac w) as D. rewrite Forall_forall in D. specialize (D x H). destruct x; cbn in *; congruence.
  - pose proof (direct_is_direct uac (firstn i w)) as D. rewrite Forall_forall in D. specialize (D b Hb). destruct b; cbn in *; congruence.
Qed.

Lemma sg_l0_in c m uac term x :
  In x (sg_l0 Q c m uac term) -> exists y, In y (swd_core Q m uac (sg_word Q c term)) /\
     (x = y \/ x = wrap (sg_pre Q c term) (sg_tr Q c term) y).
Proof.
  unfold sg_l0. rewrite swd_eq. destruct (sg_pre Q c term), (sg_tr Q c term); intros H;
    try (apply in_map_iff in H; destruct H as [y [<- Hy]]; exists y; split; [exact Hy | right; reflexivity]).
  exists x. split; [exact H | left; reflexivity].
Qed.

Lemma wrap_class p t y : plain (wrap p t y) = plain y /\ is_emoji (wrap p t y) = is_emoji y /\ is_direct (wrap p t y) = is_direct y.
Proof. unfold wrap. destruct (set_rstr_class y (p ++ rstr y ++ t)) as (A & B & C & _). auto. Qed.

(** *** C16: under ANSI nothing but direct candidates and the transliteration is ever listed *)
Lemma ansi_list_plain c m uac sels term :
  c_ansi c = true -> I1 Q uac m ->
  let '(_, l, _, _) := suggest Q c m uac sels term in Forall (fun x => plain x = true) l.
Proof.
  intros Ha H1. rewrite suggest_eq. apply Forall_forall. intros x Hx. apply (proj1 (sort_In _ _)) in Hx.
  unfold sg_l2, sg_l1 in Hx. rewrite Ha in Hx. unfold english_on in Hx. rewrite Ha in Hx. cbn [negb andb] in Hx. rewrite andb_false_r in Hx. cbn [andb] in Hx.
  apply sg_l0_in in Hx. destruct Hx as [y [Hy Hxy]].
  pose proof (swd_core_plain uac m (sg_word Q c term) H1) as P. rewrite Forall_forall in P. specialize (P y Hy).
  destruct Hxy as [->| ->]; [exact P|]. destruct (wrap_class (sg_pre Q c term) (sg_tr Q c term) y) as (A & _). rewrite A. exact P.
Qed.

(** *** C18: an emoticon's emoji and the literal text *)
Lemma emoticon_offered c m uac sels term e :
  c_ansi c = false -> emoticon Q term = Some e ->
  let '(_, l, _, _) := suggest Q c m uac sels term in
  In e (map rstr l) /\ (In term (map rstr l) \/ term = sg_pre Q c term).
Proof.
  intros Ha He. rewrite suggest_eq. unfold sg_l2, sg_l1. rewrite Ha, He. rewrite andb_false_r. cbn [andb].
  split.
  - apply sorted_strs. rewrite map_app, in_app_iff. right. left. reflexivity.
  - destruct (str_eqb term (sg_pre Q c term)) eqn:E; [right; apply str_eqb_eq; exact E|]. left.
    apply sorted_strs. apply in_strs_app_l.
    destruct (push_checked_has (sg_l0 Q c m uac term) (RLast term 1)) as [y [Hy Hs]]. apply in_map_iff. exists y. split; [exact Hs | exact Hy].
Qed.

(** all emoji of a name are offered, wrapped like the word *)
Lemma emoji_ranked_strs pre tr es : forall r, map rstr (emoji_ranked pre tr es r) = map (fun e => pre ++ e ++ tr) es.
Proof. induction es as [|e t IH]; intros r; cbn [emoji_ranked map]; [reflexivity | rewrite IH; reflexivity]. Qed.

Lemma emoji_names_offered c m uac sels term es :
  c_ansi c = false -> emoticon Q term = None -> emoji_name Q (sg_word Q c term) = Some es ->
  let '(_, l, _, _) := suggest Q c m uac sels term in
  forall e, In e es -> In (sg_pre Q c term ++ e ++ sg_tr Q c term) (map rstr l).
Proof.
  intros Ha He Hn. rewrite suggest_eq. intros e Hin. apply sorted_strs. unfold sg_l2, sg_l1. rewrite Ha, He, Hn.
  assert (H : In (sg_pre Q c term ++ e ++ sg_tr Q c term) (map rstr (sg_l0 Q c m uac term ++ emoji_ranked (sg_pre Q c term) (sg_tr Q c term) es 1))).
  { rewrite map_app, in_app_iff. right. rewrite emoji_ranked_strs. apply in_map_iff. exists e. auto. }
  destruct (english_on c && negb false && _); [apply in_strs_push|]; exact H.
Qed.

(** *** C08 *)
(** soundness: every candidate is the transliteration, an emoji / emoticon literal / raw English item, a direct
    candidate of the typed word, or a direct candidate of a proper non-empty prefix joined to the known suffix *)
Inductive justified (c : pcfg) (uac : list (str * str)) (term : str) : rank -> Prop :=
| j_translit x : rstr x = sg_pre Q c term ++ conv Q (sg_word Q c term) ++ sg_tr Q c term -> justified c uac term x
| j_extra x : plain x = false -> justified c uac term x
| j_direct b x : In b (direct Q uac (sg_word Q c term)) -> rstr x = sg_pre Q c term ++ rstr b ++ sg_tr Q c term -> justified c uac term x
| j_suffix i b suf x : (1 <= i < length (sg_word Q c term))%nat -> suffix_of Q (skipn i (sg_word Q c term)) = Some suf ->
    In b (direct Q uac (firstn i (sg_word Q c term))) ->
    rstr x = sg_pre Q c term ++ join (rstr b) suf ++ sg_tr Q c term -> justified c uac term x.

Lemma rstr_wrap p t y : rstr (wrap p t y) = p ++ rstr y ++ t. Proof. unfold wrap. apply rstr_set. Qed.

Lemma l0_justified c m uac term x : I1 Q uac m -> In x (sg_l0 Q c m uac term) -> justified c uac term x.
Proof.
  intros H1 Hx. pose proof Hx as Hx0. unfold sg_l0 in Hx0. rewrite swd_eq in Hx0.
  assert (S : exists y, In y (swd_core Q m uac (sg_word Q c term)) /\ rstr x = sg_pre Q c term ++ rstr y ++ sg_tr Q c term).
  { destruct (sg_pre Q c term) eqn:Ep, (sg_tr Q c term) eqn:Et;
      try (apply in_map_iff in Hx0; destruct Hx0 as [y [<- Hy]]; exists y; split; [exact Hy | apply rstr_wrap]).
    exists x. split; [exact Hx0 | cbn [app]; rewrite app_nil_r; reflexivity]. }
  destruct S as [y [Hy Hs]].
  destruct (swd_core_items uac m _ y H1 Hy) as [->|[Hd|(i & b & suf & Hi & Es & Hb & ->)]].
  - apply j_translit. exact Hs.
  - eapply j_direct; eauto.
  - eapply j_suffix; eauto. rewrite Hs, rstr_set. reflexivity.
Qed.

Lemma candidates_justified c m uac sels term :
  I1 Q uac m ->
  let '(_, l, _, _) := suggest Q c m uac sels term in Forall (justified c uac term) l.
Proof.
  intros H1. rewrite suggest_eq. apply Forall_forall. intros x Hx. apply (proj1 (sort_In _ _)) in Hx.
  assert (L1 : forall y, In y (fst (sg_l1 Q c m uac term)) -> justified c uac term y).
  { intros y Hy. unfold sg_l1 in Hy. destruct (c_ansi c); [apply (l0_justified c m uac term y H1 Hy)|].
    destruct (emoticon Q term).
    - cbn [fst] in Hy. apply in_app_iff in Hy. destruct Hy as [Hy|[<-|[]]]; [|apply j_extra; reflexivity].
      destruct (str_eqb term _); [apply (l0_justified c m uac term y H1 Hy)|].
      unfold push_checked in Hy. destruct (rank_mem _ _); [apply (l0_justified c m uac term y H1 Hy)|].
      apply in_app_iff in Hy. destruct Hy as [Hy|[<-|[]]]; [apply (l0_justified c m uac term y H1 Hy) | apply j_extra; reflexivity].
    - destruct (emoji_name Q _); cbn [fst] in Hy; [|apply (l0_justified c m uac term y H1 Hy)].
      apply in_app_iff in Hy. destruct Hy as [Hy|Hy]; [apply (l0_justified c m uac term y H1 Hy)|].
      apply j_extra. clear -Hy. revert Hy. generalize 1. induction l as [|e t IH]; intros r Hy; [destruct Hy|].
      cbn [emoji_ranked] in Hy. destruct Hy as [<-|Hy]; [reflexivity | eapply IH; exact Hy]. }
  unfold sg_l2 in Hx. destruct (sg_l1 Q c m uac term) as [l1 ta]. cbn [fst] in L1.
  destruct (english_on c && negb ta && _); [|apply L1; exact Hx].
  unfold push_checked in Hx. destruct (rank_mem _ l1); [apply L1; exact Hx|].
  apply in_app_iff in Hx. destruct Hx as [Hx|[<-|[]]]; [apply L1; exact Hx | apply j_extra; reflexivity].
Qed.

(** completeness: a memoised base followed by a known suffix: every candidate of the base is offered in joined form *)
Lemma suffix_forms_complete c m uac sels term i suf cache b :
  let w := sg_word Q c term in
  (2 < length w)%nat -> (1 <= i < length w)%nat -> suffix_of Q (skipn i w) = Some suf ->
  assocS (firstn i w) (upd Q m uac w) = Some cache -> In b cache ->
  let '(_, l, _, _) := suggest Q c m uac sels term in
  In (sg_pre Q c term ++ join (rstr b) suf ++ sg_tr Q c term) (map rstr l).
Proof.
  cbn zeta. intros Hlen Hi Es Ec Hb. rewrite suggest_eq. apply sorted_strs, l2_keeps_l0.
  set (w := sg_word Q c term) in *.
  assert (Hin : In (set_rstr b (join (rstr b) suf)) (add_suffix Q (upd Q m uac w) w)).
  { unfold add_suffix. apply in_app_iff. right. apply PeanoNat.Nat.ltb_lt in Hlen. rewrite Hlen.
    apply in_flat_map. exists i. split; [apply in_seq; lia|]. unfold suffix_items. rewrite Es, Ec. apply (in_map (fun b0 => set_rstr b0 (join (rstr b0) suf))). exact Hb. }
  destruct (fold_push_has _ [] _ Hin) as [y [Hy Hs]]. rewrite rstr_set in Hs.
  assert (Hc : In y (swd_core Q m uac w)) by (rewrite swd_core_upd; apply push_checked_In; exact Hy).
  unfold sg_l0. rewrite swd_eq. fold w.
  destruct (sg_pre Q c term) eqn:Ep, (sg_tr Q c term) eqn:Et;
    try (rewrite map_map; apply in_map_iff; exists y; split; [rewrite rstr_wrap, Hs; reflexivity | exact Hc]).
  cbn [app]. rewrite app_nil_r. apply in_map_iff. exists y. split; [exact Hs | exact Hc].
Qed.

(** the three joining rules *)
Lemma join_vowel_kar base suf : is_vowel (last base 0) = true -> is_kar (hd 0 suf) = true -> join base suf = base ++ [B_YY] ++ suf.
Proof. intros A B. unfold join. rewrite A, B. reflexivity. Qed.
Lemma join_khanda base suf : (is_vowel (last base 0) && is_kar (hd 0 suf)) = false -> last base 0 = B_KHANDA -> join base suf = removelast base ++ [B_TA] ++ suf.
Proof. intros A B. unfold join. rewrite A, B. reflexivity. Qed.
Lemma join_anusvara base suf : (is_vowel (last base 0) && is_kar (hd 0 suf)) = false -> last base 0 = B_ANUSVARA -> join base suf = removelast base ++ [B_NGA'] ++ suf.
Proof. intros A B. unfold join. rewrite A, B. reflexivity. Qed.
Lemma join_plain base suf : (is_vowel (last base 0) && is_kar (hd 0 suf)) = false -> last base 0 <> B_KHANDA -> last base 0 <> B_ANUSVARA -> join base suf = base ++ suf.
Proof. intros A B C. unfold join. rewrite A. apply N.eqb_neq in B, C. rewrite B, C. reflexivity. Qed.

(** *** C07: order *)
Lemma suggest_sorted c m uac sels term :
  let '(_, l, _, _) := suggest Q c m uac sels term in StronglySorted key_le l.
Proof. rewrite suggest_eq. apply sort_sorted. Qed.

(** the first element stays first when nothing is smaller *)
Lemma fold_insert_hd : forall t x acc, (forall y, In y t -> rank_le x y = true) -> hd x (fold_left (fun a y => insert_rank y a) t (x :: acc)) = x.
Proof.
  induction t as [|y t IH]; intros x acc H; cbn [fold_left]; [reflexivity|].
  cbn [insert_rank]. rewrite (H y (or_introl eq_refl)). apply IH. intros z Hz. apply H. right. exact Hz.
Qed.
Lemma sort_hd_first s t : hd (RFirst s) (sort_ranks (RFirst s :: t)) = RFirst s.
Proof. unfold sort_ranks. cbn [fold_left insert_rank]. apply fold_insert_hd. intros y _. destruct y; reflexivity. Qed.

(** an element not smaller than all others, pushed last, stays last *)
Lemma insert_max x acc : (forall y, In y acc -> rank_le y x = true) -> insert_rank x acc = acc ++ [x].
Proof.
  induction acc as [|y t IH]; intros H; cbn [insert_rank app]; [reflexivity|].
  rewrite (H y (or_introl eq_refl)), IH; [reflexivity|]. intros z Hz. apply H. right. exact Hz.
Qed.
Lemma sort_snoc l x : sort_ranks (l ++ [x]) = insert_rank x (sort_ranks l).
Proof. unfold sort_ranks. rewrite fold_left_app. reflexivity. Qed.
Lemma sort_last_max l x : (forall y, In y l -> rank_le y x = true) -> sort_ranks (l ++ [x]) = sort_ranks l ++ [x].
Proof. intros H. rewrite sort_snoc. apply insert_max. intros y Hy. apply H. apply (proj1 (sort_In _ _)). exact Hy. Qed.

End L.
