(** Structural facts about the phonetic suggestion model (model/Phonetic.v). *)
From Coq Require Import Lia Permutation Sorted.
Require Import Riti.model.Base Riti.model.Chars Riti.model.Split Riti.model.Rank Riti.model.Phonetic
        Riti.proofs.Rank_Proof.

Section P.
Variable Q : oracles.

(** ** the pieces of [suggest] *)
Definition sg_sp (c : pcfg) (term : str) : str * str * str :=
  let sp0 := split term false in
  let sp1 := (conv Q (sp_pre sp0), sp_word sp0, conv Q (sp_trail sp0)) in
  if c_smart c then smart_quoter sp1 else sp1.
Definition sg_pre c term := sp_pre (sg_sp c term).
Definition sg_word c term := sp_word (sg_sp c term).
Definition sg_tr c term := sp_trail (sg_sp c term).

Definition sg_l0 c m uac term := snd (suggestion_with_dict Q m uac (sg_pre c term) (sg_word c term) (sg_tr c term)).
Definition sg_m c m uac term := fst (suggestion_with_dict Q m uac (sg_pre c term) (sg_word c term) (sg_tr c term)).

Definition sg_l1 c m uac term : list rank * bool :=
  let l0 := sg_l0 c m uac term in
  if c_ansi c then (l0, false)
  else match emoticon Q term with
       | Some e => ((if str_eqb term (sg_pre c term) then l0 else push_checked l0 (RLast term 1)) ++ [REmoji e 1], true)
       | None => match emoji_name Q (sg_word c term) with
                 | Some es => (l0 ++ emoji_ranked (sg_pre c term) (sg_tr c term) es 1, false)
                 | None => (l0, false)
                 end
       end.

Definition sg_l2 c m uac term : list rank :=
  let '(l1, typed_added) := sg_l1 c m uac term in
  if english_on c && negb typed_added && negb (str_eqb term (sg_pre c term)) then push_checked l1 (RLast term 3) else l1.

Lemma suggest_eq c m uac sels term :
  suggest Q c m uac sels term =
  (sg_m c m uac term, sort_ranks (sg_l2 c m uac term), (sg_pre c term, sg_tr c term),
   prev_selection Q sels (sort_ranks (sg_l2 c m uac term)) (sg_pre c term) (sg_word c term) (sg_tr c term)).
Proof.
  unfold suggest, sg_l2, sg_l1, sg_l0, sg_m, sg_pre, sg_word, sg_tr, sg_sp.
  set (sp := if c_smart c then _ else _).
  destruct (suggestion_with_dict Q m uac (sp_pre sp) (sp_word sp) (sp_trail sp)) as [m' l0] eqn:E. cbn [fst snd].
  destruct (c_ansi c).
  { cbn [andb negb]. reflexivity. }
  destruct (emoticon Q term) as [e|].
  { reflexivity. }
  destruct (emoji_name Q (sp_word sp)) as [es|]; reflexivity.
Qed.

(** the list built by suggestion_with_dict *)
Definition swd_core (m : memo) (uac : list (str * str)) (w : str) : list rank :=
  let m' := match assocS w m with Some _ => m | None => m ++ [(w, direct Q uac w)] end in
  push_checked (fold_left push_checked (add_suffix Q m' w) []) (RLast (conv Q w) 2).

Lemma swd_eq m uac pre w tr :
  snd (suggestion_with_dict Q m uac pre w tr) =
  match pre, tr with [], [] => swd_core m uac w | _, _ => map (wrap pre tr) (swd_core m uac w) end.
Proof. reflexivity. Qed.

Lemma map_nonempty {A B} (f : A -> B) l : l <> [] -> map f l <> [].
Proof. destruct l; [congruence | discriminate]. Qed.

Lemma swd_nonempty m uac pre w tr : snd (suggestion_with_dict Q m uac pre w tr) <> [].
Proof.
  rewrite swd_eq. assert (H : swd_core m uac w <> []) by apply push_checked_nonempty.
  destruct pre, tr; try exact H; apply map_nonempty; exact H.
Qed.

Lemma app_nonempty_l {A} (l r : list A) : l <> [] -> l ++ r <> [].
Proof. destruct l; [congruence | discriminate]. Qed.

Lemma sg_l2_nonempty c m uac term : sg_l2 c m uac term <> [].
Proof.
  unfold sg_l2, sg_l1. pose proof (swd_nonempty m uac (sg_pre c term) (sg_word c term) (sg_tr c term)) as H0.
  fold (sg_l0 c m uac term) in H0.
  destruct (c_ansi c).
  { destruct (english_on c && negb false && _); [apply push_checked_nonempty | exact H0]. }
  destruct (emoticon Q term).
  { destruct (english_on c && negb true && _); [apply push_checked_nonempty|].
    destruct (str_eqb term _); apply app_nonempty_l; [exact H0 | apply push_checked_nonempty]. }
  destruct (emoji_name Q _).
  { destruct (english_on c && _ && _); [apply push_checked_nonempty | apply app_nonempty_l; exact H0]. }
  destruct (english_on c && _ && _); [apply push_checked_nonempty | exact H0].
Qed.

Lemma find_pos_bound sel l : forall k i, find_pos sel l k = Some i -> (k <= i < k + length l)%nat.
Proof.
  induction l as [|x t IH]; intros k i H; cbn [find_pos length] in *; [discriminate|].
  destruct (str_eqb (rstr x) sel); [inversion H; lia|]. apply IH in H. lia.
Qed.

Lemma prev_selection_lt sels l pre w tr : l <> [] -> (prev_selection Q sels l pre w tr < length l)%nat.
Proof.
  intros Hl. unfold prev_selection. set (sel := pre ++ _ ++ tr).
  destruct (find_pos sel l 0) as [i|] eqn:E.
  - apply find_pos_bound in E. lia.
  - destruct l; [congruence | cbn [length]; lia].
Qed.

Lemma find_pos_hit sel l : forall k i, find_pos sel l k = Some i -> option_map rstr (nth_error l (i - k)) = Some sel.
Proof.
  induction l as [|x t IH]; intros k i H; cbn [find_pos] in *; [discriminate|].
  destruct (str_eqb (rstr x) sel) eqn:E.
  - inversion H; subst. rewrite PeanoNat.Nat.sub_diag. cbn. apply str_eqb_eq in E. rewrite E. reflexivity.
  - pose proof (find_pos_bound _ _ _ _ H) as B. apply IH in H.
    replace (i - k)%nat with (S (i - S k)) by lia. exact H.
Qed.

(** ** what create_suggestion returns *)
Lemma create_suggestion_full c s :
  c_suggest c = true ->
  exists l sel,
    snd (create_suggestion Q c s) = OFull (p_buf s) (map rstr l) sel (c_ansi c) /\
    l = sort_ranks (sg_l2 c (p_memo s) (p_uac s) (p_buf s)) /\
    sel = prev_selection Q (p_sels s) l (sg_pre c (p_buf s)) (sg_word c (p_buf s)) (sg_tr c (p_buf s)) /\
    p_sugg (fst (create_suggestion Q c s)) = l /\ p_prev (fst (create_suggestion Q c s)) = sel /\
    p_buf (fst (create_suggestion Q c s)) = p_buf s /\ p_uac (fst (create_suggestion Q c s)) = p_uac s /\
    p_sels (fst (create_suggestion Q c s)) = p_sels s /\
    p_memo (fst (create_suggestion Q c s)) = sg_m c (p_memo s) (p_uac s) (p_buf s) /\
    p_affix (fst (create_suggestion Q c s)) = (sg_pre c (p_buf s), sg_tr c (p_buf s)).
Proof.
  intros Hs. unfold create_suggestion. rewrite Hs, suggest_eq. cbn [fst snd].
  eexists _, _. repeat split; reflexivity.
Qed.

Lemma create_suggestion_single c s :
  c_suggest c = false ->
  create_suggestion Q c s = (s, OSingle (suggest_only_phonetic Q (p_buf s)) (c_ansi c)).
Proof. intros Hs. unfold create_suggestion. rewrite Hs. reflexivity. Qed.

End P.
