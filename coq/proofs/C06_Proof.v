(** Ending a word erases every trace of it (C06) and re-configuring = creating anew (C11), on top of the
    bisimulation of proofs/C05_Proof.v; plus the fixed-method part. *)
From Coq Require Import Lia.
Require Import Riti.model.Base Riti.model.Chars Riti.model.Split Riti.model.Rank Riti.model.Layout Riti.model.Phonetic
        Riti.model.FixedCompose Riti.model.FixedSuggest Riti.proofs.Split_Proof Riti.proofs.Rank_Proof Riti.proofs.Phonetic_Proof Riti.proofs.C02_Proof Riti.proofs.C05_Proof.

Section C06.
Variable Q : oracles.

(** a state with nothing composed is related to a brand-new context over the same user data *)
Lemma idle_is_new c s : Good Q c s -> p_buf s = [] -> R Q c s (p_new (p_uac s) (p_sels s)).
Proof. intros G Hb. split; [unfold same_core; cbn; auto|]. split; [exact G | apply good_new]. Qed.

Definition terminating (s : pstate) (e : pevent) : Prop :=
  match e with
  | PCommit _ | PFinish => True
  | PBackspace true => p_buf s <> []
  | PBackspace false => removelast (p_buf s) = []
  | _ => False
  end.

Lemma terminator_clears c s e c' s' o :
  terminating s e -> p_step Q c s e = Some (c', s', o) -> p_buf s' = [] /\ c' = c.
Proof.
  destruct e as [k selb | ctrl | i | | cc reload]; cbn [terminating p_step]; intros Ht Hs; try contradiction.
  - unfold p_backspace in Hs. destruct (p_buf s) eqn:Eb.
    + inversion Hs; subst. auto.
    + destruct ctrl.
      * inversion Hs; subst. auto.
      * rewrite Ht in Hs. inversion Hs; subst. auto.
  - unfold p_commit in Hs. destruct (negb (Nat.eqb (p_prev s) i) && c_suggest c && _).
    + destruct (bare_suggestion s i); inversion Hs; subst. auto.
    + inversion Hs; subst. auto.
  - inversion Hs; subst. auto.
Qed.

Lemma after_terminator uac0 sels0 c s e c' s' o :
  Reach Q uac0 sels0 c s -> terminating s e -> p_step Q c s e = Some (c', s', o) ->
  p_ongoing s' = false /\ R Q c' s' (p_new (p_uac s') (p_sels s')).
Proof.
  intros Hr Ht Hs. destruct (terminator_clears c s e c' s' o Ht Hs) as [Hb ->].
  assert (Hin : in_contract s e) by (destruct e; cbn in *; try exact I; contradiction).
  pose proof (reach_good Q uac0 sels0 c s' (reach_step Q uac0 sels0 c s e c s' o Hr Hin Hs)) as G.
  split; [unfold p_ongoing; rewrite Hb; reflexivity | apply idle_is_new; assumption].
Qed.

(** a backspace that returns an EMPTY suggestion - because nothing is left, or because what is left displays as
    nothing - ends the word *)
Lemma empty_backspace_clears c s ctrl : out_empty (snd (p_backspace Q c s ctrl)) = true -> p_buf (fst (p_backspace Q c s ctrl)) = [].
Proof.
  unfold p_backspace. destruct (p_buf s) eqn:Eb; [intros _; exact Eb|].
  destruct ctrl; [intros _; destruct s; reflexivity|].
  destruct (removelast (n :: s0)); [intros _; destruct s; reflexivity|]. cbn zeta.
  destruct (out_empty (snd (create_suggestion Q c (set_buf s (n0 :: l))))) eqn:E; cbn [fst snd]; [intros _; destruct (fst _); reflexivity | congruence].
Qed.

Lemma after_empty_backspace uac0 sels0 c s ctrl c' s' o :
  Reach Q uac0 sels0 c s -> p_step Q c s (PBackspace ctrl) = Some (c', s', o) -> out_empty o = true ->
  p_ongoing s' = false /\ R Q c' s' (p_new (p_uac s') (p_sels s')).
Proof.
  intros Hr Hs Ho. pose proof Hs as Hs0. cbn [p_step] in Hs.
  pose proof (empty_backspace_clears c s ctrl) as Hc. destruct (p_backspace Q c s ctrl) as [s1 o1]. cbn [fst snd] in Hc.
  inversion Hs; subst. specialize (Hc Ho).
  pose proof (reach_good Q uac0 sels0 c' s' (reach_step Q uac0 sels0 c' s (PBackspace ctrl) c' s' o Hr I Hs0)) as G.
  split; [unfold p_ongoing; rewrite Hc; reflexivity | apply idle_is_new; assumption].
Qed.

Lemma idle_backspace c s ctrl : p_buf s = [] -> p_backspace Q c s ctrl = (s, OSingle [] false).
Proof. intros Hb. unfold p_backspace. rewrite Hb. reflexivity. Qed.

Lemma ongoing_iff_buffer s : p_ongoing s = true <-> p_buf s <> [].
Proof. unfold p_ongoing. destruct (p_buf s); split; congruence. Qed.

(** re-configuring an idle context = a new context with the new configuration over the same files *)
Lemma update_is_new uac0 sels0 c s c' reload :
  Reach Q uac0 sels0 c s -> p_buf s = [] ->
  R Q c' (p_update s reload) (p_new (match reload with Some u => u | None => p_uac s end) (p_sels s)).
Proof.
  intros Hr Hb. pose proof (reach_good Q uac0 sels0 c s Hr) as G.
  assert (HR : R Q c s s) by (split; [unfold same_core; auto | split; exact G]).
  destruct (bisim_update Q c c' s s reload HR Hb) as (_ & G' & _).
  split; [|split; [exact G' | apply good_new]].
  unfold same_core, p_update. destruct reload; cbn; rewrite ?Hb; auto.
Qed.

(** ** fixed method *)
Definition x_same (c : xcfg) (s1 s2 : xstate) : Prop :=
  x_rb s1 = x_rb s2 /\ x_typed s1 = x_typed s2 /\ x_pend s1 = x_pend s2 /\
  (x_rb s1 <> [] -> x_suggest c = true -> x_sugg s1 = x_sugg s2).

Lemma x_clear_is_init c s : x_same c (x_clear s) x_init.
Proof. unfold x_same, x_clear, x_init. cbn. repeat split; auto. intros H; congruence. Qed.

Lemma x_create_same c s1 s2 :
  x_rb s1 = x_rb s2 -> x_typed s1 = x_typed s2 -> x_pend s1 = x_pend s2 ->
  snd (x_create Q c s1) = snd (x_create Q c s2) /\ x_same c (fst (x_create Q c s1)) (fst (x_create Q c s2)).
Proof.
  intros E1 E2 E3. unfold x_create, x_buffer. rewrite E1, E2. destruct (x_suggest c) eqn:Hs; cbn [fst snd].
  - split; [reflexivity|]. unfold x_same. cbn. rewrite E3. auto.
  - split; [reflexivity|]. unfold x_same. repeat split; auto. intros _ X. congruence.
Qed.

Definition x_in_contract (s : xstate) (e : xevent) : Prop :=
  match e with XUpdate _ => x_rb s = [] | _ => True end.

Lemma x_bisim_step L c s1 s2 e :
  x_same c s1 s2 -> x_in_contract s1 e ->
  let '(c1, s1', o1) := x_step Q L c s1 e in
  let '(c2, s2', o2) := x_step Q L c s2 e in
  c1 = c2 /\ o1 = o2 /\ x_same c1 s1' s2'.
Proof.
  intros HS0 Hin. pose proof HS0 as (E1 & E2 & E3 & E4). destruct e as [k m | ctrl | | | c']; cbn [x_step].
  - unfold x_key. destruct (get_char_for_key L k (altgr_of m) (x_numpad c)) as [v|].
    + rewrite <- E1, <- E2, <- E3. destruct (process_key_value (x_opts c) (x_rb s1) (x_pend s1) v) as [rb p].
      match goal with |- context [x_create Q c ?a] => match goal with |- context [let '(_, _) := x_create Q c ?b in _] => idtac end end.
      set (a := {| x_rb := rb; x_typed := _; x_pend := p; x_sugg := x_sugg s1 |}).
      set (b := {| x_rb := rb; x_typed := _; x_pend := p; x_sugg := x_sugg s2 |}).
      destruct (x_create_same c a b eq_refl eq_refl eq_refl) as (O & S).
      destruct (x_create Q c a), (x_create Q c b). cbn [fst snd] in *. auto.
    + split; [reflexivity|]. split; [|exact HS0].
      unfold x_current, x_buffer. rewrite <- E1. destruct (x_rb s1) eqn:Er; [reflexivity|].
      destruct (x_suggest c) eqn:Hs; [|reflexivity]. rewrite E4; [reflexivity | rewrite <- Er in *; congruence | reflexivity].
  - unfold x_backspace. rewrite <- E1, <- E2, <- E3.
    assert (Clr : forall a b, x_same c {| x_rb := []; x_typed := []; x_pend := None; x_sugg := a |} {| x_rb := []; x_typed := []; x_pend := None; x_sugg := b |}).
    { intros. unfold x_same. cbn. repeat split; auto. intros H; congruence. }
    destruct (x_rb s1) as [|x t] eqn:Er, ctrl.
    + destruct (x_pend s1); [split; [reflexivity|]; split; [reflexivity | apply Clr]|].
      split; [reflexivity|]. split; [reflexivity | exact HS0].
    + destruct (x_pend s1); [split; [reflexivity|]; split; [reflexivity | apply Clr]|].
      split; [reflexivity|]. split; [reflexivity | exact HS0].
    + split; [reflexivity|]. split; [reflexivity|]. unfold x_clear. apply Clr.
    + destruct (x_pend s1).
      * set (a := {| x_rb := x :: t; x_typed := _; x_pend := None; x_sugg := x_sugg s1 |}).
        set (b := {| x_rb := x :: t; x_typed := _; x_pend := None; x_sugg := x_sugg s2 |}).
        destruct (x_create_same c a b eq_refl eq_refl eq_refl) as (O & S).
        destruct (x_create Q c a), (x_create Q c b). cbn [fst snd] in *. auto.
      * destruct t as [|y t'].
        -- split; [reflexivity|]. split; [reflexivity | apply Clr].
        -- set (a := {| x_rb := y :: t'; x_typed := _; x_pend := None; x_sugg := x_sugg s1 |}).
           set (b := {| x_rb := y :: t'; x_typed := _; x_pend := None; x_sugg := x_sugg s2 |}).
           destruct (x_create_same c a b eq_refl eq_refl eq_refl) as (O & S).
           destruct (x_create Q c a), (x_create Q c b). cbn [fst snd] in *. auto.
  - split; [reflexivity|]. split; [reflexivity|]. unfold x_clear, x_same. cbn. repeat split; auto; intros H; congruence.
  - split; [reflexivity|]. split; [reflexivity|]. unfold x_clear, x_same. cbn. repeat split; auto; intros H; congruence.
  - split; [reflexivity|]. split; [reflexivity|]. cbn in Hin. unfold x_same. repeat split; auto; intros H; congruence.
Qed.

Lemma x_bisim_run L : forall h c s1 s2, x_same c s1 s2 ->
  (fix ok c s h := match h with [] => True | e :: t => x_in_contract s e /\ let '(c', s', _) := x_step Q L c s e in ok c' s' t end) c s1 h ->
  x_run Q L c s1 h = x_run Q L c s2 h.
Proof.
  induction h as [|e t IH]; intros c s1 s2 HS Hok; cbn [x_run]; [reflexivity|].
  destruct Hok as [Hin Hrest]. pose proof (x_bisim_step L c s1 s2 e HS Hin) as H.
  destruct (x_step Q L c s1 e) as [[c1 s1'] o1], (x_step Q L c s2 e) as [[c2 s2'] o2]. destruct H as (-> & -> & HS').
  assert (Eo : x_ongoing s1' = x_ongoing s2'). { destruct HS' as (A & _ & B & _). unfold x_ongoing. rewrite A, B. reflexivity. }
  rewrite Eo. f_equal. apply IH; assumption.
Qed.

Lemma x_ongoing_spec s : x_ongoing s = true <-> (x_rb s <> [] \/ x_pend s <> None).
Proof.
  unfold x_ongoing. destruct (x_rb s), (x_pend s); cbn; split; intros H; try reflexivity; try discriminate;
    try (left; discriminate); try (right; discriminate); destruct H; congruence.
Qed.

(** fixed method: a backspace that returns an empty suggestion leaves nothing behind either *)
Lemma rev_nonempty {A} (l : list A) : l <> [] -> rev l <> [].
Proof. destruct l as [|a l]; [congruence|]. intros _ H. apply (f_equal (@length A)) in H. cbn [rev] in H. rewrite app_length in H. cbn in H. lia. Qed.

Lemma x_create_not_empty c s : x_rb s <> [] -> out_empty (snd (x_create Q c s)) = false.
Proof.
  intros Hr. unfold x_create. destruct (x_suggest c); cbn [snd out_empty].
  - pose proof (dictionary_suggestion_nonempty Q c (x_buffer s) (x_typed s)) as Hn.
    destruct (dictionary_suggestion Q c (x_buffer s) (x_typed s)); [congruence | reflexivity].
  - unfold x_buffer. pose proof (rev_nonempty (x_rb s) Hr) as Hn. destruct (rev (x_rb s)); [congruence | reflexivity].
Qed.

Lemma x_empty_backspace_ends c s ctrl :
  out_empty (snd (x_backspace Q c s ctrl)) = true -> x_ongoing (fst (x_backspace Q c s ctrl)) = false.
Proof.
  unfold x_backspace. destruct (x_rb s) as [|a rb] eqn:Er.
  - destruct ctrl; (destruct (x_pend s) eqn:Ep; [intros _; reflexivity | intros _; cbn [fst]; unfold x_ongoing; rewrite Er, Ep; reflexivity]).
  - destruct ctrl; [intros _; reflexivity|].
    destruct (x_pend s).
    + rewrite x_create_not_empty by (cbn [x_rb]; discriminate). discriminate.
    + destruct rb as [|b rb]; [intros _; reflexivity|].
      rewrite x_create_not_empty by (cbn [x_rb]; discriminate). discriminate.
Qed.

(** Repeated backspaces always reach the idle state: every (plain or ctrl) backspace on a non-idle state strictly
    shortens the composition, so [length] of it many backspaces end the session - from ANY state, not only reachable ones. *)
Lemma create_suggestion_buf c s : p_buf (fst (create_suggestion Q c s)) = p_buf s.
Proof.
  destruct (c_suggest c) eqn:Hs.
  - destruct (create_suggestion_full Q c s Hs) as (_ & _ & _ & _ & _ & _ & _ & Bf & _). exact Bf.
  - rewrite (create_suggestion_single Q c s Hs). reflexivity.
Qed.

Lemma removelast_length {A} (l : list A) : l <> [] -> S (length (removelast l)) = length l.
Proof.
  intros Hl. destruct (exists_last Hl) as (l' & a & ->). rewrite removelast_last, app_length. cbn. lia.
Qed.

Lemma backspace_shortens c s ctrl :
  p_buf s <> [] -> (length (p_buf (fst (p_backspace Q c s ctrl))) < length (p_buf s))%nat.
Proof.
  intros Hb. unfold p_backspace. destruct (p_buf s) as [|a l] eqn:Eb; [congruence|].
  destruct ctrl; [cbn; lia|].
  pose proof (removelast_length (a :: l) ltac:(discriminate)) as Hl.
  destruct (removelast (a :: l)) as [|y r] eqn:Er; [cbn; lia|].
  destruct (out_empty (snd (create_suggestion Q c (set_buf s (y :: r))))); cbn [fst].
  - cbn. lia.
  - rewrite create_suggestion_buf. cbn [set_buf p_buf]. cbn [length] in *. lia.
Qed.

Fixpoint p_backspaces (c : pcfg) (s : pstate) (ctrls : list bool) : pstate :=
  match ctrls with
  | [] => s
  | b :: t => p_backspaces c (fst (p_backspace Q c s b)) t
  end.

Lemma backspaces_reach_idle c : forall ctrls s,
  (length (p_buf s) <= length ctrls)%nat -> p_ongoing (p_backspaces c s ctrls) = false.
Proof.
  induction ctrls as [|b t IH]; intros s Hl; cbn [p_backspaces].
  - unfold p_ongoing. destruct (p_buf s); [reflexivity | cbn in Hl; lia].
  - apply IH. destruct (p_buf s) as [|a l] eqn:Eb.
    + rewrite (idle_backspace c s b Eb). cbn [fst]. rewrite Eb. cbn. lia.
    + pose proof (backspace_shortens c s b ltac:(rewrite Eb; discriminate)) as Hs. rewrite Eb in Hs. cbn [length] in *. lia.
Qed.

(** fixed method: the measure is the composed text plus the waiting sign *)
Definition x_measure (s : xstate) : nat := (length (x_rb s) + match x_pend s with Some _ => 1 | None => 0 end)%nat.

Lemma x_create_shape c s : x_rb (fst (x_create Q c s)) = x_rb s /\ x_pend (fst (x_create Q c s)) = x_pend s.
Proof. unfold x_create. destruct (x_suggest c); cbn; auto. Qed.

Lemma x_backspace_shortens c s ctrl :
  (x_measure s <> 0 -> x_measure (fst (x_backspace Q c s ctrl)) < x_measure s)%nat.
Proof.
  unfold x_measure at 1 3. intros Hm. unfold x_backspace.
  destruct (x_rb s) as [|a rb] eqn:Er.
  - destruct (x_pend s) eqn:Ep; [|cbn in Hm; congruence].
    destruct ctrl; cbn; lia.
  - destruct ctrl; [unfold x_measure; cbn; lia|].
    destruct (x_pend s) eqn:Ep.
    + unfold x_measure. destruct (x_create_shape c {| x_rb := a :: rb; x_typed := removelast (x_typed s); x_pend := None; x_sugg := x_sugg s |}) as (-> & ->).
      cbn. lia.
    + destruct rb as [|b rb]; [unfold x_measure; cbn; lia|].
      unfold x_measure. destruct (x_create_shape c {| x_rb := b :: rb; x_typed := removelast (x_typed s); x_pend := None; x_sugg := x_sugg s |}) as (-> & ->).
      cbn. lia.
Qed.

Fixpoint x_backspaces (c : xcfg) (s : xstate) (ctrls : list bool) : xstate :=
  match ctrls with
  | [] => s
  | b :: t => x_backspaces c (fst (x_backspace Q c s b)) t
  end.

Lemma x_idle_measure s : x_measure s = 0%nat -> x_ongoing s = false.
Proof. unfold x_measure, x_ongoing. destruct (x_rb s); destruct (x_pend s); cbn; intros; try lia; reflexivity. Qed.

Lemma x_idle_backspace_stays c s ctrl : x_measure s = 0%nat -> x_measure (fst (x_backspace Q c s ctrl)) = 0%nat.
Proof.
  unfold x_measure at 1. intros Hm. unfold x_backspace.
  destruct (x_rb s) eqn:Er; [|cbn in Hm; lia]. destruct (x_pend s) eqn:Ep; [cbn in Hm; lia|].
  destruct ctrl; cbn [fst]; unfold x_measure; rewrite Er, Ep; reflexivity.
Qed.

Lemma x_backspaces_reach_idle c : forall ctrls s,
  (x_measure s <= length ctrls)%nat -> x_ongoing (x_backspaces c s ctrls) = false.
Proof.
  induction ctrls as [|b t IH]; intros s Hl; cbn [x_backspaces].
  - apply x_idle_measure. cbn in Hl. lia.
  - apply IH. destruct (PeanoNat.Nat.eq_dec (x_measure s) 0) as [E|E].
    + rewrite (x_idle_backspace_stays c s b E). lia.
    + pose proof (x_backspace_shortens c s b E). cbn [length] in Hl. lia.
Qed.

End C06.
