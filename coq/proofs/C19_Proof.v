From Coq Require Import Lia.
Require Import Riti.model.Base Riti.model.Rank Riti.model.Phonetic Riti.model.Ffi.

Definition ids (st : ffi) : list nat := map fst (live st).
Definition wf (st : ffi) : Prop := NoDup (ids st) /\ Forall (fun k => k < next st)%nat (ids st).

Lemma lookup_in h l v : lookup h l = Some v -> In (h, v) l.
Proof. induction l as [|[k w] t IH]; cbn [lookup]; [discriminate|]. destruct (Nat.eqb h k) eqn:E; [apply PeanoNat.Nat.eqb_eq in E; subst; intros X; inversion X; left; reflexivity | intros X; right; apply IH; exact X]. Qed.

Lemma remove_ids h l : forall x, In x (map fst (remove h l)) -> In x (map fst l).
Proof. induction l as [|[k w] t IH]; intros x H; cbn [remove] in H; [destruct H|]. destruct (Nat.eqb h k); [right; exact H|]. destruct H as [<-|H]; [left; reflexivity | right; apply IH; exact H]. Qed.

Lemma remove_nodup h l : NoDup (map fst l) -> NoDup (map fst (remove h l)).
Proof.
  induction l as [|[k w] t IH]; intros H; cbn [remove]; [exact H|]. inversion H; subst. destruct (Nat.eqb h k); [assumption|].
  cbn [map fst]. constructor; [intros X; apply H2; eapply remove_ids; exact X | apply IH; assumption].
Qed.

Lemma step_wf st c st' : wf st -> ffi_step st c = Some st' -> wf st'.
Proof.
  intros [Hn Hb] Hs. destruct c as [v | h | | h]; cbn [ffi_step] in Hs.
  - inversion Hs; subst. unfold wf, ids, alloc. cbn [live next map fst]. split.
    + constructor; [|exact Hn]. intros X. rewrite Forall_forall in Hb. specialize (Hb _ X). lia.
    + constructor; [lia|]. eapply Forall_impl; [|exact Hb]. intros a Ha. cbn in Ha. lia.
  - destruct (lookup h (live st)); [|discriminate]. inversion Hs; subst. unfold wf, ids. cbn [live next]. split; [apply remove_nodup; exact Hn|].
    rewrite Forall_forall in *. intros x Hx. apply Hb. eapply remove_ids; exact Hx.
  - inversion Hs; subst. split; assumption.
  - destruct (lookup h (live st)); [|discriminate]. inversion Hs; subst. split; assumption.
Qed.

(** a live handle keeps its value whatever else is called, until it is freed itself *)
Lemma lookup_remove_other h k l : h <> k -> lookup h (remove k l) = lookup h l.
Proof.
  intros Hne. induction l as [|[j w] t IH]; cbn [remove lookup]; [reflexivity|].
  destruct (Nat.eqb k j) eqn:E.
  - apply PeanoNat.Nat.eqb_eq in E. subst j. assert (Nat.eqb h k = false) as -> by (apply PeanoNat.Nat.eqb_neq; exact Hne). reflexivity.
  - cbn [lookup]. destruct (Nat.eqb h j); [reflexivity | exact IH].
Qed.

Lemma value_stable st c st' h v :
  wf st -> lookup h (live st) = Some v -> c <> CFree h -> ffi_step st c = Some st' -> lookup h (live st') = Some v.
Proof.
  intros [Hn Hb] Hl Hc Hs. destruct c as [w | k | | k]; cbn [ffi_step] in Hs.
  - inversion Hs; subst. cbn [alloc live lookup].
    assert (Hlt : (h < next st)%nat). { rewrite Forall_forall in Hb. apply Hb. apply lookup_in in Hl. apply (in_map fst) in Hl. exact Hl. }
    assert (Nat.eqb h (next st) = false) as -> by (apply PeanoNat.Nat.eqb_neq; lia). exact Hl.
  - destruct (lookup k (live st)); [|discriminate]. inversion Hs; subst. cbn [live]. rewrite lookup_remove_other; [exact Hl|]. intros ->. apply Hc. reflexivity.
  - inversion Hs; subst. exact Hl.
  - destruct (lookup k (live st)); [|discriminate]. inversion Hs; subst. exact Hl.
Qed.

(** freeing a null string is the identity *)
Lemma free_null st : ffi_step st CFreeNullString = Some st. Proof. reflexivity. Qed.

(** freeing removes exactly that handle *)
Lemma remove_length h l v : NoDup (map fst l) -> lookup h l = Some v -> S (length (remove h l)) = length l.
Proof.
  induction l as [|[k w] t IH]; intros Hn Hl; cbn [lookup remove length] in *; [discriminate|].
  destruct (Nat.eqb h k); [reflexivity|]. cbn [length]. f_equal. apply IH; [inversion Hn; assumption | exact Hl].
Qed.

(** balance: the number of live handles = allocations - frees, so a life cycle that frees everything it created ends empty *)
Fixpoint news (cs : list call) : nat := match cs with [] => 0 | CNew _ :: t => S (news t) | _ :: t => news t end.
Fixpoint frees (cs : list call) : nat := match cs with [] => 0 | CFree _ :: t => S (frees t) | _ :: t => frees t end.

Lemma balance : forall cs st st', wf st -> ffi_run st cs = Some st' -> (length (live st') + frees cs = length (live st) + news cs)%nat.
Proof.
  induction cs as [|c t IH]; intros st st' Hw Hr; cbn [ffi_run news frees] in *; [inversion Hr; subst; lia|].
  destruct (ffi_step st c) as [st1|] eqn:Es; [|discriminate]. pose proof (step_wf st c st1 Hw Es) as Hw1. specialize (IH st1 st' Hw1 Hr).
  destruct c as [v | h | | h]; cbn [ffi_step] in Es.
  - inversion Es; subst. cbn [alloc live length] in IH. lia.
  - destruct (lookup h (live st)) eqn:El; [|discriminate]. inversion Es; subst. cbn [live] in IH.
    destruct Hw as [Hn _]. pose proof (remove_length h (live st) h0 Hn El). lia.
  - inversion Es; subst. lia.
  - destruct (lookup h (live st)); [|discriminate]. inversion Es; subst. lia.
Qed.

Lemma wf_init : wf ffi_init. Proof. split; constructor. Qed.

Lemma full_cycle_leaks_nothing cs st' : ffi_run ffi_init cs = Some st' -> news cs = frees cs -> live st' = [].
Proof.
  intros Hr He. pose proof (balance cs ffi_init st' wf_init Hr) as B. cbn [ffi_init live length] in B.
  destruct (live st'); [reflexivity | cbn [length] in B; lia].
Qed.
