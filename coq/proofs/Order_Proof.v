(** Emoji keep their table order in the sorted list (C18), and the non-emoji part is untouched by them. *)
From Coq Require Import Lia Permutation Sorted.
Require Import Riti.model.Base Riti.model.Rank Riti.model.Phonetic Riti.proofs.Rank_Proof Riti.proofs.Phonetic_Proof Riti.proofs.C05_Proof Riti.proofs.Lists_Proof.

Definition key_lt (a b : rank) : Prop :=
  rank_tier a < rank_tier b \/ (rank_tier a = rank_tier b /\ rank_num a < rank_num b).

Lemma perm_filter {A} (f : A -> bool) l l' : Permutation l l' -> Permutation (filter f l) (filter f l').
Proof.
  induction 1 as [| x l l' H IH | x y l | l l' l'' H1 IH1 H2 IH2]; cbn [filter].
  - constructor.
  - destruct (f x); [constructor; exact IH | exact IH].
  - destruct (f x), (f y); try reflexivity. apply perm_swap.
  - etransitivity; eassumption.
Qed.

Lemma filter_sorted {A} (R : A -> A -> Prop) f l : StronglySorted R l -> StronglySorted R (filter f l).
Proof.
  induction 1 as [|x t Ht IH Hx]; cbn [filter]; [constructor|]. destruct (f x); [|exact IH].
  constructor; [exact IH|]. rewrite Forall_forall in *. intros y Hy. apply filter_In in Hy. apply Hx. tauto.
Qed.

(** a list sorted by the key and a permutation of it whose keys strictly increase are the same list *)
Lemma sorted_perm_unique : forall a b, StronglySorted key_le a -> StronglySorted key_lt b -> Permutation a b -> a = b.
Proof.
  induction a as [|x a IH]; intros b Ha Hb Hp.
  - apply Permutation_nil in Hp. subst. reflexivity.
  - destruct b as [|y b]; [apply Permutation_sym, Permutation_nil in Hp; discriminate|].
    inversion Ha as [|? ? Ha' Hax]; subst. inversion Hb as [|? ? Hb' Hby]; subst.
    assert (Exy : x = y).
    { assert (Hx : In x (y :: b)) by (eapply Permutation_in; [exact Hp | left; reflexivity]).
      assert (Hy : In y (x :: a)) by (eapply Permutation_in; [apply Permutation_sym; exact Hp | left; reflexivity]).
      destruct Hx as [Hx|Hx]; [symmetry; exact Hx|]. destruct Hy as [Hy|Hy]; [exact Hy|].
      rewrite Forall_forall in Hax, Hby. specialize (Hax y Hy). specialize (Hby x Hx).
      unfold key_le in Hax. unfold key_lt in Hby. lia. }
    subst y. f_equal. apply IH; [exact Ha' | exact Hb' | eapply Permutation_cons_inv; exact Hp].
Qed.

(** so: whatever sub-family of the list has strictly increasing keys in list order keeps exactly that order *)
Lemma filter_sort_strict f l :
  StronglySorted key_lt (filter f l) -> filter f (sort_ranks l) = filter f l.
Proof.
  intros H. apply sorted_perm_unique; [apply filter_sorted, sort_sorted | exact H | apply perm_filter, sort_perm].
Qed.

Lemma emoji_ranked_filter pre tr es : forall r, filter is_emoji (emoji_ranked pre tr es r) = emoji_ranked pre tr es r.
Proof. induction es as [|e t IH]; intros r; cbn [emoji_ranked filter is_emoji]; [reflexivity | rewrite IH; reflexivity]. Qed.

Lemma emoji_ranked_sorted pre tr es : forall r, StronglySorted key_lt (emoji_ranked pre tr es r).
Proof.
  induction es as [|e t IH]; intros r; cbn [emoji_ranked]; [constructor|]. constructor; [apply IH|].
  assert (G : forall k, r < k -> Forall (key_lt (REmoji (pre ++ e ++ tr) r)) (emoji_ranked pre tr t k)).
  { clear IH. induction t as [|e' t' IHt]; intros k Hk; cbn [emoji_ranked]; [constructor|].
    constructor; [right; cbn; lia | apply IHt; lia]. }
  apply G. lia.
Qed.

Lemma emoji_ranked_nonemoji pre tr es : forall r, filter (fun x => negb (is_emoji x)) (emoji_ranked pre tr es r) = [].
Proof. induction es as [|e t IH]; intros r; cbn [emoji_ranked filter is_emoji negb]; [reflexivity | apply IH]. Qed.

Lemma filter_app_none {A} (f : A -> bool) l r : filter f l = [] -> filter f (l ++ r) = filter f r.
Proof. intros H. rewrite filter_app, H. reflexivity. Qed.

Section O.
Variable Q : oracles.

(** the emoji of a name appear in the returned list exactly in table order, whatever else is in the list *)
Lemma emoji_in_table_order l0 pre tr es tail :
  filter is_emoji l0 = [] -> filter is_emoji tail = [] ->
  filter is_emoji (sort_ranks (l0 ++ emoji_ranked pre tr es 1 ++ tail)) = emoji_ranked pre tr es 1.
Proof.
  intros H0 Ht.
  assert (E : filter is_emoji (l0 ++ emoji_ranked pre tr es 1 ++ tail) = emoji_ranked pre tr es 1).
  { rewrite !filter_app, H0, Ht, emoji_ranked_filter, app_nil_r. reflexivity. }
  rewrite filter_sort_strict; [exact E | rewrite E; apply emoji_ranked_sorted].
Qed.

End O.

Section O2.
Variable Q : oracles.

Lemma filter_none {A} (f : A -> bool) l : Forall (fun x => f x = false) l -> filter f l = [].
Proof. induction 1 as [|x t Hx Ht IH]; cbn [filter]; [reflexivity | rewrite Hx; exact IH]. Qed.

Lemma l0_no_emoji c m uac term : I1 Q uac m -> filter is_emoji (sg_l0 Q c m uac term) = [].
Proof.
  intros H1. apply filter_none. apply Forall_forall. intros x Hx. apply sg_l0_in in Hx. destruct Hx as [y [Hy Hxy]].
  pose proof (swd_core_plain Q uac m (sg_word Q c term) H1) as P. rewrite Forall_forall in P. specialize (P y Hy).
  assert (Ey : is_emoji y = false) by (destruct y; cbn in *; congruence).
  destruct Hxy as [->| ->]; [exact Ey|]. destruct (wrap_class (sg_pre Q c term) (sg_tr Q c term) y) as (_ & B & _). rewrite B. exact Ey.
Qed.

(** all emoji of the name, and only they, in table order *)
Lemma names_in_table_order c m uac sels term es :
  c_ansi c = false -> emoticon Q term = None -> emoji_name Q (sg_word Q c term) = Some es -> I1 Q uac m ->
  let '(_, l, _, _) := suggest Q c m uac sels term in
  filter is_emoji l = emoji_ranked (sg_pre Q c term) (sg_tr Q c term) es 1.
Proof.
  intros Ha He Hn H1. rewrite suggest_eq.
  unfold sg_l2, sg_l1. rewrite Ha, He, Hn.
  set (l0 := sg_l0 Q c m uac term).
  set (em := emoji_ranked _ _ es 1).
  pose proof (l0_no_emoji c m uac term H1) as N0. fold l0 in N0.
  assert (A : filter is_emoji (sort_ranks (l0 ++ em)) = em).
  { pose proof (emoji_in_table_order l0 (sg_pre Q c term) (sg_tr Q c term) es [] N0 eq_refl) as X. rewrite app_nil_r in X. exact X. }
  destruct (english_on c && negb false && _); [|exact A].
  unfold push_checked. destruct (rank_mem _ _); [exact A|].
  rewrite <- app_assoc. apply (emoji_in_table_order l0 (sg_pre Q c term) (sg_tr Q c term) es [RLast term 3]); [exact N0 | reflexivity].
Qed.

(** and the non-emoji candidates are exactly what the list would be without the emoji step *)
Lemma filter_insert_skip f x l : f x = false -> filter f (insert_rank x l) = filter f l.
Proof. intros H. induction l as [|y t IH]; cbn [insert_rank filter]; [rewrite H; reflexivity|]. destruct (rank_le y x); cbn [filter]; [rewrite IH; reflexivity | rewrite H; reflexivity]. Qed.


(** filtering commutes with the stable sort (any predicate) *)
Lemma filter_insert_keep f x acc : StronglySorted key_le acc -> f x = true -> filter f (insert_rank x acc) = insert_rank x (filter f acc).
Proof.
  intros Hs Hx. induction acc as [|y t IH]; cbn [insert_rank filter]; [rewrite Hx; reflexivity|].
  inversion Hs as [|? ? Ht Hy]; subst. destruct (rank_le y x) eqn:E.
  - cbn [filter]. destruct (f y); cbn [insert_rank]; rewrite ?E, IH by exact Ht; reflexivity.
  - cbn [filter]. rewrite Hx.
    assert (Front : forall l, (forall z, In z l -> In z (y :: t)) -> insert_rank x (filter f l) = x :: filter f l).
    { intros l Hl. destruct (filter f l) as [|z r] eqn:Ef; [reflexivity|]. cbn [insert_rank].
      assert (Hz : In z (y :: t)). { apply Hl. assert (In z (filter f l)) by (rewrite Ef; left; reflexivity). apply filter_In in H. tauto. }
      assert (Kyz : key_le y z). { destruct Hz as [<-|Hz]; [apply key_le_refl | rewrite Forall_forall in Hy; apply Hy; exact Hz]. }
      destruct (rank_le z x) eqn:Ez; [|reflexivity]. apply rank_le_key in Ez. pose proof (key_le_trans _ _ _ Kyz Ez) as C. apply rank_le_key in C. congruence. }
    pose proof (Front (y :: t) (fun z Hz => Hz)) as F1. cbn [filter] in F1. rewrite F1. reflexivity.
Qed.

Lemma filter_fold f : forall l acc, StronglySorted key_le acc ->
  filter f (fold_left (fun a x => insert_rank x a) l acc) = fold_left (fun a x => insert_rank x a) (filter f l) (filter f acc).
Proof.
  induction l as [|x t IH]; intros acc Hs; cbn [fold_left filter]; [reflexivity|].
  rewrite IH by (apply insert_sorted; exact Hs). destruct (f x) eqn:Fx; cbn [fold_left].
  - rewrite filter_insert_keep by assumption. reflexivity.
  - rewrite filter_insert_skip by assumption. reflexivity.
Qed.

Lemma filter_sort f l : filter f (sort_ranks l) = sort_ranks (filter f l).
Proof. unfold sort_ranks. rewrite filter_fold by constructor. reflexivity. Qed.

(** the presence of emoji never removes or reorders the other candidates *)
Lemma frame_names c m uac sels term es :
  c_ansi c = false -> emoticon Q term = None -> emoji_name Q (sg_word Q c term) = Some es -> I1 Q uac m ->
  rank_mem (RLast term 3) (sg_l0 Q c m uac term ++ emoji_ranked (sg_pre Q c term) (sg_tr Q c term) es 1) = rank_mem (RLast term 3) (sg_l0 Q c m uac term) ->
  let '(_, l, _, _) := suggest Q c m uac sels term in
  filter (fun x => negb (is_emoji x)) l =
  sort_ranks (if english_on c && negb (str_eqb term (sg_pre Q c term)) then push_checked (sg_l0 Q c m uac term) (RLast term 3) else sg_l0 Q c m uac term).
Proof.
  intros Ha He Hn H1 Hmem. rewrite suggest_eq, filter_sort. f_equal.
  unfold sg_l2, sg_l1. rewrite Ha, He, Hn. cbn [negb]. rewrite andb_true_r.
  set (l0 := sg_l0 Q c m uac term) in *. set (em := emoji_ranked _ _ es 1) in *.
  assert (N0 : filter (fun x => negb (is_emoji x)) l0 = l0).
  { pose proof (l0_no_emoji c m uac term H1) as Z. fold l0 in Z. clear -Z. induction l0 as [|x t IH]; [reflexivity|]. cbn [filter] in *.
    destruct (is_emoji x); [discriminate|]. cbn [negb]. f_equal. apply IH. exact Z. }
  assert (Ne : filter (fun x => negb (is_emoji x)) em = []) by apply emoji_ranked_nonemoji.
  destruct (english_on c && negb (str_eqb term (sg_pre Q c term))).
  - unfold push_checked. rewrite Hmem. destruct (rank_mem (RLast term 3) l0).
    + rewrite filter_app, N0, Ne, app_nil_r. reflexivity.
    + rewrite !filter_app, N0, Ne, app_nil_r. reflexivity.
  - rewrite filter_app, N0, Ne, app_nil_r. reflexivity.
Qed.

End O2.

(** reading the sortedness position-wise *)
Lemma sorted_nth {A} (R : A -> A -> Prop) : forall l i j x y,
  StronglySorted R l -> (i < j)%nat -> nth_error l i = Some x -> nth_error l j = Some y -> R x y.
Proof.
  induction l as [|a t IH]; intros i j x y Hs Hij Hi Hj; [destruct i; discriminate|].
  inversion Hs as [|? ? Ht Ha]; subst. destruct i as [|i].
  - cbn in Hi. inversion Hi; subst. destruct j as [|j]; [lia|]. cbn in Hj. rewrite Forall_forall in Ha. apply Ha. eapply nth_error_In; exact Hj.
  - destruct j as [|j]; [lia|]. cbn in Hi, Hj. apply (IH i j x y Ht); [lia | exact Hi | exact Hj].
Qed.

Lemma order_consequences l : StronglySorted key_le l ->
  (* dictionary words: non-decreasing distance *)
  (forall i j a d1 b d2, (i < j)%nat -> nth_error l i = Some (ROther a d1) -> nth_error l j = Some (ROther b d2) -> d1 <= d2) /\
  (* nothing precedes an auto-correct (First) item except First items *)
  (forall i j x s, (i < j)%nat -> nth_error l i = Some x -> nth_error l j = Some (RFirst s) -> exists s', x = RFirst s') /\
  (* after the transliteration / raw-text items (Last) come only Last items, in the order 1, 2, 3 *)
  (forall i j s r y, (i < j)%nat -> nth_error l i = Some (RLast s r) -> nth_error l j = Some y -> exists s' r', y = RLast s' r' /\ r <= r') /\
  (* an emoji never precedes a dictionary word of distance 0 (a word equal to the transliteration) *)
  (forall i j e r a, (i < j)%nat -> nth_error l i = Some (REmoji e r) -> nth_error l j = Some (ROther a 0) -> r = 0).
Proof.
  intros Hs. repeat split.
  - intros i j a d1 b d2 Hij Hi Hj. pose proof (sorted_nth key_le l i j _ _ Hs Hij Hi Hj) as K. unfold key_le in K. cbn in K. lia.
  - intros i j x s Hij Hi Hj. pose proof (sorted_nth key_le l i j _ _ Hs Hij Hi Hj) as K. unfold key_le in K. destruct x; cbn in K; try (exfalso; lia). eauto.
  - intros i j s r y Hij Hi Hj. pose proof (sorted_nth key_le l i j _ _ Hs Hij Hi Hj) as K. unfold key_le in K. destruct y; cbn in K; try (exfalso; lia). eexists _, _. split; [reflexivity | lia].
  - intros i j e r a Hij Hi Hj. pose proof (sorted_nth key_le l i j _ _ Hs Hij Hi Hj) as K. unfold key_le in K. cbn in K. lia.
Qed.
