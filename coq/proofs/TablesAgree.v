(** The tables obtained by executing the code agree with the specification tables derived from
    riti.h / the transcribed character classes.  Every lemma here is re-checked on every run
    against freshly generated tables. *)
From Coq Require Import Lia.
Require Import Riti.model.Base Riti.model.Chars Riti.model.Layout Riti.gen.Gen_Tables.

Lemma lookups_agree : gen_lookups = spec_lookups.
Proof. vm_compute. reflexivity. Qed.

Lemma keychar_agree : gen_keychar = spec_keychar.
Proof. vm_compute. reflexivity. Qed.

Lemma vowels_agree : gen_is_vowel = vowels.
Proof. vm_compute. reflexivity. Qed.
Lemma kars_agree : gen_is_kar = kars.
Proof. vm_compute. reflexivity. Qed.
Lemma pure_consonants_agree : gen_is_pure_consonant = pure_consonants.
Proof. vm_compute. reflexivity. Qed.
Lemma ligature_kars_agree : gen_is_ligature_making_kar = ligature_making_kars.
Proof. vm_compute. reflexivity. Qed.

(** get_modifiers depends on bits 0 and 1 only, for all 256 modifier bytes. *)
Lemma modifiers_agree :
  forallb (fun m => Bool.eqb (mem m gen_mod_altgr) (altgr_of m) && Bool.eqb (mem m gen_mod_shift) (shift_of m))
          (rangeN 0 256) = true.
Proof. vm_compute. reflexivity. Qed.

Lemma range_pos_spec : forall p lo x, In x (range_pos lo p) <-> lo <= x < lo + Npos p.
Proof.
  induction p as [p IH|p IH|]; intros lo x; cbn [range_pos In]; rewrite ?in_app_iff, ?IH; lia.
Qed.

Lemma rangeN_spec : forall n lo x, In x (rangeN lo n) <-> lo <= x < lo + n.
Proof.
  intros [|p] lo x; cbn [rangeN]; [cbn [In]; lia | apply range_pos_spec].
Qed.

Lemma altgr_agree : forall m, m < 256 -> mem m gen_mod_altgr = altgr_of m /\ mem m gen_mod_shift = shift_of m.
Proof.
  intros m Hm. pose proof modifiers_agree as H. rewrite forallb_forall in H.
  specialize (H m). rewrite rangeN_spec in H. specialize (H ltac:(lia)).
  apply andb_prop in H. destruct H as [H1 H2]. apply eqb_prop in H1, H2. auto.
Qed.
