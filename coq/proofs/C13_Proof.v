From Coq Require Import Lia.
Require Import Riti.model.Base Riti.model.Chars Riti.model.FixedCompose Riti.spec.C12_Spec Riti.proofs.C12_Proof Riti.spec.C13_Spec.

Lemma disj : classes_disjoint = true. Proof. vm_compute. reflexivity. Qed.

Lemma vowels_disj :
  forallb (fun v => negb (is_pure_consonant v) && negb (v =? B_HASANTA) && negb (v =? B_CHANDRA)) vowels = true.
Proof. vm_compute. reflexivity. Qed.
Lemma cons_disj :
  forallb (fun c => negb (c =? B_HASANTA) && negb (c =? B_CHANDRA) && negb (is_vowel c)) pure_consonants = true.
Proof. vm_compute. reflexivity. Qed.

Lemma vowel_facts v : is_vowel v = true -> is_pure_consonant v = false /\ (v =? B_HASANTA) = false /\ (v =? B_CHANDRA) = false.
Proof.
  intros H. apply mem_In in H. pose proof vowels_disj as D.
  rewrite forallb_forall in D. specialize (D v H).
  apply andb_prop in D. destruct D as [D H3]. apply andb_prop in D. destruct D as [H1 H2].
  apply negb_true_iff in H1, H2, H3. auto.
Qed.

Lemma cons_facts c : is_pure_consonant c = true -> (c =? B_HASANTA) = false /\ (c =? B_CHANDRA) = false /\ is_vowel c = false.
Proof.
  intros H. apply mem_In in H. pose proof cons_disj as D.
  rewrite forallb_forall in D. specialize (D c H).
  apply andb_prop in D. destruct D as [D H3]. apply andb_prop in D. destruct D as [H1 H2].
  apply negb_true_iff in H1, H2, H3. auto.
Qed.

Lemma single_facts :
  is_vowel B_HASANTA = false /\ is_vowel B_CHANDRA = false /\ is_pure_consonant B_HASANTA = false /\
  is_pure_consonant B_CHANDRA = false /\ is_pure_consonant 0 = false /\ is_vowel 0 = false.
Proof. repeat split; reflexivity. Qed.

(** The scan, once a consonant has been taken: it goes on exactly over (hasanta, consonant) pairs. *)
Lemma scan_after_consonant : forall n t idx V Ch step,
  (length t <= n)%nat -> wf_r t = true -> (V = true \/ Ch = false \/ 2 <= idx)%nat -> (1 <= idx)%nat ->
  reph_scan t idx true V false Ch step = (step + conj_rest t)%nat.
Proof.
  induction n as [|n IH]; intros t idx V Ch step Hlen Hwf HV Hidx.
  { destruct t; [cbn; lia | cbn in Hlen; lia]. }
  destruct t as [|x t]; [cbn; lia|].
  cbn [reph_scan]. cbn [wf_r] in Hwf. apply andb_prop in Hwf. destruct Hwf as [Hx Hwf].
  destruct (is_pure_consonant x) eqn:Hc.
  { cbn [andb negb]. destruct (cons_facts x Hc) as [Hh _].
    destruct t as [|c t']; cbn [conj_rest]; [lia|]. rewrite Hh. cbn [andb]. lia. }
  destruct (x =? B_HASANTA) eqn:Hh.
  { (* hasanta: by well-formedness a consonant follows *)
    destruct t as [|c t']; [cbn in Hx; discriminate|]. cbn [hd] in Hx.
    cbn [reph_scan conj_rest]. rewrite Hx, Hh. cbn [andb negb].
    cbn [wf_r] in Hwf. apply andb_prop in Hwf. destruct Hwf as [_ Hwf].
    rewrite IH; [lia | cbn in Hlen; lia | exact Hwf | | lia].
    destruct HV as [HV|[HV|HV]]; [left|right;left|right;right]; auto; lia. }
  assert (Hrest : conj_rest (x :: t) = 0%nat).
  { destruct t as [|c t']; [reflexivity|]. cbn [conj_rest]. rewrite Hh. reflexivity. }
  rewrite Hrest.
  destruct (is_vowel x) eqn:Hv.
  { destruct V; [lia|].
    assert (E : (Nat.eqb idx 0 || Ch && Nat.eqb idx 1) = false).
    { destruct HV as [HV|[HV|HV]]; [discriminate| |].
      - subst Ch. cbn [andb]. rewrite orb_false_r. apply PeanoNat.Nat.eqb_neq. lia.
      - assert (Nat.eqb idx 0 = false) by (apply PeanoNat.Nat.eqb_neq; lia).
        assert (Nat.eqb idx 1 = false) by (apply PeanoNat.Nat.eqb_neq; lia).
        rewrite H, H0, andb_false_r. reflexivity. }
    rewrite E. lia. }
  destruct (x =? B_CHANDRA).
  { assert (Nat.eqb idx 0 = false) as -> by (apply PeanoNat.Nat.eqb_neq; lia). lia. }
  lia.
Qed.

Lemma wf_r_tl x t : wf_r (x :: t) = true -> wf_r t = true.
Proof. cbn [wf_r]. intros H. apply andb_prop in H. tauto. Qed.

(** Decision and scan of the model agree with the specification's span. *)
Lemma model_span rb :
  wf_r rb = true ->
  (if is_reph_moveable rb then reph_scan rb 0 false false false false 0 else 0%nat) = reph_span rb.
Proof.
  intros Hwf. unfold is_reph_moveable, reph_span.
  destruct single_facts as [F1 [F2 [F3 [F4 [F5 F6]]]]].
  destruct rb as [|c0 t0].
  { cbn [hd tl]. replace (0 =? B_CHANDRA) with false by reflexivity.
    cbn [conj_len]. repeat match goal with H : _ = false |- _ => rewrite H end. reflexivity. }
  cbn [hd tl]. pose proof (wf_r_tl _ _ Hwf) as Hwf0.
  destruct (c0 =? B_CHANDRA) eqn:Hch.
  - (* chandrabindu last *)
    apply N.eqb_eq in Hch. subst c0.
    destruct t0 as [|v t1].
    { cbn [hd tl conj_len]. repeat match goal with H : _ = false |- _ => rewrite H end. reflexivity. }
    cbn [hd tl]. pose proof (wf_r_tl _ _ Hwf0) as Hwf1.
    destruct (is_vowel v) eqn:Hv.
    + destruct (vowel_facts v Hv) as [Hvc [Hvh Hvch]]. rewrite Hvc. cbn [orb andb].
      destruct t1 as [|c t2].
      { cbn [hd conj_len]. match goal with H : is_pure_consonant 0 = false |- _ => rewrite H end. reflexivity. }
      cbn [hd conj_len]. destruct (is_pure_consonant c) eqn:Hc; [|reflexivity].
      cbn [reph_scan].
      match goal with H : is_pure_consonant B_CHANDRA = false |- _ => rewrite H end.
      replace (B_CHANDRA =? B_HASANTA) with false by reflexivity.
      match goal with H : is_vowel B_CHANDRA = false |- _ => rewrite H end.
      replace (B_CHANDRA =? B_CHANDRA) with true by reflexivity. cbn [Nat.eqb].
      rewrite Hvc, Hvh, Hv. cbn [Nat.eqb orb andb]. rewrite Hc. cbn [andb].
      rewrite (scan_after_consonant (length t2)); auto; try lia. exact (wf_r_tl _ _ Hwf1).
    + cbn [andb orb]. rewrite orb_false_r.
      cbn [conj_len]. destruct (is_pure_consonant v) eqn:Hc; [|reflexivity].
      cbn [reph_scan].
      match goal with H : is_pure_consonant B_CHANDRA = false |- _ => rewrite H end.
      replace (B_CHANDRA =? B_HASANTA) with false by reflexivity.
      match goal with H : is_vowel B_CHANDRA = false |- _ => rewrite H end.
      replace (B_CHANDRA =? B_CHANDRA) with true by reflexivity. cbn [Nat.eqb].
      rewrite Hc. cbn [andb].
      rewrite (scan_after_consonant (length t1)); auto; lia.
  - destruct (is_vowel c0) eqn:Hv.
    + destruct (vowel_facts c0 Hv) as [Hvc [Hvh Hvch]]. rewrite Hvc. cbn [orb andb].
      destruct t0 as [|c t1].
      { cbn [hd conj_len]. match goal with H : is_pure_consonant 0 = false |- _ => rewrite H end. reflexivity. }
      cbn [hd conj_len]. destruct (is_pure_consonant c) eqn:Hc; [|reflexivity].
      cbn [reph_scan]. rewrite Hvc, Hvh, Hv. cbn [Nat.eqb orb]. rewrite Hc. cbn [andb].
      rewrite (scan_after_consonant (length t1)); auto; try lia. exact (wf_r_tl _ _ Hwf0).
    + cbn [andb]. rewrite orb_false_r. cbn [conj_len].
      destruct (is_pure_consonant c0) eqn:Hc; [|reflexivity].
      cbn [reph_scan]. rewrite Hc. cbn [andb].
      rewrite (scan_after_consonant (length t0)); auto; lia.
Qed.

Lemma scan_le : forall l idx a b c d step, (reph_scan l idx a b c d step <= step + length l)%nat.
Proof.
  induction l as [|x t IH]; intros; cbn [reph_scan length]; [lia|].
  repeat match goal with |- context [if ?b then _ else _] => destruct b end;
    try lia; try (etransitivity; [apply IH|lia]).
Qed.

Lemma model_reph_shape p :
  exists k, (k <= length p)%nat /\
    (k = if is_reph_moveable (rev p) then reph_scan (rev p) 0 false false false false 0 else 0%nat) /\
    model_reph p = firstn (length p - k) p ++ reph ++ skipn (length p - k) p.
Proof.
  unfold model_reph, insert_old_style_reph.
  destruct (is_reph_moveable (rev p)).
  - set (k := reph_scan (rev p) 0 false false false false 0). exists k.
    assert (Hk : (k <= length p)%nat).
    { unfold k. etransitivity; [apply scan_le|]. rewrite rev_length. lia. }
    split; [exact Hk|]. split; [reflexivity|].
    rewrite !rev_app_distr. rewrite firstn_rev, skipn_rev, !rev_involutive.
    cbn [rev app]. rewrite <- app_assoc. reflexivity.
  - exists 0%nat. split; [lia|]. split; [reflexivity|].
    rewrite PeanoNat.Nat.sub_0_r, firstn_all, skipn_all. cbn [rev]. rewrite rev_involutive, <- app_assoc. reflexivity.
Qed.

(** Conservation: for EVERY text the reph key inserts exactly the reph at one position. *)
Lemma reph_conserves p :
  exists j, (j <= length p)%nat /\ model_reph p = firstn j p ++ reph ++ skipn j p.
Proof.
  destruct (model_reph_shape p) as [k [Hk [_ E]]]. exists (length p - k)%nat. split; [lia | exact E].
Qed.

(** Placement: for every text whose hasantas all follow a consonant the model is the specification. *)
Lemma reph_placement p : wf_hasanta p = true -> model_reph p = reph_spec p.
Proof.
  intros Hwf. destruct (model_reph_shape p) as [k [_ [Ek E]]].
  unfold reph_spec. rewrite <- (model_span (rev p) Hwf), <- Ek. exact E.
Qed.

Lemma reph_off o rb pend :
  o_old_reph o = false -> o_kar_order o = false ->
  process_key_value o rb pend reph = (push_str rb reph, pend).
Proof.
  intros Hr Hk. rewrite pkv_is_rule_table by exact Hk. unfold rule_table.
  replace (str_eqb reph zofola) with false by reflexivity. rewrite Hr, andb_false_r.
  unfold reph. replace (is_kar B_R) with false by reflexivity.
  replace (B_R =? B_HASANTA) with false by reflexivity. replace (B_R =? B_LENGTH_MARK) with false by reflexivity.
  cbn [andb]. unfold push_str. rewrite rev_app_distr, rev_involutive. reflexivity.
Qed.

(** ** The declarative form of the placement clause: p = q ++ conjunct ++ optional vowel (sign) ++ optional chandrabindu *)
Lemma conjunct_snoc r c : conjunct r -> is_pure_consonant c = true -> conjunct (r ++ [B_HASANTA; c]).
Proof. induction 1 as [c0 H0 | c0 l H0 Hl IH]; intros Hc; cbn [app]; [apply conj_more; [exact H0 | apply conj_one; exact Hc] | apply conj_more; [exact H0 | apply IH; exact Hc]]. Qed.

Lemma conjunct_rev l : conjunct l -> conjunct (rev l).
Proof.
  induction 1 as [c H0 | c l H0 Hl IH]; cbn [rev]; [apply conj_one; exact H0|].
  rewrite <- app_assoc. cbn [app]. apply conjunct_snoc; assumption.
Qed.

Lemma conjunct_hd l : conjunct l -> is_pure_consonant (hd 0 l) = true /\ l <> [].
Proof. destruct 1; cbn; split; auto; discriminate. Qed.

Lemma conj_rest_stop t : (hd 0 t =? B_HASANTA) = false -> conj_rest t = O.
Proof. destruct t as [|h [|c t']]; cbn [conj_rest hd]; intros H; [reflexivity | reflexivity | rewrite H; reflexivity]. Qed.

Lemma conj_len_conjunct r t : conjunct r -> (hd 0 t =? B_HASANTA) = false -> conj_len (r ++ t) = length r.
Proof.
  intros Hr Ht. induction Hr as [c H0 | c l H0 Hl IH].
  - cbn [app conj_len length]. rewrite H0, (conj_rest_stop t Ht). reflexivity.
  - destruct (conjunct_hd l Hl) as [Hc' Hne]. destruct l as [|c' l']; [congruence|]. cbn [hd] in Hc'.
    cbn [app conj_len length conj_rest] in *. rewrite H0. replace (B_HASANTA =? B_HASANTA) with true by reflexivity. rewrite Hc'. cbn [andb].
    rewrite Hc' in IH. inversion IH as [E]. rewrite E. reflexivity.
Qed.

Lemma reph_placement_grammar q cj v ch :
  conjunct cj -> (v = [] \/ exists x, v = [x] /\ is_vowel x = true) -> (ch = [] \/ ch = [B_CHANDRA]) ->
  (last q 0 =? B_HASANTA) = false ->
  reph_spec (q ++ cj ++ v ++ ch) = q ++ reph ++ cj ++ v ++ ch.
Proof.
  intros Hcj Hv Hch Hq.
  assert (Hq' : (hd 0 (rev q) =? B_HASANTA) = false). { rewrite <- last_rev_hd, rev_involutive. exact Hq. }
  pose proof (conjunct_rev cj Hcj) as Hr. destruct (conjunct_hd _ Hr) as [Hc0 Hne].
  assert (CL : conj_len (rev cj ++ rev q) = length cj) by (rewrite (conj_len_conjunct _ _ Hr Hq'), rev_length; reflexivity).
  assert (Span : reph_span (rev (q ++ cj ++ v ++ ch)) = (length cj + length v + length ch)%nat).
  { rewrite !rev_app_distr, <- !app_assoc. unfold reph_span.
    destruct (rev cj) as [|c0 rc] eqn:Erc; [congruence|]. cbn [hd] in Hc0. destruct (cons_facts c0 Hc0) as (C1 & C2 & C3). cbn [app] in CL.
    assert (Lpos : exists k, length cj = S k) by (destruct cj; [inversion Hcj | eexists; reflexivity]). destruct Lpos as [k Ek].
    destruct Hch as [-> | ->], Hv as [-> | (x & -> & Hx)]; cbn [rev app length].
    - rewrite C2, C3, CL, Ek. lia.
    - destruct (vowel_facts x Hx) as (V1 & V2 & V3). rewrite V3, Hx, CL, Ek. lia.
    - replace (B_CHANDRA =? B_CHANDRA) with true by reflexivity. rewrite C3, CL, Ek. lia.
    - replace (B_CHANDRA =? B_CHANDRA) with true by reflexivity. rewrite Hx, CL, Ek. lia. }
  unfold reph_spec. rewrite Span, !app_length.
  replace (length q + (length cj + (length v + length ch)) - (length cj + length v + length ch))%nat with (length q) by lia.
  rewrite firstn_app, firstn_all, PeanoNat.Nat.sub_diag. cbn [firstn]. rewrite app_nil_r.
  rewrite skipn_app, skipn_all, PeanoNat.Nat.sub_diag. cbn [skipn app]. reflexivity.
Qed.
