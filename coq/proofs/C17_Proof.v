(** Smart quotes curl only the quotes that wrap a word (C17). *)
From Coq Require Import Lia.
Require Import Riti.model.Base Riti.model.Chars Riti.model.Split Riti.model.Rank Riti.model.Layout Riti.model.Phonetic
        Riti.model.FixedCompose Riti.model.FixedSuggest
        Riti.proofs.Rank_Proof Riti.proofs.Phonetic_Proof Riti.proofs.C03_Proof Riti.proofs.C05_Proof Riti.proofs.Lists_Proof Riti.proofs.Fixed_Proof.

Definition uncurl (c : N) : N := if (c =? 0x2018) || (c =? 0x2019) then QUOTE1 else if (c =? 0x201C) || (c =? 0x201D) then QUOTE2 else c.
Definition no_curly (s : str) : Prop := Forall (fun c => uncurl c = c) s.

Lemma uncurl_open c : uncurl c = c -> uncurl (curl_open c) = c.
Proof.
  intros H. unfold curl_open. destruct (c =? QUOTE1) eqn:E1; [apply N.eqb_eq in E1; subst; reflexivity|].
  destruct (c =? QUOTE2) eqn:E2; [apply N.eqb_eq in E2; subst; reflexivity | exact H].
Qed.
Lemma uncurl_close c : uncurl c = c -> uncurl (curl_close c) = c.
Proof.
  intros H. unfold curl_close. destruct (c =? QUOTE1) eqn:E1; [apply N.eqb_eq in E1; subst; reflexivity|].
  destruct (c =? QUOTE2) eqn:E2; [apply N.eqb_eq in E2; subst; reflexivity | exact H].
Qed.

(** the quoter: nothing for an empty word; otherwise only straight quotes of the two outer parts change, and
    mapping curly quotes back restores the input *)
Lemma smart_quoter_empty_word p t : smart_quoter (p, [], t) = (p, [], t).
Proof. reflexivity. Qed.
Lemma smart_quoter_word p w t : w <> [] -> smart_quoter (p, w, t) = (map curl_open p, w, map curl_close t).
Proof. intros H. unfold smart_quoter, sp_word, sp_pre, sp_trail. cbn [fst snd]. destruct w; [congruence | reflexivity]. Qed.
Lemma smart_quoter_uncurl p w t : no_curly p -> no_curly t ->
  let '(p', w', t') := smart_quoter (p, w, t) in map uncurl p' = p /\ w' = w /\ map uncurl t' = t.
Proof.
  intros Hp Ht. destruct w as [|a w].
  - cbn. split; [|split; [reflexivity|]]; [clear Ht; induction Hp | clear Hp; induction Ht]; cbn [map]; try reflexivity; f_equal; assumption.
  - rewrite smart_quoter_word by discriminate. split; [|split; [reflexivity|]]; rewrite map_map.
    + clear Ht. induction Hp as [|c r Hc Hr IH]; cbn [map]; [reflexivity|]. rewrite uncurl_open by exact Hc. f_equal. exact IH.
    + clear Hp. induction Ht as [|c r Hc Hr IH]; cbn [map]; [reflexivity|]. rewrite uncurl_close by exact Hc. f_equal. exact IH.
Qed.

(** sorting commutes with any map that keeps the rank of every item *)
Definition keeps_rank (f : rank -> rank) : Prop := forall a b, rank_le (f a) (f b) = rank_le a b.

Lemma insert_map f x l : keeps_rank f -> insert_rank (f x) (map f l) = map f (insert_rank x l).
Proof.
  intros H. induction l as [|y t IH]; cbn [insert_rank map]; [reflexivity|].
  rewrite H. destruct (rank_le y x); cbn [map]; [rewrite IH; reflexivity | reflexivity].
Qed.
Lemma sort_map f l : keeps_rank f -> sort_ranks (map f l) = map f (sort_ranks l).
Proof.
  intros H. unfold sort_ranks. change (@nil rank) with (map f []) at 1. generalize (@nil rank).
  induction l as [|x t IH]; intros acc; cbn [fold_left map]; [reflexivity|]. rewrite insert_map by exact H. apply IH.
Qed.

Lemma retext_keeps_rank (g : str -> str) : keeps_rank (fun x => set_rstr x (g (rstr x))).
Proof. intros a b. unfold rank_le. destruct a, b; reflexivity. Qed.

Section C17.
Variable Q : oracles.

Definition with_smart (c : pcfg) (b : bool) : pcfg := {| c_english := c_english c; c_suggest := c_suggest c; c_ansi := c_ansi c; c_smart := b |}.

(** text that is only punctuation (no word part): the option changes nothing at all *)
Lemma no_word_same c m uac sels term :
  sp_word (split term false) = [] -> suggest Q (with_smart c true) m uac sels term = suggest Q (with_smart c false) m uac sels term.
Proof.
  intros Hw. unfold suggest. cbn [c_smart with_smart c_ansi c_english].
  assert (E : smart_quoter (conv Q (sp_pre (split term false)), sp_word (split term false), conv Q (sp_trail (split term false)))
              = (conv Q (sp_pre (split term false)), sp_word (split term false), conv Q (sp_trail (split term false)))).
  { rewrite Hw. reflexivity. }
  rewrite E. reflexivity.
Qed.

(** the parts with the option on are the curled parts with it off; the word is the same *)
Lemma parts_on_off c term :
  sp_word (split term false) <> [] ->
  sg_pre Q (with_smart c true) term = map curl_open (sg_pre Q (with_smart c false) term) /\
  sg_word Q (with_smart c true) term = sg_word Q (with_smart c false) term /\
  sg_tr Q (with_smart c true) term = map curl_close (sg_tr Q (with_smart c false) term).
Proof.
  intros Hw. unfold sg_pre, sg_word, sg_tr, sg_sp. cbn [c_smart with_smart]. rewrite smart_quoter_word by exact Hw.
  unfold sp_pre, sp_word, sp_trail. cbn [fst snd]. auto.
Qed.

(** the dictionary part and the transliteration: the same items in the same order with the same ranks; only the
    wrapping differs, and it differs by the curling of the two outer parts only *)
Lemma l0_on_off c m uac term :
  sp_word (split term false) <> [] ->
  let pf := sg_pre Q (with_smart c false) term in let tf := sg_tr Q (with_smart c false) term in
  let core := swd_core Q m uac (sg_word Q (with_smart c false) term) in
  sg_l0 Q (with_smart c false) m uac term = (match pf, tf with [], [] => core | _, _ => map (wrap pf tf) core end) /\
  sg_l0 Q (with_smart c true) m uac term = (match pf, tf with [], [] => core | _, _ => map (wrap (map curl_open pf) (map curl_close tf)) core end).
Proof.
  intros Hw. cbn zeta. destruct (parts_on_off c term Hw) as (Ep & Ew & Et).
  unfold sg_l0. rewrite !swd_eq, Ep, Ew, Et. split; [reflexivity|].
  destruct (sg_pre Q (with_smart c false) term), (sg_tr Q (with_smart c false) term); reflexivity.
Qed.

Lemma l0_same_length c m uac term :
  length (sg_l0 Q (with_smart c true) m uac term) = length (sg_l0 Q (with_smart c false) m uac term).
Proof.
  destruct (sp_word (split term false)) eqn:Hw.
  - unfold sg_l0, sg_pre, sg_word, sg_tr, sg_sp. cbn [c_smart with_smart]. unfold smart_quoter at 1 2 3. unfold sp_word at 1 3 5. cbn [fst snd]. rewrite Hw. reflexivity.
  - assert (Hne : sp_word (split term false) <> []) by (rewrite Hw; discriminate).
    destruct (l0_on_off c m uac term Hne) as (A & B). rewrite A, B.
    destruct (sg_pre Q _ term), (sg_tr Q _ term); rewrite ?map_length; reflexivity.
Qed.

(** *** fixed method: the whole list, position by position *)
Definition xwith_smart (c : xcfg) (b : bool) : xcfg :=
  {| x_opts := x_opts c; x_numpad := x_numpad c; x_suggest := x_suggest c; x_english := x_english c; x_ansi := x_ansi c; x_smart := b |}.

Lemma fixed_no_word_same c buffer typed :
  sp_word (split buffer true) = [] -> dictionary_suggestion Q (xwith_smart c true) buffer typed = dictionary_suggestion Q (xwith_smart c false) buffer typed.
Proof.
  intros Hw. unfold dictionary_suggestion, dictionary_suggestion_parts. cbn [x_smart xwith_smart x_ansi x_opts x_english].
  assert (E : smart_quoter (split buffer true) = split buffer true).
  { unfold smart_quoter. rewrite Hw. reflexivity. }
  rewrite E. reflexivity.
Qed.

Lemma fixed_same_length c buffer typed :
  length (dictionary_suggestion Q (xwith_smart c true) buffer typed) = length (dictionary_suggestion Q (xwith_smart c false) buffer typed).
Proof.
  destruct (sp_word (split buffer true)) eqn:Hw; [rewrite fixed_no_word_same by exact Hw; reflexivity|].
  rewrite !ds_eq. unfold x_english_on. cbn [x_english x_ansi xwith_smart].
  assert (L : length (ds_l3 Q (xwith_smart c true) buffer typed) = length (ds_l3 Q (xwith_smart c false) buffer typed)).
  { unfold ds_l3, ds_word, ds_first, ds_last, ds_sp. cbn [x_smart xwith_smart x_ansi x_opts].
    destruct (split buffer true) as [[p w] t]. unfold sp_word in Hw. cbn [fst snd] in Hw. subst w.
    unfold smart_quoter, sp_word, sp_pre, sp_trail. cbn [fst snd].
    set (l1 := dedup_ranks _).
    assert (A : forall f g, length (match map curl_open p, map curl_close t with [], [] => l1 | _, _ => map f l1 end) = length (match p, t with [], [] => l1 | _, _ => map g l1 end)).
    { intros. destruct p, t; cbn [map]; rewrite ?map_length; reflexivity. }
    destruct (x_ansi c); [apply A|]. destruct (emoticon Q typed); [rewrite !app_length; f_equal; apply A|].
    destruct (emoji_bn Q _); [|apply A]. rewrite !app_length. f_equal; [apply A|].
    assert (El : forall a b a' b' es r, length (emoji_ranked a b es r) = length (emoji_ranked a' b' es r)).
    { intros a b a' b' es. induction es; intros r; cbn [emoji_ranked length]; [reflexivity | f_equal; apply IHes]. }
    apply El. }
  assert (S : forall k, length (firstn k (sort_ranks (ds_l3 Q (xwith_smart c true) buffer typed))) = length (firstn k (sort_ranks (ds_l3 Q (xwith_smart c false) buffer typed)))).
  { intros k. rewrite !firstn_length, !sort_length, L. reflexivity. }
  destruct (x_english c && negb (x_ansi c) && negb (str_eqb buffer typed)); rewrite !app_length, S; reflexivity.
Qed.

End C17.

(** *** the whole fixed-method list corresponds position by position *)

(** [a] (option on) against [b] (option off): the same item, or the same item with the same core text re-wrapped in
    the curled outer parts *)
Definition curl_rel (p t : str) (a b : rank) : Prop :=
  a = b \/ exists s, rstr b = p ++ s ++ t /\ a = set_rstr b (map curl_open p ++ s ++ map curl_close t).

Lemma set_rstr_same x : set_rstr x (rstr x) = x. Proof. destruct x; reflexivity. Qed.
Lemma set_rstr_twice x s s' : set_rstr (set_rstr x s) s' = set_rstr x s'. Proof. destruct x; reflexivity. Qed.
Lemma rank_le_retext a b s s' : rank_le (set_rstr a s) (set_rstr b s') = rank_le a b.
Proof. unfold rank_le. destruct a, b; reflexivity. Qed.

Lemma curl_rel_retext p t a b : curl_rel p t a b -> exists s, a = set_rstr b s.
Proof. intros [->|(s & _ & ->)]; [exists (rstr b); symmetry; apply set_rstr_same | eauto]. Qed.

Lemma curl_rel_le p t a b a' b' : curl_rel p t a b -> curl_rel p t a' b' -> rank_le a a' = rank_le b b'.
Proof. intros H H'. apply curl_rel_retext in H, H'. destruct H as [s ->], H' as [s' ->]. apply rank_le_retext. Qed.

Lemma insert_rel p t x y : curl_rel p t x y -> forall l l', Forall2 (curl_rel p t) l l' -> Forall2 (curl_rel p t) (insert_rank x l) (insert_rank y l').
Proof.
  intros Hxy l l' F. induction F as [|a b l l' Hab F IH]; cbn [insert_rank]; [constructor; [exact Hxy | constructor]|].
  rewrite (curl_rel_le p t a b x y Hab Hxy). destruct (rank_le b y); [constructor; [exact Hab | exact IH] | constructor; [exact Hxy | constructor; assumption]].
Qed.

Lemma sort_rel p t l l' : Forall2 (curl_rel p t) l l' -> Forall2 (curl_rel p t) (sort_ranks l) (sort_ranks l').
Proof.
  unfold sort_ranks. assert (G : Forall2 (curl_rel p t) (@nil rank) []) by constructor. revert G. generalize (@nil rank) at 1 3. generalize (@nil rank).
  intros acc' acc G F. revert acc acc' G. induction F as [|x y l l' Hxy F IH]; intros acc acc' G; cbn [fold_left]; [exact G|].
  apply IH. apply insert_rel; assumption.
Qed.

Lemma firstn_rel {A B} (R : A -> B -> Prop) n : forall l l', Forall2 R l l' -> Forall2 R (firstn n l) (firstn n l').
Proof. induction n as [|n IH]; intros l l' F; [constructor|]. destruct F; cbn [firstn]; constructor; auto. Qed.

Lemma map_nil_iff {A B} (f : A -> B) l : map f l = [] <-> l = [].
Proof. destruct l; cbn; split; congruence. Qed.

Section C17F.
Variable Q : oracles.

Lemma fixed_l3_rel c buffer typed :
  sp_word (split buffer true) <> [] ->
  Forall2 (curl_rel (sp_pre (split buffer true)) (sp_trail (split buffer true)))
          (ds_l3 Q (xwith_smart c true) buffer typed) (ds_l3 Q (xwith_smart c false) buffer typed).
Proof.
  intros Hw. unfold ds_l3, ds_word, ds_first, ds_last, ds_sp. cbn [x_smart xwith_smart x_ansi x_opts].
  destruct (split buffer true) as [[p w] t]. unfold sp_word, sp_pre, sp_trail in *. cbn [fst snd] in *.
  rewrite smart_quoter_word by exact Hw. cbn [fst snd].
  set (l1 := dedup_ranks _).
  assert (A : Forall2 (curl_rel p t) (match map curl_open p, map curl_close t with [], [] => l1 | _, _ => map (wrap (map curl_open p) (map curl_close t)) l1 end)
                                     (match p, t with [], [] => l1 | _, _ => map (wrap p t) l1 end)).
  { assert (W : Forall2 (curl_rel p t) (map (wrap (map curl_open p) (map curl_close t)) l1) (map (wrap p t) l1)).
    { induction l1 as [|x r IH]; cbn [map]; constructor; [|exact IH]. right. exists (rstr x). split; [apply rstr_wrap|].
      unfold wrap. rewrite set_rstr_twice. reflexivity. }
    destruct p, t; cbn [map]; try exact W. clear W. induction l1; constructor; [left; reflexivity | assumption]. }
  destruct (x_ansi c); [exact A|]. destruct (emoticon Q typed).
  - apply Forall2_app; [exact A|]. constructor; [left; reflexivity | constructor].
  - destruct (emoji_bn Q _) as [es|]; [|exact A]. apply Forall2_app; [exact A|].
    generalize 1. induction es as [|e es IH]; intros r; cbn [emoji_ranked]; constructor; [|apply IH].
    right. exists e. split; reflexivity.
Qed.

(** every candidate with the option on is the candidate at the same position with it off, its core text re-wrapped in
    the curled outer parts; the emoticon's emoji and the raw key text are identical in both lists *)
Lemma fixed_lists_correspond c buffer typed :
  sp_word (split buffer true) <> [] ->
  Forall2 (curl_rel (sp_pre (split buffer true)) (sp_trail (split buffer true)))
          (dictionary_suggestion Q (xwith_smart c true) buffer typed) (dictionary_suggestion Q (xwith_smart c false) buffer typed).
Proof.
  intros Hw. rewrite !ds_eq. unfold x_english_on. cbn [x_english x_ansi xwith_smart].
  pose proof (sort_rel _ _ _ _ (fixed_l3_rel c buffer typed Hw)) as S.
  destruct (x_english c && negb (x_ansi c) && negb (str_eqb buffer typed)); apply Forall2_app; try (apply firstn_rel; exact S).
  - constructor; [left; reflexivity | constructor].
  - constructor.
Qed.

End C17F.

(** *** the whole phonetic list, under the one condition the duplicate check brings in *)
Section C17P.
Variable Q : oracles.

Lemma push_checked_rel p t x l l' :
  Forall2 (curl_rel p t) l l' -> rank_mem x l = rank_mem x l' -> Forall2 (curl_rel p t) (push_checked l x) (push_checked l' x).
Proof.
  intros F E. unfold push_checked. rewrite E. destruct (rank_mem x l'); [exact F|]. apply Forall2_app; [exact F|]. constructor; [left; reflexivity | constructor].
Qed.

Lemma phon_l0_rel c m uac term :
  sp_word (split term false) <> [] ->
  Forall2 (curl_rel (sg_pre Q (with_smart c false) term) (sg_tr Q (with_smart c false) term))
          (sg_l0 Q (with_smart c true) m uac term) (sg_l0 Q (with_smart c false) m uac term).
Proof.
  intros Hw. destruct (l0_on_off Q c m uac term Hw) as (A & B). cbn zeta in A, B. rewrite A, B.
  set (p := sg_pre Q (with_smart c false) term). set (t := sg_tr Q (with_smart c false) term). set (core := swd_core Q m uac _).
  assert (W : Forall2 (curl_rel p t) (map (wrap (map curl_open p) (map curl_close t)) core) (map (wrap p t) core)).
  { induction core as [|x r IH]; cbn [map]; constructor; [|exact IH]. right. exists (rstr x). split; [apply rstr_wrap|].
    unfold wrap. rewrite set_rstr_twice. reflexivity. }
  destruct p, t; try exact W. clear W. induction core; constructor; [left; reflexivity | assumption].
Qed.

(** the three places where the two settings could part: the two comparisons of the raw text with the leading part
    (which is curled in one setting) and the two duplicate checks of the raw text against the list (whose texts are
    curled in one setting) *)
Record same_checks (c : pcfg) (m : memo) (uac : list (str * str)) (term : str) : Prop := {
  sc_pre : str_eqb term (sg_pre Q (with_smart c true) term) = str_eqb term (sg_pre Q (with_smart c false) term);
  sc_l0 : rank_mem (RLast term 1) (sg_l0 Q (with_smart c true) m uac term) = rank_mem (RLast term 1) (sg_l0 Q (with_smart c false) m uac term);
  sc_l1 : rank_mem (RLast term 3) (fst (sg_l1 Q (with_smart c true) m uac term)) = rank_mem (RLast term 3) (fst (sg_l1 Q (with_smart c false) m uac term))
}.

Lemma phon_l1_rel c m uac term :
  sp_word (split term false) <> [] -> same_checks c m uac term ->
  Forall2 (curl_rel (sg_pre Q (with_smart c false) term) (sg_tr Q (with_smart c false) term))
          (fst (sg_l1 Q (with_smart c true) m uac term)) (fst (sg_l1 Q (with_smart c false) m uac term))
  /\ snd (sg_l1 Q (with_smart c true) m uac term) = snd (sg_l1 Q (with_smart c false) m uac term).
Proof.
  intros Hw [Hp H0 _]. pose proof (phon_l0_rel c m uac term Hw) as F0. destruct (parts_on_off Q c term Hw) as (Ep & Ew & Et).
  unfold sg_l1. cbn [c_ansi with_smart]. destruct (c_ansi c); [split; [exact F0 | reflexivity]|].
  destruct (emoticon Q term) as [e|].
  - cbn [fst snd]. split; [|reflexivity]. rewrite Hp. apply Forall2_app; [|constructor; [left; reflexivity | constructor]].
    destruct (str_eqb term (sg_pre Q (with_smart c false) term)); [exact F0|]. apply push_checked_rel; assumption.
  - rewrite Ew. destruct (emoji_name Q (sg_word Q (with_smart c false) term)) as [es|]; cbn [fst snd]; [|split; [exact F0 | reflexivity]].
    split; [|reflexivity]. apply Forall2_app; [exact F0|]. rewrite Ep, Et.
    generalize 1. induction es as [|e es IH]; intros r; cbn [emoji_ranked]; constructor; [|apply IH].
    right. exists e. split; reflexivity.
Qed.

(** every candidate with the option on is the candidate at the same position with it off, re-wrapped in the curled
    outer parts, or identical (the raw typed text, the emoticon's emoji) *)
Lemma phon_lists_correspond c m uac sels term :
  sp_word (split term false) <> [] -> same_checks c m uac term ->
  let '(_, l_on, _, _) := suggest Q (with_smart c true) m uac sels term in
  let '(_, l_off, _, _) := suggest Q (with_smart c false) m uac sels term in
  Forall2 (curl_rel (sg_pre Q (with_smart c false) term) (sg_tr Q (with_smart c false) term)) l_on l_off.
Proof.
  intros Hw SC. rewrite !suggest_eq. apply sort_rel. destruct (phon_l1_rel c m uac term Hw SC) as (F1 & E1).
  destruct SC as [Hp _ H1]. unfold sg_l2.
  destruct (sg_l1 Q (with_smart c true) m uac term) as [l1 a1], (sg_l1 Q (with_smart c false) m uac term) as [l1' a1']. cbn [fst snd] in *. subst a1'.
  unfold english_on. cbn [c_english c_ansi with_smart]. rewrite Hp.
  destruct (c_english c && negb (c_ansi c) && negb a1 && negb (str_eqb term (sg_pre Q (with_smart c false) term))); [|exact F1].
  apply push_checked_rel; assumption.
Qed.

End C17P.

(** *** preselection: the same index in both settings *)

(** the relation again, saying which items may be identical in both lists *)
Definition curl_rel_id (Id : rank -> Prop) (p t : str) (a b : rank) : Prop :=
  (a = b /\ Id b) \/ exists s, rstr b = p ++ s ++ t /\ a = set_rstr b (map curl_open p ++ s ++ map curl_close t).

Lemma curl_rel_id_weaken Id p t a b : curl_rel_id Id p t a b -> curl_rel p t a b.
Proof. intros [[-> _]|H]; [left; reflexivity | right; exact H]. Qed.

Lemma insert_rel_id Id p t x y : curl_rel_id Id p t x y -> forall l l', Forall2 (curl_rel_id Id p t) l l' -> Forall2 (curl_rel_id Id p t) (insert_rank x l) (insert_rank y l').
Proof.
  intros Hxy l l' F. induction F as [|a b l l' Hab F IH]; cbn [insert_rank]; [constructor; [exact Hxy | constructor]|].
  rewrite (curl_rel_le p t a b x y (curl_rel_id_weaken _ _ _ _ _ Hab) (curl_rel_id_weaken _ _ _ _ _ Hxy)).
  destruct (rank_le b y); [constructor; [exact Hab | exact IH] | constructor; [exact Hxy | constructor; assumption]].
Qed.

Lemma sort_rel_id Id p t l l' : Forall2 (curl_rel_id Id p t) l l' -> Forall2 (curl_rel_id Id p t) (sort_ranks l) (sort_ranks l').
Proof.
  unfold sort_ranks. assert (G : Forall2 (curl_rel_id Id p t) (@nil rank) []) by constructor. revert G. generalize (@nil rank) at 1 3. generalize (@nil rank).
  intros acc' acc G F. revert acc acc' G. induction F as [|x y l l' Hxy F IH]; intros acc acc' G; cbn [fold_left]; [exact G|].
  apply IH. apply insert_rel_id; assumption.
Qed.

Lemma rewrap_self x : exists s, rstr x = [] ++ s ++ [] /\ x = set_rstr x (map curl_open [] ++ s ++ map curl_close []).
Proof. exists (rstr x). cbn [map app]. rewrite app_nil_r. split; [reflexivity | symmetry; apply set_rstr_same]. Qed.

Lemma find_pos_rel (R : rank -> rank -> Prop) tgt tgt' :
  (forall a b, R a b -> str_eqb (rstr a) tgt = str_eqb (rstr b) tgt') ->
  forall l l', Forall2 R l l' -> forall k, find_pos tgt l k = find_pos tgt' l' k.
Proof.
  intros H l l' F. induction F as [|a b l l' Hab F IH]; intros k; cbn [find_pos]; [reflexivity|].
  rewrite (H a b Hab). destruct (str_eqb (rstr b) tgt'); [reflexivity | apply IH].
Qed.

Lemma wrap_inj' (f l a b : str) : f ++ a ++ l = f ++ b ++ l -> a = b.
Proof. intros E. apply app_inv_head in E. apply app_inv_tail in E. exact E. Qed.

Lemma str_eqb_neq a b : a <> b -> str_eqb a b = false.
Proof. intros H. destruct (str_eqb a b) eqn:E; [apply str_eqb_eq in E; contradiction | reflexivity]. Qed.

Lemma str_eqb_wrap p t a b : str_eqb (p ++ a ++ t) (p ++ b ++ t) = str_eqb a b.
Proof.
  destruct (str_eqb a b) eqn:E.
  - apply str_eqb_eq in E. subst. apply str_eqb_refl.
  - destruct (str_eqb (p ++ a ++ t) (p ++ b ++ t)) eqn:E'; [|reflexivity]. apply str_eqb_eq in E'. apply wrap_inj' in E'. subst. rewrite str_eqb_refl in E. discriminate.
Qed.

Section C17S.
Variable Q : oracles.

Definition phon_id (term : str) (b : rank) : Prop := rstr b = term \/ emoticon Q term = Some (rstr b).

Lemma push_checked_rel_id (Id : rank -> Prop) p t x l l' :
  Id x -> Forall2 (curl_rel_id Id p t) l l' -> rank_mem x l = rank_mem x l' -> Forall2 (curl_rel_id Id p t) (push_checked l x) (push_checked l' x).
Proof.
  intros I F E. unfold push_checked. rewrite E. destruct (rank_mem x l'); [exact F|]. apply Forall2_app; [exact F|]. constructor; [left; split; [reflexivity | exact I] | constructor].
Qed.

Lemma phon_l0_rel_id c m uac term :
  sp_word (split term false) <> [] ->
  Forall2 (curl_rel_id (phon_id term) (sg_pre Q (with_smart c false) term) (sg_tr Q (with_smart c false) term))
          (sg_l0 Q (with_smart c true) m uac term) (sg_l0 Q (with_smart c false) m uac term).
Proof.
  intros Hw. destruct (l0_on_off Q c m uac term Hw) as (A & B). cbn zeta in A, B. rewrite A, B.
  set (p := sg_pre Q (with_smart c false) term). set (t := sg_tr Q (with_smart c false) term). set (core := swd_core Q m uac _).
  assert (W : Forall2 (curl_rel_id (phon_id term) p t) (map (wrap (map curl_open p) (map curl_close t)) core) (map (wrap p t) core)).
  { induction core as [|x r IH]; cbn [map]; constructor; [|exact IH]. right. exists (rstr x). split; [apply rstr_wrap|].
    unfold wrap. rewrite set_rstr_twice. reflexivity. }
  destruct p, t; try exact W. clear W. induction core as [|x r IH]; constructor; [right; apply rewrap_self | exact IH].
Qed.

Lemma phon_lists_correspond_id c m uac sels term :
  sp_word (split term false) <> [] -> same_checks Q c m uac term ->
  let '(_, l_on, _, _) := suggest Q (with_smart c true) m uac sels term in
  let '(_, l_off, _, _) := suggest Q (with_smart c false) m uac sels term in
  Forall2 (curl_rel_id (phon_id term) (sg_pre Q (with_smart c false) term) (sg_tr Q (with_smart c false) term)) l_on l_off.
Proof.
  intros Hw [Hp H0 H1]. rewrite !suggest_eq. apply sort_rel_id.
  pose proof (phon_l0_rel_id c m uac term Hw) as F0. destruct (parts_on_off Q c term Hw) as (Ep & Ew & Et).
  assert (F1 : Forall2 (curl_rel_id (phon_id term) (sg_pre Q (with_smart c false) term) (sg_tr Q (with_smart c false) term))
                 (fst (sg_l1 Q (with_smart c true) m uac term)) (fst (sg_l1 Q (with_smart c false) m uac term))
               /\ snd (sg_l1 Q (with_smart c true) m uac term) = snd (sg_l1 Q (with_smart c false) m uac term)).
  { unfold sg_l1. cbn [c_ansi with_smart]. destruct (c_ansi c); [split; [exact F0 | reflexivity]|].
    destruct (emoticon Q term) as [e|] eqn:Ee.
    - cbn [fst snd]. split; [|reflexivity]. rewrite Hp. apply Forall2_app; [|constructor; [left; split; [reflexivity | right; exact Ee] | constructor]].
      destruct (str_eqb term (sg_pre Q (with_smart c false) term)); [exact F0|]. apply push_checked_rel_id; [left; reflexivity | assumption | assumption].
    - rewrite Ew. destruct (emoji_name Q (sg_word Q (with_smart c false) term)) as [es|]; cbn [fst snd]; [|split; [exact F0 | reflexivity]].
      split; [|reflexivity]. apply Forall2_app; [exact F0|]. rewrite Ep, Et.
      generalize 1. induction es as [|e es IH]; intros r; cbn [emoji_ranked]; constructor; [|apply IH].
      right. exists e. split; reflexivity. }
  destruct F1 as (F1 & E1). unfold sg_l2.
  destruct (sg_l1 Q (with_smart c true) m uac term) as [l1 a1], (sg_l1 Q (with_smart c false) m uac term) as [l1' a1']. cbn [fst snd] in *. subst a1'.
  unfold english_on. cbn [c_english c_ansi with_smart]. rewrite Hp.
  destruct (c_english c && negb (c_ansi c) && negb a1 && negb (str_eqb term (sg_pre Q (with_smart c false) term))); [|exact F1].
  apply push_checked_rel_id; [left; reflexivity | assumption | assumption].
Qed.

(** the text the selection looks for (a function of the word and the learned selections only) *)
Definition selected_text (sels : list (str * str)) (w : str) : str :=
  match assocS w sels with
  | Some item => item
  | None => if Nat.leb 2 (length w) then sel_by_suffix Q sels w (seq 1 (length w - 1)) else []
  end.

(** same preselected index, provided neither the raw text nor the emoticon's emoji is itself the text looked for *)
Lemma phon_preselection_same c m uac sels term :
  sp_word (split term false) <> [] -> same_checks Q c m uac term ->
  (forall x b, x = term \/ emoticon Q term = Some x ->
     x <> sg_pre Q (with_smart c b) term ++ selected_text sels (sg_word Q (with_smart c false) term) ++ sg_tr Q (with_smart c b) term) ->
  let '(_, _, _, s_on) := suggest Q (with_smart c true) m uac sels term in
  let '(_, _, _, s_off) := suggest Q (with_smart c false) m uac sels term in
  s_on = s_off.
Proof.
  intros Hw SC Hx. pose proof (phon_lists_correspond_id c m uac sels term Hw SC) as F. rewrite !suggest_eq in *.
  destruct (parts_on_off Q c term Hw) as (Ep & Ew & Et).
  unfold prev_selection. fold (selected_text sels (sg_word Q (with_smart c true) term)). fold (selected_text sels (sg_word Q (with_smart c false) term)).
  rewrite Ew.
  pose proof (fun x I => Hx x true I) as N1. pose proof (fun x I => Hx x false I) as N2. cbv beta in N1, N2. clear Hx.
  rewrite Ep, Et in *.
  remember (selected_text sels (sg_word Q (with_smart c false) term)) as sel eqn:Esel.
  remember (sg_pre Q (with_smart c false) term) as p eqn:Edp. remember (sg_tr Q (with_smart c false) term) as t eqn:Edt.
  assert (K : forall a b, curl_rel_id (phon_id term) p t a b ->
              str_eqb (rstr a) (map curl_open p ++ sel ++ map curl_close t) = str_eqb (rstr b) (p ++ sel ++ t)).
  { intros a b [[-> I]|(s0 & Eb & ->)].
    - assert (I' : rstr b = term \/ emoticon Q term = Some (rstr b)) by exact I.
      rewrite (str_eqb_neq _ _ (N1 _ I')), (str_eqb_neq _ _ (N2 _ I')). reflexivity.
    - rewrite rstr_set, Eb, !str_eqb_wrap. reflexivity. }
  rewrite (find_pos_rel _ _ _ K _ _ F O). reflexivity.
Qed.

End C17S.
