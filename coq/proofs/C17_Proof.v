(** Smart quotes curl only the quotes that wrap a word (C17). *)
From Coq Require Import Lia.
Require Import Riti.model.Base Riti.model.Chars Riti.model.Split Riti.model.Rank Riti.model.Layout Riti.model.Phonetic
        Riti.model.FixedCompose Riti.model.FixedSuggest
        Riti.proofs.Rank_Proof Riti.proofs.Phonetic_Proof Riti.proofs.C03_Proof Riti.proofs.C05_Proof Riti.proofs.Lists_Proof Riti.proofs.Fixed_Proof.

Definition uncurl (c : N) : N := if (c =? 0x2018) || (c =? 0x2019) then QUOTE1 else if (c =? 0x201C) || (c =? 0x201D) then QUOTE2 else c.
Definition no_curly (s : str) : Prop := Forall (fun c => uncurl c = c) s.

Lemma uncurl_open c : uncurl c = c -> uncurl (curl_open c) = c.
Proof.
  intros H. unfold curl_open. destruct (c =? QUOTE1) eqn:E1; [apply N.eqb_eq in E1; subst; reflexivity|].
  destruct (c =? QUOTE2) eqn:E2; [apply N.eqb_eq in E2; subst; reflexivity | exact H].
Qed.
Lemma uncurl_close c : uncurl c = c -> uncurl (curl_close c) = c.
Proof.
  intros H. unfold curl_close. destruct (c =? QUOTE1) eqn:E1; [apply N.eqb_eq in E1; subst; reflexivity|].
  destruct (c =? QUOTE2) eqn:E2; [apply N.eqb_eq in E2; subst; reflexivity | exact H].
Qed.

(** the quoter: nothing for an empty word; otherwise only straight quotes of the two outer parts change, and
    mapping curly quotes back restores the input *)
Lemma smart_quoter_empty_word p t : smart_quoter (p, [], t) = (p, [], t).
Proof. reflexivity. Qed.
Lemma smart_quoter_word p w t : w <> [] -> smart_quoter (p, w, t) = (map curl_open p, w, map curl_close t).
Proof. intros H. unfold smart_quoter, sp_word, sp_pre, sp_trail. cbn [fst snd]. destruct w; [congruence | reflexivity]. Qed.
Lemma smart_quoter_uncurl p w t : no_curly p -> no_curly t ->
  let '(p', w', t') := smart_quoter (p, w, t) in map uncurl p' = p /\ w' = w /\ map uncurl t' = t.
Proof.
  intros Hp Ht. destruct w as [|a w].
  - cbn. split; [|split; [reflexivity|]]; [clear Ht; induction Hp | clear Hp; induction Ht]; cbn [map]; try reflexivity; f_equal; assumption.
  - rewrite smart_quoter_word by discriminate. split; [|split; [reflexivity|]]; rewrite map_map.
    + clear Ht. induction Hp as [|c r Hc Hr IH]; cbn [map]; [reflexivity|]. rewrite uncurl_open by exact Hc. f_equal. exact IH.
    + clear Hp. induction Ht as [|c r Hc Hr IH]; cbn [map]; [reflexivity|]. rewrite uncurl_close by exact Hc. f_equal. exact IH.
Qed.

(** sorting commutes with any map that keeps the rank of every item *)
Definition keeps_rank (f : rank -> rank) : Prop := forall a b, rank_le (f a) (f b) = rank_le a b.

Lemma insert_map f x l : keeps_rank f -> insert_rank (f x) (map f l) = map f (insert_rank x l).
Proof.
  intros H. induction l as [|y t IH]; cbn [insert_rank map]; [reflexivity|].
  rewrite H. destruct (rank_le y x); cbn [map]; [rewrite IH; reflexivity | reflexivity].
Qed.
Lemma sort_map f l : keeps_rank f -> sort_ranks (map f l) = map f (sort_ranks l).
Proof.
  intros H. unfold sort_ranks. change (@nil rank) with (map f []) at 1. generalize (@nil rank).
  induction l as [|x t IH]; intros acc; cbn [fold_left map]; [reflexivity|]. rewrite insert_map by exact H. apply IH.
Qed.

Lemma retext_keeps_rank (g : str -> str) : keeps_rank (fun x => set_rstr x (g (rstr x))).
Proof. intros a b. unfold rank_le. destruct a, b; reflexivity. Qed.

Section C17.
Variable Q : oracles.

Definition with_smart (c : pcfg) (b : bool) : pcfg := {| c_english := c_english c; c_suggest := c_suggest c; c_ansi := c_ansi c; c_smart := b |}.

(** text that is only punctuation (no word part): the option changes nothing at all *)
Lemma no_word_same c m uac sels term :
  sp_word (split term false) = [] -> suggest Q (with_smart c true) m uac sels term = suggest Q (with_smart c false) m uac sels term.
Proof.
  intros Hw. unfold suggest. cbn [c_smart with_smart c_ansi c_english].
  assert (E : smart_quoter (conv Q (sp_pre (split term false)), sp_word (split term false), conv Q (sp_trail (split term false)))
              = (conv Q (sp_pre (split term false)), sp_word (split term false), conv Q (sp_trail (split term false)))).
  { rewrite Hw. reflexivity. }
  rewrite E. reflexivity.
Qed.

(** the parts with the option on are the curled parts with it off; the word is the same *)
Lemma parts_on_off c term :
  sp_word (split term false) <> [] ->
  sg_pre Q (with_smart c true) term = map curl_open (sg_pre Q (with_smart c false) term) /\
  sg_word Q (with_smart c true) term = sg_word Q (with_smart c false) term /\
  sg_tr Q (with_smart c true) term = map curl_close (sg_tr Q (with_smart c false) term).
Proof.
  intros Hw. unfold sg_pre, sg_word, sg_tr, sg_sp. cbn [c_smart with_smart]. rewrite smart_quoter_word by exact Hw.
  unfold sp_pre, sp_word, sp_trail. cbn [fst snd]. auto.
Qed.

(** the dictionary part and the transliteration: the same items in the same order with the same ranks; only the
    wrapping differs, and it differs by the curling of the two outer parts only *)
Lemma l0_on_off c m uac term :
  sp_word (split term false) <> [] ->
  let pf := sg_pre Q (with_smart c false) term in let tf := sg_tr Q (with_smart c false) term in
  let core := swd_core Q m uac (sg_word Q (with_smart c false) term) in
  sg_l0 Q (with_smart c false) m uac term = (match pf, tf with [], [] => core | _, _ => map (wrap pf tf) core end) /\
  sg_l0 Q (with_smart c true) m uac term = (match pf, tf with [], [] => core | _, _ => map (wrap (map curl_open pf) (map curl_close tf)) core end).
Proof.
  intros Hw. cbn zeta. destruct (parts_on_off c term Hw) as (Ep & Ew & Et).
  unfold sg_l0. rewrite !swd_eq, Ep, Ew, Et. split; [reflexivity|].
  destruct (sg_pre Q (with_smart c false) term), (sg_tr Q (with_smart c false) term); reflexivity.
Qed.

Lemma l0_same_length c m uac term :
  length (sg_l0 Q (with_smart c true) m uac term) = length (sg_l0 Q (with_smart c false) m uac term).
Proof.
  destruct (sp_word (split term false)) eqn:Hw.
  - unfold sg_l0, sg_pre, sg_word, sg_tr, sg_sp. cbn [c_smart with_smart]. unfold smart_quoter at 1 2 3. unfold sp_word at 1 3 5. cbn [fst snd]. rewrite Hw. reflexivity.
  - assert (Hne : sp_word (split term false) <> []) by (rewrite Hw; discriminate).
    destruct (l0_on_off c m uac term Hne) as (A & B). rewrite A, B.
    destruct (sg_pre Q _ term), (sg_tr Q _ term); rewrite ?map_length; reflexivity.
Qed.

(** *** fixed method: the whole list, position by position *)
Definition xwith_smart (c : xcfg) (b : bool) : xcfg :=
  {| x_opts := x_opts c; x_numpad := x_numpad c; x_suggest := x_suggest c; x_english := x_english c; x_ansi := x_ansi c; x_smart := b |}.

Lemma fixed_no_word_same c buffer typed :
  sp_word (split buffer true) = [] -> dictionary_suggestion Q (xwith_smart c true) buffer typed = dictionary_suggestion Q (xwith_smart c false) buffer typed.
Proof.
  intros Hw. unfold dictionary_suggestion, dictionary_suggestion_parts. cbn [x_smart xwith_smart x_ansi x_opts x_english].
  assert (E : smart_quoter (split buffer true) = split buffer true).
  { unfold smart_quoter. rewrite Hw. reflexivity. }
  rewrite E. reflexivity.
Qed.

Lemma fixed_same_length c buffer typed :
  length (dictionary_suggestion Q (xwith_smart c true) buffer typed) = length (dictionary_suggestion Q (xwith_smart c false) buffer typed).
Proof.
  destruct (sp_word (split buffer true)) eqn:Hw; [rewrite fixed_no_word_same by exact Hw; reflexivity|].
  rewrite !ds_eq. unfold x_english_on. cbn [x_english x_ansi xwith_smart].
  assert (L : length (ds_l3 Q (xwith_smart c true) buffer typed) = length (ds_l3 Q (xwith_smart c false) buffer typed)).
  { unfold ds_l3, ds_word, ds_first, ds_last, ds_sp. cbn [x_smart xwith_smart x_ansi x_opts].
    destruct (split buffer true) as [[p w] t]. unfold sp_word in Hw. cbn [fst snd] in Hw. subst w.
    unfold smart_quoter, sp_word, sp_pre, sp_trail. cbn [fst snd].
    set (l1 := dedup_ranks _).
    assert (A : forall f g, length (match map curl_open p, map curl_close t with [], [] => l1 | _, _ => map f l1 end) = length (match p, t with [], [] => l1 | _, _ => map g l1 end)).
    { intros. destruct p, t; cbn [map]; rewrite ?map_length; reflexivity. }
    destruct (x_ansi c); [apply A|]. destruct (emoticon Q typed); [rewrite !app_length; f_equal; apply A|].
    destruct (emoji_bn Q _); [|apply A]. rewrite !app_length. f_equal; [apply A|].
    assert (El : forall a b a' b' es r, length (emoji_ranked a b es r) = length (emoji_ranked a' b' es r)).
    { intros a b a' b' es. induction es; intros r; cbn [emoji_ranked length]; [reflexivity | f_equal; apply IHes]. }
    apply El. }
  assert (S : forall k, length (firstn k (sort_ranks (ds_l3 Q (xwith_smart c true) buffer typed))) = length (firstn k (sort_ranks (ds_l3 Q (xwith_smart c false) buffer typed)))).
  { intros k. rewrite !firstn_length, !sort_length, L. reflexivity. }
  destruct (x_english c && negb (x_ansi c) && negb (str_eqb buffer typed)); rewrite !app_length, S; reflexivity.
Qed.

End C17.
