From Coq Require Import Lia.
Require Import Riti.model.Base Riti.model.Chars Riti.model.FixedCompose Riti.spec.C12_Spec.

Lemma last_rev_hd (rb : list N) : last (rev rb) 0 = hd 0 rb.
Proof. destruct rb as [|x t]; [reflexivity|]. cbn [rev hd]. apply last_last. Qed.

Lemma removelast_rev (rb : list N) : removelast (rev rb) = rev (tl rb).
Proof. destruct rb as [|x t]; [reflexivity|]. cbn [rev tl]. apply removelast_last. Qed.

Lemma isnil_rev {A} (l : list A) : isnil (rev l) = isnil l.
Proof. destruct l as [|x t]; [reflexivity|]. cbn [rev]. destruct (rev t); reflexivity. Qed.

Lemma nth1_hd_tl (rb : list N) : nth 1 rb 0 = hd 0 (tl rb).
Proof. destruct rb as [|x [|y t]]; reflexivity. Qed.

Lemma rev_push_str rb v : rev (push_str rb v) = rev rb ++ v.
Proof. unfold push_str. rewrite rev_app_distr, rev_involutive. reflexivity. Qed.

Lemma rev_cons (x : N) l : rev (x :: l) = rev l ++ [x].
Proof. reflexivity. Qed.

Lemma mem_In c l : mem c l = true <-> In c l.
Proof.
  unfold mem. rewrite existsb_exists. split.
  - intros [x [Hin Hx]]. apply N.eqb_eq in Hx. subst. exact Hin.
  - intros H. exists c. split; [exact H | apply N.eqb_refl].
Qed.

Lemma kar_vowel c : is_kar c = true -> exists v, vowel_of_kar c = Some v.
Proof.
  intros H. apply mem_In in H.
  assert (F : kar_has_vowel = true) by (vm_compute; reflexivity).
  unfold kar_has_vowel in F. rewrite forallb_forall in F. specialize (F c H).
  destruct (vowel_of_kar c) as [v|]; [eauto | discriminate].
Qed.

Lemma kar_chain_spec o rb c :
  is_kar c = true ->
  rev (kar_chain o (rmc_of rb) rb c) = sign_rule o (rev rb) c.
Proof.
  intros Hk. destruct (kar_vowel c Hk) as [v Hv].
  unfold kar_chain, sign_rule, lastc, rmc_of, indep. rewrite last_rev_hd, isnil_rev, removelast_rev, Hv.
  fold (isnil rb).
  destruct (o_vowel o && (isnil rb || is_vowel (hd 0 rb) || is_mark (hd 0 rb))); [reflexivity|].
  destruct (o_chandra o && (hd 0 rb =? B_CHANDRA)).
  { cbn [rev]. rewrite <- app_assoc. reflexivity. }
  destruct (hd 0 rb =? B_HASANTA); [reflexivity|].
  destruct (o_kar o && is_pure_consonant (hd 0 rb)).
  { destruct (is_ligature_making_kar c); cbn [rev]; rewrite <- ?app_assoc; reflexivity. }
  reflexivity.
Qed.

Ltac revs := unfold push_str; cbn [rev app]; repeat (rewrite ?rev_app_distr, ?rev_involutive; cbn [rev app]);
             rewrite <- ?app_assoc; cbn [rev app]; try reflexivity.

(** Reph placement of the model, on reading-order text. *)
Definition model_reph (p : str) : str := rev (insert_old_style_reph (rev p)).

(** The model of [process_key_value] with the old vowel-sign order off is the rule table,
    for every buffer, every value and every pending state (which it never touches). *)
Lemma pkv_is_rule_table o rb pend v :
  o_kar_order o = false ->
  process_key_value o rb pend v = (rev (rule_table model_reph o (rev rb) v), pend).
Proof.
  intros Hko. unfold process_key_value, pkv_gen, rule_table, lastc, model_reph.
  rewrite Hko. cbn [andb]. rewrite !last_rev_hd, !removelast_rev, last_rev_hd, rev_involutive.
  unfold rmc_of. rewrite nth1_hd_tl.
  destruct (str_eqb v zofola).
  { destruct ((hd 0 rb =? B_R) && negb (hd 0 (tl rb) =? B_HASANTA)); unfold push_str;
      rewrite ?rev_app_distr, ?rev_involutive; cbn [rev app]; rewrite <- ?app_assoc; reflexivity. }
  destruct (str_eqb v reph && o_old_reph o); [rewrite rev_involutive; reflexivity|].
  destruct v as [|c rest].
  { unfold pkv_tail. rewrite Hko. unfold push_str. cbn [rev app]. rewrite rev_involutive. reflexivity. }
  destruct (is_kar c) eqn:Hk.
  { unfold push_str. rewrite <- (rev_involutive (kar_chain o (hd 0 rb) rb c)).
    change (hd 0 rb) with (rmc_of rb). rewrite (kar_chain_spec o rb c Hk).
    rewrite <- rev_app_distr. reflexivity. }
  destruct ((c =? B_HASANTA) && (hd 0 rb =? B_HASANTA)); [revs|].
  destruct ((c =? B_LENGTH_MARK) && (hd 0 rb =? B_HASANTA)); [revs|].
  unfold pkv_tail. rewrite Hko. revs.
Qed.

Lemma backspace_is_removelast s :
  f_pend s = None -> f_rb s <> [] ->
  f_text (fst (f_backspace false s)) = backspace_spec (f_text s).
Proof.
  intros Hp Hne. unfold f_backspace, f_text, backspace_spec. rewrite Hp.
  destruct (f_rb s) as [|x t] eqn:E; [congruence|]. cbn [fst f_rb tl].
  change (x :: t) with (x :: t). cbn [rev]. rewrite removelast_last. reflexivity.
Qed.
