From Coq Require Import Lia.
Require Import Riti.model.Base Riti.model.Chars Riti.model.FixedCompose Riti.model.Layout
        Riti.model.FixedLonely Riti.gen.Gen_Tables Riti.proofs.TablesAgree Riti.spec.C04_Spec.

Lemma layout_value_nonempty L id v : layout_value L id = Some v -> v <> [].
Proof.
  unfold layout_value. destruct (assocN id L) as [[|c t]|]; intros H; inversion H; discriminate.
Qed.

(** With every helper off and no joining rule applicable, a value is appended verbatim. *)
Lemma pkv_plain rb v :
  v <> [] -> plain_position rb v = true ->
  process_key_value helpers_off rb None v = (rev v ++ rb, None).
Proof.
  intros Hne Hp. unfold process_key_value, pkv_gen, plain_position in *.
  cbn [o_kar_order o_old_reph helpers_off andb] in *.
  destruct (str_eqb v zofola) eqn:Hz.
  - apply negb_true_iff in Hp. cbn [andb]. rewrite Hp. reflexivity.
  - rewrite andb_false_r. destruct v as [|c rest]; [congruence|].
    cbn [andb]. unfold pkv_tail, kar_chain, push_str, rmc_of. cbn [o_kar_order o_vowel o_chandra o_kar helpers_off andb].
    destruct (is_kar c) eqn:Hk.
    + cbn [orb] in Hp. apply negb_true_iff in Hp. rewrite Hp.
      cbn [rev]. rewrite <- !app_assoc. reflexivity.
    + cbn [orb] in Hp.
      destruct (c =? B_HASANTA) eqn:Hh; cbn [orb andb] in *.
      * apply negb_true_iff in Hp. rewrite Hp.
        destruct (c =? B_LENGTH_MARK); reflexivity.
      * destruct (c =? B_LENGTH_MARK) eqn:Hl; cbn [andb] in *.
        -- apply negb_true_iff in Hp. rewrite Hp. reflexivity.
        -- reflexivity.
Qed.

Lemma expected_is_model L k m numpad :
  expected_value L k m numpad = get_char_for_key L k (altgr_of m) numpad.
Proof.
  unfold expected_value, get_char_for_key, layout_lookup, altgr_of. rewrite lookups_agree. reflexivity.
Qed.

Lemma C04_main L k m numpad s :
  f_pend s = None ->
  match expected_value L k m numpad with
  | Some v => plain_position (f_rb s) v = true ->
              f_key_event L helpers_off numpad s k m =
              ({| f_rb := rev v ++ f_rb s; f_pend := None |}, f_text s ++ v)
  | None => f_key_event L helpers_off numpad s k m = (s, f_text s)
  end.
Proof.
  intros Hp. rewrite expected_is_model. unfold f_key_event.
  destruct (get_char_for_key L k (altgr_of m) numpad) as [v|] eqn:Hv; [|reflexivity].
  intros Hplain. unfold f_key. rewrite Hp.
  assert (Hne : v <> []).
  { unfold get_char_for_key in Hv. destruct (layout_lookup k (altgr_of m) numpad); [|discriminate].
    eapply layout_value_nonempty; eauto. }
  rewrite (pkv_plain _ _ Hne Hplain). unfold f_text. cbn [f_rb]. rewrite rev_app_distr, rev_involutive. reflexivity.
Qed.

(** Shift (bit 0) and stray high bits of the modifier byte never change the result. *)
Lemma C04_plane_only L k m m' numpad :
  N.testbit m 1 = N.testbit m' 1 -> expected_value L k m numpad = expected_value L k m' numpad.
Proof. unfold expected_value. intros ->. reflexivity. Qed.

(** Number-pad keys: nothing while the option is off. *)
Definition numpad_keys : list N := [55;71;72;73;74;75;76;77;78;79;80;81;82;83;3637].
Lemma C04_numpad_off L :
  forallb (fun k => forallb (fun m => match expected_value L k m false with None => true | Some _ => false end) [0;1;2;3]) numpad_keys = true.
Proof. unfold expected_value. vm_compute. reflexivity. Qed.
