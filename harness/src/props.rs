//! Property streams over sessions (implementation + extracted model): generators and monitors.
#![allow(dead_code)]
use crate::ffi::*;
use crate::fx::par_items;
use crate::model::*;
use crate::ph::*;
use crate::sess::*;
use crate::util::*;
use serde_json::{json, Value};
use std::collections::{HashMap, HashSet};

pub fn psession(w: &mut Worker2, bits: u32, database: bool, uac: Option<&Map>, sels: Option<&Map>, tag: &str) -> Result<Session, String> {
    let home = std::path::PathBuf::from("/nonexistent");
    let mut o = Opts::phonetic(&home);
    o.database = database;
    set_pbits(&mut o, bits);
    Session::new(w, o, uac, sels, tag)
}
pub fn xsession(w: &mut Worker2, layout: &str, bits: u32, database: bool, tag: &str) -> Result<Session, String> {
    let home = std::path::PathBuf::from("/nonexistent");
    let mut o = Opts::fixed(layout, &home);
    o.database = database;
    set_xbits(&mut o, bits);
    Session::new(w, o, None, None, tag)
}

pub fn full_of(st: &Step) -> Option<(String, Vec<String>, usize)> {
    match &st.out { Out::Full { aux, list, sel, .. } => Some((aux.clone(), list.clone(), *sel)), _ => None }
}
pub fn last_full(steps: &[Step]) -> Option<(String, Vec<String>, usize)> {
    steps.iter().rev().find_map(full_of)
}

pub fn curl(s: &str, open: bool) -> String {
    s.chars().map(|c| match (c, open) { ('\'', true) => '‘', ('"', true) => '“', ('\'', false) => '’', ('"', false) => '”', (c, _) => c }).collect()
}
pub fn uncurl(s: &str) -> String {
    s.chars().map(|c| match c { '‘' | '’' => '\'', '“' | '”' => '"', c => c }).collect()
}

/// the model's split (proved equal to its specification) through the driver
pub fn msplit(w: &mut Worker2, s: &str, colon: bool) -> (String, String, String) {
    let r = w.ask(&format!("SPLIT {} {}", tok(s), colon as u8)).unwrap_or_default();
    let v: Vec<&str> = r.split(' ').collect();
    if v.len() == 3 { (untok(v[0]), untok(v[1]), untok(v[2])) } else { (String::new(), s.to_string(), String::new()) }
}

pub const ECHO: &str = ".?!,:;-_)}]'\"";

// ------------------------------------------------------------------------------------------------ C03

pub fn c03(tier: &str, seed: u64, meta: &str) -> Report {
    let p = Pools::load(meta);
    let thorough = tier == "thorough";
    let pr = &p;
    let punct: Vec<String> = std::iter::once(String::new()).chain(PUNCT.chars().map(|c| c.to_string())).collect();
    let words = ["5", "75", "k", "kotha", "a1", "Rr", "OI", "x9z", "bangla", "0", "amar", "T", "ngo", "rri", "aZ7", "kt``", "hoThat``", "k`"];
    let n_pairs = (punct.len() * punct.len()) as u64;
    let n_a = n_pairs * words.len() as u64;
    let n_a2: u64 = if thorough { 60_000 } else { 6_000 };
    let n_b: u64 = if thorough { 200_000 } else { 16_000 };
    // spellings (values of autocorrect.json) whose transliteration holds a zero-width joiner / non-joiner: the dictionary
    // lists some of these words in the other invisible spelling, which then sits beside the transliteration
    let joiner_spellings: Vec<String> = {
        let mut w0 = Worker2::new(pr.data.clone());
        let mut v: Vec<String> = pr.data.autocorrect.values().filter(|v| v.is_ascii() && pr.typeable(v) && !v.is_empty()).cloned().collect();
        v.sort(); v.dedup();
        let mut v: Vec<String> = v.into_iter().filter(|x| { let c = w0.oracle.conv(x); c.contains('\u{200C}') || c.contains('\u{200D}') }).collect();
        // and, for every dictionary word that holds a joiner, a spelling of its twin with the other joiner (found by search)
        let mut twins: Vec<&String> = pr.data.dict.values().flatten().filter(|d| d.contains('\u{200C}') || d.contains('\u{200D}')).collect();
        twins.sort();
        for d in twins {
            let twin: String = d.chars().map(|c| match c { '\u{200C}' => '\u{200D}', '\u{200D}' => '\u{200C}', c => c }).collect();
            if let Some(sp) = find_spelling(&mut w0, &twin, 30_000) { if pr.typeable(&sp) { v.push(sp); } }
        }
        v.sort(); v.dedup();
        v
    };
    let n_j = joiner_spellings.len() as u64 * 2;
    let joiner_spellings = &joiner_spellings;
    let total = n_a + n_a2 + n_b + n_j + if thorough { 1 } else { 0 };
    let typeable: Vec<char> = TYPEABLE.chars().collect();
    let pchars: Vec<char> = PUNCT.chars().collect();
    let (punct, words, typeable, pchars) = (&punct, &words, &typeable, &pchars);
    let mut rep = par_items(total, |_| (Worker2::new(pr.data.clone()), HashMap::<u32, Session>::new()), |st, i, rep| {
        let (w, sessions) = st;
        let mut rng = Rng::new(seed ^ i.wrapping_mul(0xC03));
        let lonely = i < n_a + n_a2;
        let (l, wd, r): (String, String, String) = if i < n_a {
            let pi = i % n_pairs;
            (punct[(pi / punct.len() as u64) as usize].clone(), words[(i / n_pairs) as usize].to_string(), punct[(pi % punct.len() as u64) as usize].clone())
        } else if i < n_a + n_a2 {
            let mk = |rng: &mut Rng| { let n = rng.below(4); (0..n).map(|_| *rng.pick(pchars)).collect::<String>() };
            let wl = 1 + rng.below(6);
            let wd: String = (0..wl).map(|_| *rng.pick(&"abcdefghijklmnopqrstuvwxyzABCDEGHIJKLMNORSTUZ0123456789".chars().collect::<Vec<_>>())).collect();
            (mk(&mut rng), wd, mk(&mut rng))
        } else if i < n_a + n_a2 + n_b {
            // a quarter: dictionary-dense stems + known suffixes typed key by key (the memo of the prefixes makes lists of
            // twenty and more candidates, the transliteration ranks last among them), some wrapped in punctuation
            if rng.chance(1, 4) {
                let stems = ["soti", "stte", "kori", "bola", "kotha", "desh", "ami", "manush", "bidyut", "sesh", "shob", "din", "rong", "mon", "jol"];
                let t = if rng.chance(1, 3) { word_pool(pr, &mut rng, 1).pop().unwrap_or_else(|| "soti".into()) } else { format!("{}{}", rng.pick(&stems), if rng.chance(1, 3) { "" } else { rng.pick(&pr.suffix_keys).as_str() }) };
                let (a, b) = if rng.chance(1, 4) { ("(", ").") } else { ("", "") };
                (String::new(), format!("{}{}{}", a, t, b), String::new())
            } else {
            // arbitrary strings over the 94 typeable characters
            let mx = if rng.chance(1, 5) { 12 } else { 4 };
            let n = 1 + rng.below(mx);
            (String::new(), (0..n).map(|_| if rng.chance(1, 3) { *rng.pick(pchars) } else { *rng.pick(typeable) }).collect(), String::new())
            }
        } else if i < n_a + n_a2 + n_b + n_j {
            let k = (i - n_a - n_a2 - n_b) as usize;
            let t = joiner_spellings[k / 2].clone();
            (String::new(), if k % 2 == 0 { t } else { format!("({})?", t) }, String::new())
        } else {
            (String::new(), "a".repeat(if thorough { 4000 } else { 1400 }), ").".into())
        };
        let text = format!("{}{}{}", l, wd, r);
        if !pr.typeable(&text) || text.is_empty() { return; }
        let bits: u32 = if lonely { *rng.pick(&[0u32, 1, 4, 8, 13]) } else { *rng.pick(&[2u32, 3, 10, 11, 6, 14, 15]) };
        if !sessions.contains_key(&bits) {
            match psession(w, bits, true, None, None, "c03") { Ok(s) => { sessions.insert(bits, s); } Err(e) => { rep.diff(json!({"what": "context creation failed", "error": e})); return; } }
        }
        // the very long word gets a context of its own and is judged by the monitor only (the list-based model needs
        // quadratic time for it and would not add anything: okkhor called directly is the reference here)
        let very_long = text.len() > 1000;
        if very_long {
            if let Ok(mut ls) = psession(w, bits, true, None, None, "c03l") { ls.model_dead = true; sessions.insert(u32::MAX, ls); }
        }
        let s = sessions.get_mut(&(if very_long { u32::MAX } else { bits })).unwrap();
        if s.history.len() > 3000 { s.history.clear(); }
        // the typed text is defined by the key codes alone: the modifier byte (shifted letters have codes of their own) is arbitrary
        let mut evs = pr.key_events(&text, 0);
        if i % 3 == 1 { for e in evs.iter_mut() { if let SEv::Key(k, _, sl) = e { *e = SEv::Key(*k, [1u8, 2, 3, 0x81, 0xFF][rng.below(5)], *sl); } } }
        evs.push(SEv::Finish);
        let steps = feed(w, s, &evs, rep, "C03");
        let last = &steps[steps.len() - 2];
        if lonely {
            let expected = if i < n_a + n_a2 {
                format!("{}{}{}", w.oracle.conv(&l), w.oracle.conv(&wd), w.oracle.conv(&r))
            } else { unreachable!() };
            let got = match &last.out { Out::Single { text, .. } => text.clone(), o => format!("{:?}", o) };
            if got != expected {
                rep.fail(json!({"what": "with suggestions off the returned string is not transliteration(leading) + transliteration(word) + transliteration(trailing)",
                    "typed": text, "leading": l, "word": wd, "trailing": r, "option_bits": bits, "expected": expected, "implementation": got, "session": s.describe()}));
            }
            // every prefix on the way is itself a typed text (punctuation only, word only, word + trailing): the string
            // returned for it is the transliteration of its three parts too, whatever was composed before in this context
            let tchars: Vec<char> = text.chars().collect();
            if tchars.len() <= 12 {
                for j in 0..tchars.len().saturating_sub(1) {
                    let pre: String = tchars[..=j].iter().collect();
                    let (pa, pb, pc) = msplit(w, &pre, false);
                    let exp = format!("{}{}{}", w.oracle.conv(&pa), w.oracle.conv(&pb), w.oracle.conv(&pc));
                    if let Out::Single { text: g, .. } = &steps[j].out {
                        if *g != exp {
                            rep.fail(json!({"what": "with suggestions off the string returned for a typed prefix is not transliteration(leading) + transliteration(word) + transliteration(trailing)",
                                "typed": pre, "leading": pa, "word": pb, "trailing": pc, "option_bits": bits, "expected": exp, "implementation": g, "session": s.describe()}));
                            break;
                        }
                    }
                }
            }
            if !l.is_empty() || !r.is_empty() { rep.nontrivial_key(&text); }
            if rep.samples.len() < 2 && i % 211 == 0 { rep.sample(json!({"typed": text, "option_bits": bits, "returned": got})); }
        } else {
            let (a, b, c) = msplit(w, &text, false);
            let (ca, cb, cc) = (w.oracle.conv(&a), w.oracle.conv(&b), w.oracle.conv(&c));
            let smart = bits & 8 != 0 && !b.is_empty();
            let expected = if smart { format!("{}{}{}", curl(&ca, true), cb, curl(&cc, false)) } else { format!("{}{}{}", ca, cb, cc) };
            match full_of(last) {
                Some((_, list, _)) => {
                    if !list.contains(&expected) {
                        rep.fail(json!({"what": "with suggestions on the transliteration of the typed text is not among the candidates", "typed": if text.len() > 80 { format!("{}... ({} characters)", &text[..40], text.len()) } else { text.clone() },
                            "split": [a, b, c], "option_bits": bits, "expected_candidate": if expected.len() > 200 { format!("({} bytes)", expected.len()) } else { expected.clone() }, "candidates": list.iter().take(12).collect::<Vec<_>>(), "session": if s.history.len() < 200 { s.describe() } else { json!("long session") }}));
                    }
                    if list.len() > 1 { rep.nontrivial_key(&text); }
                }
                None => rep.fail(json!({"what": "no candidate list returned with suggestions on", "typed": text, "option_bits": bits, "got": last.imp})),
            }
        }
    });
    rep.extra.insert("rule".into(), json!(format!("suggestions off: {} words x ALL pairs of (empty or one of the 27 punctuation characters) leading/trailing (exhaustive), {} random words with up to 3 punctuation characters on each side, compared with okkhor called directly on the three parts; suggestions on: {} texts (three quarters strings over the 94 typeable characters, one quarter dictionary-dense stems + suffix keys typed key by key so that lists of twenty and more candidates occur) every spelling among the auto-correct values whose transliteration holds a zero-width joiner, and for each of the dictionary words that hold a joiner a spelling (found by search over Avro letters) of its twin with the other joiner (bare and wrapped), and one very long word; the transliteration (curled when smart quotes apply) must be a candidate; a third of the texts typed with arbitrary modifier bytes; option sets sampled from all combinations; non-trivial = wrapped text / more than one candidate", words.len(), n_a2, n_b)));
    rep
}

/// A phonetic spelling whose transliteration is `target`: depth-first search over Avro letters, pruned by
/// "the transliteration of the prefix agrees with the target except for its last two characters".
pub fn find_spelling(w: &mut Worker2, target: &str, max_nodes: usize) -> Option<String> {
    let tc: Vec<char> = target.chars().collect();
    let alphabet: Vec<char> = "abcdefghijklmnopqrstuvwxyzZTDNSROIU,".chars().collect();
    let mut nodes = 0usize;
    fn go(w: &mut Worker2, tc: &[char], alphabet: &[char], prefix: &mut String, nodes: &mut usize, max_nodes: usize) -> bool {
        if *nodes >= max_nodes || prefix.len() > tc.len() * 3 + 4 { return false; }
        *nodes += 1;
        for &a in alphabet {
            prefix.push(a);
            let c: Vec<char> = w.oracle.conv(prefix).chars().collect();
            if c == tc { return true; }
            let common = c.iter().zip(tc.iter()).take_while(|(x, y)| x == y).count();
            if c.len() <= tc.len() + 1 && common + 2 >= c.len() && common + 1 >= prefix.chars().count().min(c.len()) / 2 {
                if go(w, tc, alphabet, prefix, nodes, max_nodes) { return true; }
            }
            prefix.pop();
        }
        false
    }
    let mut prefix = String::new();
    if go(w, &tc, &alphabet, &mut prefix, &mut nodes, max_nodes) { Some(prefix) } else { None }
}

// ------------------------------------------------------------------------------------------------ C02

pub fn c02(tier: &str, seed: u64, meta: &str) -> Report {
    let fp = FixedPools::load(meta, crate::fx::SYNTHETIC);
    let thorough = tier == "thorough";
    let sessions: u64 = if thorough { 400 } else { 96 };
    let words_per = if thorough { 120 } else { 45 };
    let fpr = &fp;
    let mut rep = par_items(sessions, |_| Worker2::new(fpr.p.data.clone()), |w, i, rep| {
        let mut rng = Rng::new(seed ^ i.wrapping_mul(0xC02));
        let phonetic = i % 2 == 0;
        if phonetic {
            // one phonetic session in five has the candidate list off (single-string suggestions, also for keys without character)
            let bits = (if i % 10 == 4 { 0 } else { 2 }) | (rng.below(2) as u32) | ((rng.chance(1, 4) as u32) << 2) | ((rng.below(2) as u32) << 3);
            let mut s = match psession(w, bits, true, None, None, "c02") { Ok(s) => s, Err(e) => { rep.diff(json!({"what": "context creation failed", "error": e})); return; } };
            let mut prev_len = 1usize;
            for t in word_pool(&fpr.p, &mut rng, words_per) {
                let mut typed = String::new();
                let t2 = if rng.chance(1, 3) { format!("{}{}", t, rng.pick(&ECHO.chars().collect::<Vec<_>>())) } else { t.clone() };
                let mut evs: Vec<(SEv, Option<char>)> = Vec::new();
                for c in t2.chars() { evs.push((SEv::Key(fpr.p.keys[&c], 0, 0), Some(c))); if rng.chance(1, 10) { evs.push((SEv::Back(false), None)); } }
                if rng.chance(1, 5) { evs.push((SEv::Key(0x0E1C, 0, 0), None)); } // keypad Enter: no character
                for (mut e, ch) in evs {
                    let mut passed = 0u8;
                    if let SEv::Key(k, m, _) = e { passed = rng.below(prev_len.max(1)).min(255) as u8; e = SEv::Key(k, m, passed); }
                    match (&e, ch) { (SEv::Key(..), Some(c)) => typed.push(c), (SEv::Back(_), _) => { typed.pop(); } _ => {} }
                    let st = feed(w, &mut s, &[e.clone()], rep, "C02").pop().unwrap();
                    match &st.out {
                        Out::Full { aux, list, sel, pre, .. } => {
                            let mut bad: Vec<&str> = vec![];
                            if list.is_empty() { bad.push("a list-style suggestion holds no candidate"); }
                            if *aux != typed { bad.push("the auxiliary text is not the raw typed text"); }
                            if pre.iter().any(|x| x.is_err()) { bad.push("a candidate cannot be read as pre-edit text"); }
                            if *sel >= list.len().max(1) {
                                let echoed = matches!((&e, ch), (SEv::Key(..), Some(c)) if ECHO.contains(c)) && *sel == passed as usize;
                                if echoed { rep.known.push(json!({"class": "echo-out-of-range", "typed": typed, "selection_passed": passed, "list_length": list.len()})); }
                                else { bad.push("the previously-selected index is not below the length"); }
                            }
                            for b in bad {
                                rep.fail(json!({"what": b, "method": "phonetic", "typed": typed, "auxiliary": aux, "candidates": list, "selection": sel, "selection_passed": passed, "session": s.describe()}));
                            }
                            prev_len = list.len();
                            if list.len() > 1 { rep.nontrivial_key(&format!("p{} {}", bits, typed)); }
                        }
                        Out::Single { pre, .. } => { if pre.is_err() { rep.fail(json!({"what": "a single-string suggestion cannot be read as pre-edit text", "typed": typed, "session": s.describe()})); } prev_len = 1; }
                        _ => {}
                    }
                }
                feed(w, &mut s, &[if rng.chance(1, 2) { SEv::Finish } else { SEv::Commit(0) }], rep, "C02");
            }
        } else {
            let bits = 64 | (rng.below(32) as u32) | ((rng.below(2) as u32) << 7) | ((rng.chance(1, 4) as u32) << 8) | ((rng.below(2) as u32) << 9);
            let mut s = match xsession(w, crate::fx::SYNTHETIC, bits, true, "c02") { Ok(s) => s, Err(e) => { rep.diff(json!({"what": "context creation failed", "error": e})); return; } };
            // twin with suggestions off: its single string is the composed text
            let mut twin = match xsession(w, crate::fx::SYNTHETIC, bits & !64, false, "c02t") { Ok(s) => s, Err(_) => return };
            let nk = fpr.km.keys.len();
            for _ in 0..words_per {
                let base = rng.pick(&fpr.words).clone();
                let n = base.chars().count();
                let prefix: String = base.chars().take(1 + rng.below(n.min(5))).collect();
                let mut evs: Vec<SEv> = match fpr.keys_for(&prefix) { Some(k) => k, None => continue };
                for _ in 0..rng.below(3) { let x = rng.below(nk); evs.insert(rng.below(evs.len() + 1), SEv::Key(fpr.km.keys[x].0, fpr.km.keys[x].1, 0)); }
                // quotes and brackets around the word, keys that have no value (keypad with the option off, keypad Enter)
                if rng.chance(1, 3) { let q = *rng.pick(&["\"", "'", "(", "\"'"][..]); if let Some(k) = fpr.keys_for(q) { for (j, e) in k.into_iter().enumerate() { evs.insert(j, e); } } }
                if rng.chance(1, 3) { let q = *rng.pick(&["\"", "'", ")", ".", "'\""][..]); if let Some(k) = fpr.keys_for(q) { evs.extend(k); } }
                if rng.chance(1, 4) { evs.push(SEv::Back(false)); }
                for _ in 0..rng.below(3) { let k = *rng.pick(&[0x004Fu16, 0x0E1C, 0x0047, 0x0E0D][..]); evs.insert(1 + rng.below(evs.len()), SEv::Key(k, 0, 0)); }
                for e in evs {
                    let st = feed(w, &mut s, &[e.clone()], rep, "C02").pop().unwrap();
                    let tw = feed(w, &mut twin, &[e.clone()], rep, "C02").pop().unwrap();
                    let composed = match &tw.out { Out::Single { text, .. } => text.clone(), _ => String::new() };
                    match &st.out {
                        Out::Full { aux, list, sel, pre, ansi } => {
                            let mut bad: Vec<String> = vec![];
                            if list.is_empty() { bad.push("a list-style suggestion holds no candidate".into()); }
                            if *aux != composed { bad.push("the auxiliary text is not the composed text".into()); }
                            if *sel >= list.len().max(1) { bad.push("the previously-selected index is not below the length".into()); }
                            for (ix, x) in pre.iter().enumerate() {
                                if x.is_err() {
                                    if *ansi && list[ix].chars().any(|c| matches!(c, '\u{09C4}' | '\u{09C5}' | '\u{09C6}' | '\u{09C9}' | '\u{09CA}')) {
                                        rep.known.push(json!({"class": "bijoy-unknown-kar", "candidate": list[ix]}));
                                    } else { bad.push(format!("candidate {} cannot be read as pre-edit text", ix)); }
                                }
                            }
                            for b in bad {
                                rep.fail(json!({"what": b, "method": "fixed", "composed_text": composed, "auxiliary": aux, "candidates": list, "selection": sel, "session": s.describe()}));
                            }
                            if list.len() > 1 { rep.nontrivial_key(&format!("x{} {}", bits, aux)); }
                        }
                        Out::Single { text, pre, ansi } => {
                            if pre.is_err() && !(*ansi && text.chars().any(|c| matches!(c, '\u{09C4}' | '\u{09C5}' | '\u{09C6}' | '\u{09C9}' | '\u{09CA}'))) {
                                rep.fail(json!({"what": "a single-string suggestion cannot be read as pre-edit text", "session": s.describe()}));
                            }
                        }
                        _ => {}
                    }
                }
                let t = if rng.chance(1, 2) { SEv::Finish } else { SEv::Commit(0) };
                feed(w, &mut s, &[t.clone()], rep, "C02");
                feed(w, &mut twin, &[t], rep, "C02");
            }
        }
    });
    rep.extra.insert("rule".into(), json!("long sessions in both methods (phonetic: word pool with wrappers, punctuation keys, backspaces, a key without character; fixed: prefixes of dictionary words through the synthetic layout with stray keys, with a suggestions-off twin giving the composed text); every key passes a selection valid for the previously shown list; non-trivial = a list with at least two candidates, distinct by (options, text)"));
    rep
}

// ------------------------------------------------------------------------------------------------ C05

/// an edit path reaching `t`: key presses with detours that are backspaced away
fn edit_path(p: &Pools, rng: &mut Rng, t: &str, sel: u8) -> Vec<SEv> {
    let mut evs = Vec::new();
    let letters: Vec<char> = "abdeghiklmnoprstu.,'(".chars().collect();
    for c in t.chars() {
        if rng.chance(1, 5) {
            let n = 1 + rng.below(3);
            for _ in 0..n { evs.push(SEv::Key(p.keys[rng.pick(&letters)], 0, 0)); }
            for _ in 0..n { evs.push(SEv::Back(false)); }
        }
        evs.push(SEv::Key(p.keys[&c], 0, 0));
        if rng.chance(1, 8) { evs.push(SEv::Back(false)); evs.push(SEv::Key(p.keys[&c], 0, 0)); }
    }
    if let Some(SEv::Key(k, m, _)) = evs.last().cloned() { let n = evs.len(); evs[n - 1] = SEv::Key(k, m, sel); }
    evs
}

/// The rendering of the last event when `events` are fed to a brand-new context in a brand-new thread
/// (nothing else has ever run in that thread).
fn alone_in_new_thread(opts: &Opts, uac: &Map, sels: &Map, events: &[SEv]) -> String {
    let (opts, uac, sels, events) = (opts.clone(), uac.clone(), sels.clone(), events.to_vec());
    std::thread::spawn(move || {
        crate::ffi::install_quiet_panic_hook();
        let dir = Scratch::new("alone");
        let mut o = opts;
        o.user_home = dir.path().to_path_buf();
        let _ = std::fs::create_dir_all(o.user_dir());
        let _ = std::fs::write(o.user_dir().join("autocorrect.json"), map_json(&uac));
        let _ = std::fs::write(o.user_dir().join("phonetic-candidate-selection.json"), map_json(&sels));
        let cfg = Cfg::new(&o);
        let mut ctx = match Ctx::new(&cfg) { Ok(c) => c, Err(e) => return format!("PANIC {}", e) };
        let mut last = String::new();
        for e in &events {
            let out = match e { SEv::Key(k, m, s) => ctx.key(*k, *m, *s), SEv::Back(c) => ctx.backspace(*c), SEv::Commit(i) => ctx.commit(*i), _ => ctx.finish() };
            let og = ctx.ongoing();
            last = render(&out, og);
        }
        last
    }).join().unwrap_or_else(|_| "PANIC".into())
}

pub fn c05(tier: &str, seed: u64, meta: &str) -> Report {
    let p = Pools::load(meta);
    let thorough = tier == "thorough";
    let workers: u64 = 16;
    let per: usize = if thorough { 2500 } else { 640 };
    let pr = &p;
    // two of the learned words are bases of the same texts (amar + ei / amare + i): which one decides must not depend on the context
    let sels: Map = vec![("ami".into(), "আমই".into()), ("sesh".into(), "শেষ".into()), ("desh".into(), "দেস".into()), ("kotha".into(), "কোথা".into()),
        ("amar".into(), "আম্মার".into()), ("amare".into(), "অ্যাম্বারে".into())];
    let uac: Map = vec![("jhal".into(), "bhalO".into()), ("tst".into(), "TesT".into())];
    let (sels, uac) = (&sels, &uac);
    let mut rep = par_items(workers, |_| Worker2::new(pr.data.clone()), |w, i, rep| {
        let mut rng = Rng::new(seed ^ i.wrapping_mul(0xC05));
        let bits = [2u32, 3, 10, 11, 6, 14, 2, 10][(i % 8) as usize];
        let mut warm = match psession(w, bits, true, Some(uac), Some(sels), "c05w") { Ok(s) => s, Err(e) => { rep.diff(json!({"what": "context creation failed", "error": e})); return; } };
        // a second context in the same thread, without a database directory: it must not influence the first
        let mut other = if i % 2 == 0 { psession(w, bits, false, None, None, "c05o").ok() } else { None };
        // a pool with many repeats of stems so that prefixes, suffix forms and case variants meet in the memo
        let stems = ["ami", "desh", "sesh", "kotha", "bidyut", "rong", "form", "as", "koTha", "neT", "net", "jhal", "tst", "amra", "bhasha", "boi", "manush", "kori", "bol", "din", "amare", "amar"];
        let mut cur_sels: Map = { let mut m = sels.clone(); m.sort(); m };
        // a quarter of the workers re-configure the warm context twice with a different database directory
        // (same layout, same options): the tables of a context are those it loaded when it was built, and the
        // memo must stay a function of them; the brand-new contexts go through the same re-configurations
        let flips = i % 4 == 1;
        let mut db_updates: Vec<SEv> = vec![];
        for n in 0..per {
            if flips && (n == per / 3 || n == 2 * per / 3) {
                let ev = SEv::UpdateDb(n != per / 3);
                feed(w, &mut warm, &[ev.clone()], rep, "C05");
                db_updates.push(ev);
            }
            let t: String = match rng.below(10) {
                0..=2 => format!("{}{}", rng.pick(&stems), rng.pick(&pr.suffix_keys)),
                3 => rng.pick(&stems).to_string(),
                4 => format!("({}{}).", rng.pick(&stems), rng.pick(&pr.suffix_keys)),
                5 => rng.pick(&pr.ac_keys).clone(),
                6 => n.to_string(),
                7 => { let l = 2 + rng.below(5); (0..l).map(|_| *rng.pick(&"abdeghiklmnoprstuTN".chars().collect::<Vec<_>>())).collect() }
                8 => format!("\"{}\"", rng.pick(&stems)),
                _ => word_pool(pr, &mut rng, 1).pop().unwrap_or_else(|| "ami".into()),
            };
            let t: String = if n % 37 == 5 { "amarei".into() } else if n % 37 == 6 { "(amarei)".into() } else { t };
            if !pr.typeable(&t) || t.is_empty() { continue; }
            let last_char = t.chars().last().unwrap();
            let sel = if ECHO.contains(last_char) { rng.below(3) as u8 } else { 0 };
            let mut other_first = false;
            if let Some(o) = other.as_mut() {
                if rng.chance(1, 3) { let mut e = pr.key_events(&t, 0); e.push(SEv::Finish); feed(w, o, &e, rep, "C05"); other_first = true; }
            }
            let mut path = edit_path(pr, &mut rng, &t, sel);
            // the keypad has keys of its own for "." and "-": the same character, the same text
            if rng.chance(1, 2) { if let Some(SEv::Key(k, m, sl)) = path.last().cloned() { let twin = if Some(&k) == pr.keys.get(&'.') { Some(0x0053u16) } else if Some(&k) == pr.keys.get(&'-') { Some(0x004A) } else { None }; if let Some(t2) = twin { let l = path.len(); path[l - 1] = SEv::Key(t2, m, sl); } } }
            let ws = feed(w, &mut warm, &path, rep, "C05");
            let wlast = ws.last().unwrap().imp.clone();
            // the learned selections in force while this text was composed
            let sels_now: Map = cur_sels.clone();
            // a bare stem every other time, another text one time in ten, is ended by choosing another candidate (the store learns it; brand-new contexts
            // are created over the store the commits have taught so far)
            let choose = if (if stems.contains(&t.as_str()) { rng.chance(1, 2) } else { rng.chance(1, 10) }) { last_full(&ws).and_then(|(_, l, s)| if l.len() > 1 { Some((s + 1 + rng.below(l.len() - 1)) % l.len()) } else { None }) } else { None };
            match choose {
                Some(c) => { feed(w, &mut warm, &[SEv::Commit(c)], rep, "C05"); if let Some(m) = warm.model_sels(w) { cur_sels = m; } }
                None => { feed(w, &mut warm, &[SEv::Finish], rep, "C05"); }
            }
            let sels = &sels_now;
            if warm.history.len() > 60_000 { warm.history.drain(..30_000); }
            if other_first && rng.chance(1, 6) {
                // the same text typed by a context that is alone in its thread
                let mut evs = pr.key_events(&t, 0);
                if let Some(SEv::Key(k, m, _)) = evs.last().cloned() { let l = evs.len(); evs[l - 1] = SEv::Key(k, m, sel); }
                let alone = alone_in_new_thread(&warm.opts, uac, sels, &evs);
                rep.evaluations += 1;
                if alone != wlast {
                    rep.fail(json!({"what": "the suggestion differs when another context (without database) composed the same text earlier in the same thread", "text": t, "option_bits": bits,
                        "with_other_context": explain(&wlast), "alone_in_a_new_thread": explain(&alone), "initial": warm.initial}));
                }
            }
            // compare with a brand-new context typing the surviving text (every 4th case in quick: contexts are expensive)
            if n % (if thorough { 2 } else { 3 }) == 0 || t.len() > 9 {
                let mut fresh = match psession(w, bits, true, Some(uac), Some(sels), "c05f") { Ok(s) => s, Err(_) => continue };
                if !db_updates.is_empty() { feed(w, &mut fresh, &db_updates, rep, "C05"); }
                let mut evs = pr.key_events(&t, 0);
                if let Some(SEv::Key(k, m, _)) = evs.last().cloned() { let l = evs.len(); evs[l - 1] = SEv::Key(k, m, sel); }
                let fs = feed(w, &mut fresh, &evs, rep, "C05");
                let flast = fs.last().unwrap().imp.clone();
                rep.evaluations += 1;
                if wlast != flast {
                    rep.fail(json!({"what": "the suggestion for the same surviving text differs between a warm/edited context and a brand-new one", "text": t, "option_bits": bits,
                        "warm": explain(&wlast), "fresh": explain(&flast), "warm_session_events": warm.history.len(), "last_warm_events": warm.history.iter().rev().take(30).rev().map(|e| e.json()).collect::<Vec<_>>(),
                        "initial": warm.initial, "words_before": n, "other_context_in_thread": other.is_some()}));
                }
                if wlast.contains('+') { rep.nontrivial_key(&format!("{} {}", bits, t)); }
                if rep.samples.len() < 2 && n % 97 == 5 { rep.sample(json!({"text": t, "option_bits": bits, "edit_path_events": path.len(), "suggestion": explain(&wlast)})); }
                let _ = w.ask_db(true, &format!("DROP {}", fresh.id));
            }
        }
    });
    rep.extra.insert("rule".into(), json!(format!("16 warm contexts (learned selections and a user auto-correct list present) compose {} words each (stems x all 737 suffixes, case variants, auto-correct keys, numbers, wrapped words, random strings) through random edit paths (detours removed by backspace); a third of them (and every long one) is re-typed directly in a brand-new context and the two renderings (candidates, order, preselection) must be identical; half of the workers also run a second context without database in the same thread; every other bare stem and a tenth of the other texts are ended by committing a candidate other than the preselected one (the brand-new contexts are created over the selections learned so far, so a read path that plants entries in the store shows); a quarter of the warm contexts are re-configured twice (update_engine with the database directory switched off, later on again; the brand-new contexts get the same re-configurations before typing); every event is also compared with the extracted model; non-trivial = at least two candidates", per)));
    rep
}

// ------------------------------------------------------------------------------------------------ C06

pub fn c06(tier: &str, seed: u64, meta: &str) -> Report {
    let fp = FixedPools::load(meta, crate::fx::SYNTHETIC);
    let thorough = tier == "thorough";
    let total: u64 = if thorough { 12_000 } else { 2_400 };
    let fpr = &fp;
    let mut rep = par_items(total, |_| (Worker2::new(fpr.p.data.clone()), HashMap::<String, Session>::new()), |st, i, rep| {
        let (w, used_sessions) = st;
        let mut rng = Rng::new(seed ^ i.wrapping_mul(0xC06));
        let phonetic = i % 3 == 0;
        let (bits, key) = if phonetic {
            let b = [2u32, 3, 0, 11, 6][rng.below(5)];
            (b, format!("p{}", b))
        } else {
            // suggestions + English on in most cases (the raw typed keys are only observable then); old Kar order often on.
            // A worker keeps at most six option sets alive (each context holds the whole dictionary).
            let mut r2 = Rng::new(seed ^ ((i % 16) * 6 + (i / 16) % 6).wrapping_mul(0xBEEF));
            let b = (r2.below(16) as u32) | ((r2.chance(2, 3) as u32) << 4) | ((r2.chance(5, 6) as u32) << 6) | ((r2.chance(4, 5) as u32) << 7) | ((r2.below(2) as u32) << 9);
            (b, format!("x{}", b))
        };
        if !used_sessions.contains_key(&key) {
            let s = if phonetic { psession(w, bits, true, None, None, "c06u") } else { xsession(w, crate::fx::SYNTHETIC, bits, true, "c06u") };
            match s { Ok(s) => { used_sessions.insert(key.clone(), s); } Err(e) => { rep.diff(json!({"what": "context creation failed", "error": e})); return; } }
        }
        let used = used_sessions.get_mut(&key).unwrap();
        if used.history.len() > 3000 { used.history.clear(); }
        let start = used.history.len();
        let word = |rng: &mut Rng| -> Vec<SEv> {
            if phonetic {
                // now and then a word that starts with escape characters (they display as nothing on their own)
                // ... and an emoticon (a composition of punctuation only, with several candidates)
                // ... and words in which the escape character silences a vowel ("o`" displays as nothing although it is
                // not made of escape characters only)
                let t = if rng.chance(1, 4) { format!("{}{}", ["`", "``", "o`", "o`", "`o`", "o`o`"][rng.below(6)], ["a", "k", "ka", "", "x", "o"][rng.below(6)]) }
                    else if rng.chance(1, 6) { rng.pick(&fpr.p.emoticons).clone() }
                    else { word_pool(&fpr.p, rng, 1).pop().unwrap_or_else(|| "ami".into()) };
                let t = if fpr.p.typeable(&t) { t } else { ";)".to_string() };
                let t = if t.is_empty() { "`".to_string() } else { t };
                fpr.p.key_events(&t, 0)
            } else {
                let vals = ["ি", "ে", "ৈ", "ক", "ত", "র", "্", "া", "ু", "্য", "্র", "র্", "(", "'", "অ", "ঁ", "১", "ল", "ম"];
                let n = 1 + rng.below(5);
                (0..n).map(|_| fpr.km.key(*rng.pick(&vals[..]))).map(|e| match e { crate::fx::Ev::Key(k, m) => SEv::Key(k, m, 0), _ => SEv::Finish }).collect()
            }
        };
        // 1. a word, then a terminating event
        let mut first = word(&mut rng);
        if rng.chance(1, 4) { first.push(SEv::Back(false)); }
        let steps = feed(w, used, &first, rep, "C06");
        let composing = steps.last().map(|s| s.ongoing).unwrap_or(false);
        let term = rng.below(4);
        // a commit takes any index of the list shown last
        let shown = steps.last().and_then(|st| match &st.out { Out::Full { list, .. } => Some(list.len()), _ => None }).unwrap_or(1).max(1);
        let tevs: Vec<SEv> = match term { 0 => vec![SEv::Commit(if phonetic { rng.below(shown) } else { 0 })], 1 => vec![SEv::Finish], 2 => vec![SEv::Back(true)], _ => vec![] };
        let mut terminated = false;
        if term == 3 {
            // plain backspaces until an empty suggestion comes back
            for _ in 0..40 {
                let s = feed(w, used, &[SEv::Back(false)], rep, "C06").pop().unwrap();
                if matches!(&s.out, Out::Single { text, .. } if text.is_empty()) { terminated = true; break; }
            }
            if !terminated { rep.fail(json!({"what": "repeated backspaces do not reach the idle state", "session": used.describe()})); return; }
        } else {
            let s = feed(w, used, &tevs, rep, "C06").pop().unwrap();
            // ctrl-backspace ends whatever is being composed (and does nothing when idle)
            terminated = term != 2 || matches!(&s.out, Out::Single { text, .. } if text.is_empty());
            if term == 2 && composing && !terminated {
                rep.fail(json!({"what": "ctrl-backspace during a composition does not return an empty suggestion (the session is not ended)", "method": if phonetic { "phonetic" } else { "fixed (synthetic layout)" },
                    "option_bits": bits, "returned": explain(&s.imp), "initial": used.initial, "events_of_this_case": used.history[start..].iter().map(|e| e.json()).collect::<Vec<_>>()}));
                feed(w, used, &[SEv::Finish], rep, "C06");
                return;
            }
        }
        if !terminated { return; }
        rep.evaluations += 1;
        let describe = |used: &Session, what: &str, extra: Value| json!({"what": what, "method": if phonetic { "phonetic" } else { "fixed (synthetic layout)" }, "option_bits": bits,
            "initial": used.initial, "events_of_this_case": used.history[start..].iter().map(|e| e.json()).collect::<Vec<_>>(), "details": extra});
        if used.ctx.ongoing() {
            rep.fail(describe(used, "after a terminating event the context still reports an ongoing session", json!(null)));
        }
        // idle backspace: empty suggestion, starts nothing
        if rng.chance(1, 3) {
            let s = feed(w, used, &[SEv::Back(false)], rep, "C06").pop().unwrap();
            if !matches!(&s.out, Out::Single { text, .. } if text.is_empty()) || s.ongoing {
                rep.fail(describe(used, "a backspace when idle does not return an empty suggestion / starts a session", json!(s.imp)));
            }
        }
        // a key the layout knows nothing about (keypad "=" has a character but no entry; keypad Enter has neither; a
        // keypad digit counts when the number-pad option is off) pressed while idle: empty suggestion, starts nothing -
        // also when an idle backspace follows
        if !phonetic && rng.chance(1, 2) {
            let inert = [0x0E0Du16, 0x0E1C, 76][rng.below(3)];
            if !(inert == 76 && bits & 32 != 0) {
                let s = feed(w, used, &[SEv::Key(inert, 0, 0)], rep, "C06").pop().unwrap();
                let empty = match &s.out { Out::Single { text, .. } => text.is_empty(), Out::Unit => true, _ => false };
                if !empty || s.ongoing {
                    rep.fail(describe(used, "a key without a value in the layout, pressed when idle, does not return an empty suggestion / starts a session (text of the finished word shown?)", json!(explain(&s.imp))));
                }
                if rng.chance(1, 2) { feed(w, used, &[SEv::Back(false)], rep, "C06"); }
            }
        }
        // 2. continuation in the used context and in a brand-new one
        let mut cont = word(&mut rng);
        if rng.chance(1, 3) { cont.push(SEv::Back(false)); cont.extend(word(&mut rng)); }
        let mut fresh = match Session::new_beside(w, used, "c06f") { Ok(s) => s, Err(_) => return };
        let a = feed(w, used, &cont, rep, "C06");
        let b = feed(w, &mut fresh, &cont, rep, "C06");
        for (n, (x, y)) in a.iter().zip(b.iter()).enumerate() {
            if x.imp != y.imp {
                rep.fail(describe(used, "after a terminating event the context does not behave like a newly created one (something of the old word leaked)",
                    json!({"continuation_event": n, "used_context": explain(&x.imp), "new_context": explain(&y.imp)})));
                break;
            }
            if let Out::Single { text, .. } = &x.out { if !text.is_empty() && !x.ongoing { rep.fail(describe(used, "non-empty pre-edit text but no ongoing session", json!(x.imp))); } }
            if let Out::Full { list, .. } = &x.out { if list.iter().any(|c| !c.is_empty()) && !x.ongoing { rep.fail(describe(used, "non-empty pre-edit text but no ongoing session", json!(x.imp))); } }
        }
        feed(w, used, &[SEv::Finish], rep, "C06");
        rep.nontrivial_key(&format!("{} {} {:?} {:?}", key, term, first, cont));
        if rep.samples.len() < 2 && i % 499 == 1 { rep.sample(describe(used, "sample", json!(null))); }
        let _ = w.ask_db(true, &format!("DROP {}", fresh.id));
    });
    rep.extra.insert("rule".into(), json!("cases = (method, options, a first word, one of the four terminating events {commit, finish, ctrl-backspace, backspaces until empty}, a continuation); phonetic: word pool; fixed: sequences over keys for left-standing signs, consonants, hasanta, fola, reph, punctuation with old vowel-sign order / suggestions / English mostly on; in the fixed method a key without a value in the layout (and an idle backspace) may follow the terminator; the continuation is replayed in the used context and in a brand-new one and must render identically; the session flag is read after every event; everything is also compared with the extracted model"));
    rep
}

// ------------------------------------------------------------------------------------------------ C07 / C08 helpers

pub fn join_rule(base: &str, suf: &str) -> String {
    let rmc = base.chars().last().unwrap_or('\0');
    let lmc = suf.chars().next().unwrap_or('\0');
    let vowels = "\u{0985}\u{0986}\u{0987}\u{0988}\u{0989}\u{098A}\u{098B}\u{098F}\u{0990}\u{0993}\u{0994}\u{098C}\u{09E1}\u{09BE}\u{09BF}\u{09C0}\u{09C1}\u{09C2}\u{09C3}\u{09C7}\u{09C8}\u{09CB}\u{09CC}";
    let kars = "\u{09BE}\u{09BF}\u{09C0}\u{09C1}\u{09C2}\u{09C3}\u{09C7}\u{09C8}\u{09CB}\u{09CC}\u{09C4}";
    let mut w = base.to_string();
    if vowels.contains(rmc) && kars.contains(lmc) { w.push('\u{09DF}'); }
    else if rmc == '\u{09CE}' { w.pop(); w.push('\u{09A4}'); }
    else if rmc == '\u{0982}' { w.pop(); w.push('\u{0999}'); }
    w.push_str(suf);
    w
}

/// all dictionary tables (independent of riti's first-letter table): the words matching the okkhor pattern of `word`
fn hits_all(w: &mut Worker2, word: &str) -> Vec<String> {
    let mut tables: Vec<String> = w.oracle.data.dict.keys().cloned().collect();
    tables.sort();
    let mut v = Vec::new();
    for t in tables { v.extend(w.oracle.hits(&t, word)); }
    v
}

/// the direct candidates of a typed word, computed independently: auto-correct entry (user first) and dictionary matches
fn direct_of(w: &mut Worker2, uac: &Map, word: &str) -> (Option<String>, Vec<String>) {
    let ac = uac.iter().find(|(k, _)| k == word).map(|(_, v)| v.clone()).or_else(|| w.oracle.ac(word).cloned()).map(|c| w.oracle.conv(&c));
    (ac, hits_all(w, word))
}

// ------------------------------------------------------------------------------------------------ C08

pub fn c08(tier: &str, seed: u64, meta: &str) -> Report {
    let p = Pools::load(meta);
    let thorough = tier == "thorough";
    let pr = &p;
    // one base per final-character class of the joining rules: khanda-ta, anusvara, every vowel sign
    // (aa i ii u uu ri e oi o ou), independent vowels, a consonant, an auto-correct key
    // ... and two whose candidates hold the special final character twice (only the final one is turned)
    let bases_q = ["bidyut", "rong", "ami", "desh", "ma", "hothat", "kkhet", "form", "bou", "nodi", "bondhu", "bodhu", "matri", "ke", "koi", "alo", "keu", "boi", "dao", "totkkhonat", "hongkong"];
    let mut bases: Vec<String> = bases_q.iter().map(|s| s.to_string()).collect();
    // a bundled auto-correct row that maps a text to itself (its entry is a direct candidate like any other)
    if let Some(k) = p.ac_keys.iter().find(|k| k.chars().all(|c| c.is_ascii_alphanumeric()) && k.len() >= 3 && p.data.autocorrect.get(*k) == Some(*k) && p.typeable(k)) { bases.push(k.clone()); }
    if thorough {
        let mut rng = Rng::new(seed);
        for _ in 0..40 { let k = rng.pick(&p.ac_keys).clone(); if p.typeable(&k) && k.chars().all(|c| c.is_ascii_lowercase()) { bases.push(k); } }
        for s in ["bangla", "manush", "kotha", "sesh", "boi", "dhaka", "shongbad", "prothom"] { bases.push(s.into()); }
    }
    let ns = p.suffix_keys.len() as u64;
    // every auto-correct key that is another auto-correct key followed by a suffix key (both have an entry of their own:
    // the base's entry still has to appear in joined form)
    let ackeys: HashSet<&str> = p.ac_keys.iter().map(|s| s.as_str()).collect();
    let mut ac_pairs: Vec<(String, String)> = Vec::new();
    for k in &p.ac_keys { if !k.is_ascii() { continue; } for cut in 1..k.len() { let (b, sfx) = k.split_at(cut); if ackeys.contains(b) && p.suffix_keys.iter().any(|x| x == sfx) && p.typeable(k) { ac_pairs.push((b.to_string(), sfx.to_string())); } } }
    let n_pairs = ac_pairs.len() as u64;
    let ac_pairs = &ac_pairs;
    let total = ns * bases.len() as u64 + n_pairs;
    let bases = &bases;
    let mut rep = par_items(total, |_| (Worker2::new(pr.data.clone()), None::<Session>), |st, i, rep| {
        let (w, sess) = st;
        let paired = i >= ns * bases.len() as u64;
        let (base, suf_key) = if paired { let pr2 = &ac_pairs[(i - ns * bases.len() as u64) as usize]; (&pr2.0, &pr2.1) } else { (&bases[(i / ns) as usize], &pr.suffix_keys[(i % ns) as usize]) };
        // one case in seven types the suffix with its first letter in upper case: in the Avro scheme that is another
        // letter, the remainder is then (usually) no suffix key and nothing may be derived from the suffix table
        let upper: String = { let mut cs: Vec<char> = suf_key.chars().collect(); cs[0] = cs[0].to_ascii_uppercase(); cs.into_iter().collect() };
        let suf_key = if !paired && i % 7 == 3 && upper != *suf_key { &upper } else { suf_key };
        let wrapped = i % 5 == 0;
        if sess.is_none() { *sess = psession(w, 2, true, None, None, "c08").ok(); }
        let s = match sess.as_mut() { Some(s) => s, None => return };
        if s.history.len() > 4000 { s.history.clear(); }
        let full = format!("{}{}", base, suf_key);
        let (l, r) = if wrapped { ("(", ").") } else { ("", "") };
        // type the base, read its list, go on typing the suffix
        let e1 = pr.key_events(&format!("{}{}", l, base), 0);
        let s1 = feed(w, s, &e1, rep, "C08");
        let base_list = last_full(&s1).map(|x| x.1).unwrap_or_default();
        let e2 = pr.key_events(suf_key, 0);
        let s2 = feed(w, s, &e2, rep, "C08");
        let e3 = pr.key_events(r, 0);
        let s3 = feed(w, s, &e3, rep, "C08");
        let full_list = last_full(if r.is_empty() { &s2 } else { &s3 }).map(|x| x.1).unwrap_or_default();
        feed(w, s, &[SEv::Finish], rep, "C08");
        rep.evaluations += 1;
        let suf_known = w.oracle.suffix(suf_key).cloned();
        let suf_bn = suf_known.clone().unwrap_or_default();
        let (pre, tr) = (w.oracle.conv(l), w.oracle.conv(r));
        let strip = |c: &String| c.strip_prefix(pre.as_str()).and_then(|x| x.strip_suffix(tr.as_str())).map(str::to_string);
        let info = |what: &str, extra: Value| json!({"what": what, "base": base, "suffix_key": suf_key, "suffix": suf_bn, "typed": format!("{}{}{}", l, full, r),
            "base_candidates": base_list, "candidates": full_list, "details": extra});
        // completeness: every direct candidate offered for the base alone is offered in joined form
        if full.len() > 2 && suf_known.is_some() {
            let (ac, hits) = direct_of(w, &vec![], base);
            let base_l = if wrapped { format!("{}{}", l, base) } else { base.clone() };
            let _ = base_l;
            let (bpre, _) = (w.oracle.conv(l), ());
            for c in &base_list {
                let bare = match c.strip_prefix(bpre.as_str()) { Some(x) => x.to_string(), None => continue };
                if ac.as_deref() == Some(bare.as_str()) || hits.contains(&bare) {
                    let want = format!("{}{}{}", pre, join_rule(&bare, &suf_bn), tr);
                    if !full_list.contains(&want) {
                        rep.fail(info("a direct candidate of the base is not offered in joined form for base + known suffix", json!({"direct_candidate": bare, "expected_joined_candidate": want})));
                    }
                }
            }
            if !hits.is_empty() || ac.is_some() { rep.nontrivial_key(&format!("{} {} {}", base, suf_key, wrapped)); }
        }
        // soundness: every candidate is justified
        let translit = w.oracle.conv(&full);
        let (acf, hitsf) = direct_of(w, &vec![], &full);
        let emojis = w.oracle.emoji_name(&full).unwrap_or_default();
        let chars: Vec<char> = full.chars().collect();
        for c in &full_list {
            let bare = match strip(c) { Some(b) => b, None => { rep.fail(info("a candidate does not carry the surrounding punctuation", json!({"candidate": c}))); continue; } };
            if bare == translit || acf.as_deref() == Some(bare.as_str()) || hitsf.contains(&bare) || emojis.contains(&bare) { continue; }
            let mut ok = false;
            for k in 1..chars.len() {
                let (kk, ss): (String, String) = (chars[..k].iter().collect(), chars[k..].iter().collect());
                if let Some(sb) = w.oracle.suffix(&ss).cloned() {
                    let (ack, hk) = direct_of(w, &vec![], &kk);
                    if ack.iter().chain(hk.iter()).any(|b| join_rule(b, &sb) == bare) { ok = true; break; }
                }
            }
            if !ok { rep.fail(info("a candidate is neither the auto-correct entry, the transliteration, an emoji, a dictionary match of the typed word, nor a direct candidate of a proper prefix joined to the remaining suffix", json!({"candidate": c}))); }
        }
        if rep.samples.len() < 2 && i % 733 == 0 { rep.sample(info("sample", json!(null))); }
    });
    rep.extra.insert("rule".into(), json!(format!("{} base words (candidates ending in khanda-ta, anusvara, a vowel, a consonant; an auto-correct key; multi-candidate words) x ALL {} suffix keys of suffix.json (exhaustive over the suffix table), a fifth of them wrapped in punctuation, a seventh with the suffix's first letter in upper case (another Avro letter: soundness only); plus every auto-correct key that is another auto-correct key + a suffix key; base and base+suffix are typed in the same context; completeness and soundness are judged with okkhor's pattern over ALL dictionary tables, suffix.json and autocorrect.json read independently; non-trivial = the base has direct candidates", bases.len(), ns)));
    rep.extra.insert("exhaustive".into(), json!(true));
    // which final characters of direct base candidates (the selector of the joining rule) were exercised
    let mut w = Worker2::new(pr.data.clone());
    let mut finals = std::collections::BTreeSet::new();
    for b in bases.iter() {
        let (ac, hits) = direct_of(&mut w, &vec![], b);
        for c in ac.iter().chain(hits.iter()) { if let Some(ch) = c.chars().last() { finals.insert(format!("U+{:04X}", ch as u32)); } }
    }
    rep.extra.insert("final_characters_of_direct_base_candidates".into(), json!(finals));
    rep
}

// ------------------------------------------------------------------------------------------------ C09

/// Types `text` the way a front-end does: every key passes the index that is highlighted in the list shown before.
pub fn feed_frontend(w: &mut Worker2, s: &mut Session, p: &Pools, text: &str, rep: &mut Report, what: &str) -> Vec<Step> {
    let mut sel = 0u8;
    let mut out = Vec::new();
    for c in text.chars() {
        let st = feed(w, s, &[SEv::Key(p.keys[&c], 0, sel)], rep, what).pop().unwrap();
        sel = match &st.out { Out::Full { sel, .. } => (*sel).min(255) as u8, _ => 0 };
        out.push(st);
    }
    out
}

pub fn c09(tier: &str, seed: u64, meta: &str) -> Report {
    let p = Pools::load(meta);
    let thorough = tier == "thorough";
    let total: u64 = if thorough { 6000 } else { 1100 };
    let pr = &p;
    // suffix keys, longest first, so that the longest ones are always part of the run
    let mut by_len = p.suffix_keys.clone();
    by_len.sort_by_key(|s| std::cmp::Reverse(s.len()));
    let by_len = &by_len;
    let words = ["sesh", "ami", "desh", "kotha", "bhasha", "form", "as", "bidyut", "rong", "ma", "tumi", "manush", "boi", "din", "kaj", "shob", "mon", "jol", "hat", "gan", "xD", "a", "e"];
    // pairs of suffix keys (c s', s') with one more letter in front: a text b + c s' is also (b c) + s'
    let keyset: HashSet<&str> = p.suffix_keys.iter().map(|s| s.as_str()).collect();
    let pairs: Vec<(String, String, String)> = p.suffix_keys.iter().filter(|k| k.len() >= 2 && k.is_char_boundary(1) && keyset.contains(&k[1..]) && k.as_bytes()[0].is_ascii_lowercase())
        .map(|k| (k.clone(), k[..1].to_string(), k[1..].to_string())).collect();
    let pairs = &pairs;
    let mut rep = par_items(total, |_| Worker2::new(pr.data.clone()), |w, i, rep| {
        let mut rng = Rng::new(seed ^ i.wrapping_mul(0xC09));
        let smart = rng.below(2) as u32;
        let bits = 2 | (smart << 3) | (rng.below(2) as u32);
        let mut s = match psession(w, bits, true, None, None, "c09") { Ok(s) => s, Err(e) => { rep.diff(json!({"what": "context creation failed", "error": e})); return; } };
        if i % 9 == 4 {
            // a user-data directory that does not exist: the choice is kept in memory only, and stays known across
            // an update_engine of the same (phonetic) method
            let mut o = Opts::phonetic(&std::path::PathBuf::from("/nonexistent"));
            set_pbits(&mut o, bits);
            let mut f = match Session::new_faulty(w, o, None, None, "missing", "c09m") { Ok(x) => x, Err(_) => return };
            let wd = words[rng.below(words.len())];
            let st = feed_frontend(w, &mut f, pr, wd, rep, "C09");
            let (_, l1, s1) = match last_full(&st) { Some(x) => x, None => return };
            if l1.len() < 2 { return; }
            let c = (s1 + 1 + rng.below(l1.len() - 1)) % l1.len();
            if l1[c] == wd { return; }
            let chosen = l1[c].clone();
            feed(w, &mut f, &[SEv::Commit(c), SEv::Update(bits ^ 1, UacEdit::Keep)], rep, "C09");
            let st2 = feed_frontend(w, &mut f, pr, wd, rep, "C09");
            rep.evaluations += 1;
            if let Some((_, l2, s2)) = last_full(&st2) {
                if l2.get(s2) != Some(&chosen) {
                    rep.fail(json!({"what": "a learned choice that could not be saved (no user-data directory) is forgotten by update_engine in the same context", "word": wd, "committed_candidate": chosen,
                        "candidates": l2, "preselected_index": s2, "option_bits": bits, "session": f.describe()}));
                }
            }
            return;
        }
        if i % 6 == 5 && !pairs.is_empty() {
            // two learned bases fit the same text: b + (c s') and (b c) + s' - the longer learned base decides
            let b = words[rng.below(words.len())];
            let (sfx, c, sfx2) = rng.pick(pairs).clone();
            let b2 = format!("{}{}", b, c);
            let st = feed_frontend(w, &mut s, pr, b, rep, "C09");
            let (_, l1, s1) = match last_full(&st) { Some(x) => x, None => return };
            if l1.len() < 2 { feed(w, &mut s, &[SEv::Finish], rep, "C09"); return; }
            feed(w, &mut s, &[SEv::Commit((s1 + 1) % l1.len())], rep, "C09");
            let st = feed_frontend(w, &mut s, pr, &b2, rep, "C09");
            let (_, l2, s2) = match last_full(&st) { Some(x) => x, None => return };
            if l2.len() < 2 { feed(w, &mut s, &[SEv::Finish], rep, "C09"); return; }
            let c2 = { let mut k = rng.below(l2.len()); if k == s2 { k = (k + 1) % l2.len(); } k };
            if l2[c2] == b2 { feed(w, &mut s, &[SEv::Finish], rep, "C09"); return; } // the raw English text: no Bengali core to join
            let learned2 = l2[c2].clone();
            feed(w, &mut s, &[SEv::Commit(c2)], rep, "C09");
            if rng.chance(1, 2) { feed(w, &mut s, &[SEv::Restart], rep, "C09"); }
            let full = format!("{}{}", b2, sfx2);
            debug_assert_eq!(full, format!("{}{}", b, sfx));
            let st = feed_frontend(w, &mut s, pr, &full, rep, "C09");
            rep.evaluations += 1;
            if let Some((_, l3, s3)) = last_full(&st) {
                let want = join_rule(&learned2, &w.oracle.suffix(&sfx2).cloned().unwrap_or_default());
                if l3.contains(&want) && l3.get(s3) != Some(&want) {
                    rep.fail(json!({"what": "two learned words fit a text as base + known suffix: the joined candidate of the longer learned word is offered but not preselected",
                        "shorter_base": b, "longer_base": b2, "learned_for_longer_base": learned2, "typed": full, "suffix_after_longer_base": sfx2, "expected_preselected": want,
                        "candidates": l3, "preselected_index": s3, "option_bits": bits, "session": s.describe()}));
                }
                if l3.contains(&want) { rep.nontrivial_key(&format!("two {} {}", b2, sfx2)); }
            }
            feed(w, &mut s, &[SEv::Finish], rep, "C09");
            return;
        }
        let word = words[(i as usize) % words.len()];
        let wrappers: [(&str, &str); 8] = [("", ""), ("\"", "\""), ("'", "'"), ("(", ")"), ("", "."), ("", ",,"), ("[", "]?"), ("", "")];
        let (l, r) = wrappers[rng.below(8)];
        let text = format!("{}{}{}", l, word, r);
        let fail = |rep: &mut Report, s: &Session, what: &str, extra: Value| rep.fail(json!({"what": what, "word": word, "typed": text, "option_bits": bits, "details": extra, "session": s.describe()}));
        // 1. type, choose a candidate other than the preselected one, commit
        // the candidate is highlighted either after the whole text was typed, or - when the text ends in one of the
        // punctuation keys that keep the highlighted index - before that last key, which then carries the index
        let ends_in_echo = text.chars().last().map(|c| ECHO.contains(c)).unwrap_or(false);
        let (list, choice): (Vec<String>, usize) = if ends_in_echo && text.chars().count() > 1 && rng.chance(1, 2) {
            let head: String = { let cs: Vec<char> = text.chars().collect(); cs[..cs.len() - 1].iter().collect() };
            let st0 = feed_frontend(w, &mut s, pr, &head, rep, "C09");
            let l0 = match last_full(&st0) { Some(x) => x.1, None => return };
            if l0.len() < 2 { feed(w, &mut s, &[SEv::Finish], rep, "C09"); return; }
            let c = 1 + rng.below(l0.len() - 1);
            let st1 = feed(w, &mut s, &[SEv::Key(pr.keys[&text.chars().last().unwrap()], 0, c as u8)], rep, "C09");
            match last_full(&st1) {
                Some((_, l1, s1)) if c < l1.len() && s1 == c => (l1, c),
                _ => { feed(w, &mut s, &[SEv::Finish], rep, "C09"); return; }
            }
        } else {
            let st = feed_frontend(w, &mut s, pr, &text, rep, "C09");
            let (_, list, sel) = match last_full(&st) { Some(x) => x, None => return };
            if list.len() < 2 { feed(w, &mut s, &[SEv::Finish], rep, "C09"); return; }
            let choice = { let mut c = rng.below(list.len()); if c == sel { c = (c + 1) % list.len(); } c };
            (list, choice)
        };
        let chosen = list[choice].clone();
        if chosen == text && !(l.is_empty() && r.is_empty()) {
            // known finding: the raw English candidate of a wrapped text is stored with its wrapping and never found again
            rep.known.push(json!({"class": "english-candidate-wrapped", "typed": text, "committed_candidate": chosen}));
            feed(w, &mut s, &[SEv::Finish], rep, "C09");
            return;
        }
        feed(w, &mut s, &[SEv::Commit(choice)], rep, "C09");
        rep.evaluations += 1;
        let check_file = |rep: &mut Report, s: &mut Session, w: &mut Worker2, when: &str| {
            match std::fs::read(s.sel_path()) {
                Ok(b) => match parse_map(&b) {
                    Some(mut m) => { m.sort(); if let Some(ms) = s.model_sels(w) { if ms != m { rep.fail(json!({"what": "the on-disk store differs from the learned selections", "when": when, "file": map_json(&m), "model": map_json(&ms), "session": s.describe()})); } } }
                    None => rep.fail(json!({"what": "the on-disk store is not a JSON object of strings", "when": when, "bytes": String::from_utf8_lossy(&b), "session": s.describe()})),
                },
                Err(_) => rep.fail(json!({"what": "no store file after a learning commit", "when": when, "session": s.describe()})),
            }
        };
        check_file(rep, &mut s, w, "after the first learning commit");
        // the same candidate text must be preselected when the same text is typed again
        let retype = |rep: &mut Report, s: &mut Session, w: &mut Worker2, what: &str, want: &str| {
            let st = feed_frontend(w, s, pr, &text, rep, "C09");
            if let Some((_, list, sel)) = last_full(&st) {
                if list.get(sel).map(String::as_str) != Some(want) {
                    rep.fail(json!({"what": what, "word": word, "typed": text, "option_bits": bits, "committed_candidate": want, "candidates": list, "preselected_index": sel, "session": s.describe()}));
                }
            }
            // committing the preselected candidate changes nothing
            let before = std::fs::read(s.sel_path()).ok();
            let sel_now = last_full(&st).map(|x| x.2).unwrap_or(0);
            feed(w, s, &[SEv::Commit(sel_now)], rep, "C09");
            if std::fs::read(s.sel_path()).ok() != before { rep.fail(json!({"what": "committing the preselected candidate changed the store", "session": s.describe()})); }
        };
        // unrelated words in between
        for _ in 0..rng.below(3) {
            let o = words[rng.below(words.len())];
            if o == word { continue; }
            let st = feed_frontend(w, &mut s, pr, o, rep, "C09");
            let n = last_full(&st).map(|x| x.1.len()).unwrap_or(1);
            feed(w, &mut s, &[SEv::Commit(rng.below(n))], rep, "C09");
            check_file(rep, &mut s, w, "after an unrelated commit");
        }
        retype(rep, &mut s, w, "the learned candidate is not preselected when the same text is typed again in the same context", &chosen);
        // 2. re-learn another candidate for the same word now and then (the store must follow)
        let mut expect = chosen.clone();
        if rng.chance(1, 3) {
            let st = feed_frontend(w, &mut s, pr, &text, rep, "C09");
            if let Some((_, list, sel)) = last_full(&st) {
                let c2 = (sel + 1 + rng.below(list.len() - 1)) % list.len();
                if c2 != sel && !(list[c2] == text && !(l.is_empty() && r.is_empty())) { expect = list[c2].clone(); feed(w, &mut s, &[SEv::Commit(c2)], rep, "C09"); check_file(rep, &mut s, w, "after re-learning the same word"); } else { feed(w, &mut s, &[SEv::Finish], rep, "C09"); }
            }
        }
        // 3. restart: a new context over the same user-data directory - now and then one that is created with the
        // candidate list off and gets it switched on by update_engine afterwards (the store is loaded all the same)
        if rng.chance(1, 3) {
            feed(w, &mut s, &[SEv::Update(bits & !2, UacEdit::Keep), SEv::Restart, SEv::Update(bits, UacEdit::Keep)], rep, "C09");
        } else {
        feed(w, &mut s, &[SEv::Restart], rep, "C09");
        }
        retype(rep, &mut s, w, "the learned candidate is not preselected after a restart (new context over the same user data directory)", &expect);
        // 4. the word followed by a known suffix: the correspondingly joined candidate is preselected when offered
        let bare_l = w.oracle.conv(l);
        let bare_r = w.oracle.conv(r);
        let (cl, cr) = if smart == 1 { (curl(&bare_l, true), curl(&bare_r, false)) } else { (bare_l.clone(), bare_r.clone()) };
        if let Some(core) = expect.strip_prefix(cl.as_str()).and_then(|x| x.strip_suffix(cr.as_str())).map(str::to_string) {
            for n in 0..3 {
                // a one-letter word is followed by one-letter suffixes too (the shortest text the rule applies to)
                let one: Vec<&String> = pr.suffix_keys.iter().filter(|k| k.len() == 1).collect();
                let sk = if word.len() == 1 && n < 2 && !one.is_empty() { *rng.pick(&one) } else if n == 0 { &by_len[(i as usize) % 12] } else { rng.pick(&pr.suffix_keys) };
                let t2 = format!("{}{}", word, sk);
                if words.contains(&t2.as_str()) { continue; }
                let sb = w.oracle.suffix(sk).cloned().unwrap();
                let st = feed_frontend(w, &mut s, pr, &t2, rep, "C09");
                if let Some((_, list, sel)) = last_full(&st) {
                    let want = join_rule(&core, &sb);
                    if list.contains(&want) && list[sel] != want && !core.is_empty() {
                        // a longer base with its own learned choice may win: only the listed words are ever learned here, and none is a proper extension of another
                        rep.fail(json!({"what": "for a learned word followed by a known suffix the joined candidate is offered but not preselected", "word": word, "suffix_key": sk, "typed": t2,
                            "learned_core": core, "expected_preselected": want, "candidates": list, "preselected_index": sel, "session": s.describe()}));
                    }
                    if list.contains(&want) { rep.nontrivial_key(&format!("{} {}", word, sk)); }
                }
                feed(w, &mut s, &[SEv::Finish], rep, "C09");
            }
        }
        rep.nontrivial_key(&format!("{} {}", text, choice));
        if rep.samples.len() < 2 && i % 97 == 3 { rep.sample(json!({"typed": text, "option_bits": bits, "committed_index": choice, "committed_candidate": chosen, "events": s.history.len()})); }
    });
    rep.extra.insert("rule".into(), json!("each case: a word (20 stems, 8 wrappers incl. quotes with smart quotes on/off) is typed, a candidate other than the preselected one committed, the store file read back (valid JSON object of strings equal to the model's learned map), unrelated words committed, the text re-typed (same candidate preselected, committing it is a no-op), sometimes re-learned, the context restarted over the same directory and the text re-typed, then the word + known suffixes (the 12 longest suffix keys always included) typed: the joined candidate must be preselected when offered; every event also compared with the extracted model"));
    rep
}
