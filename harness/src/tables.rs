//! Tables obtained by executing riti's leaf functions over their whole finite domain.
use crate::ffi::guarded;
use riti::verif_hooks as h;
use serde_json::{json, Value};

/// The members of a character class, by running the predicate over every scalar value.  A class that suddenly has
/// thousands of members (a predicate that aliases code points) is cut to U+0000..U+2FFF - enough to differ from the
/// transcribed class (TablesAgree breaks) and small enough for the generated tables to compile, so that the streams
/// still run and find the input.
fn class_members(f: impl Fn(char) -> bool) -> Vec<u32> {
    let all: Vec<u32> = (0u32..=0x10FFFF).filter_map(char::from_u32).filter(|&c| f(c)).map(|c| c as u32).collect();
    if all.len() > 4000 { all.into_iter().filter(|&c| c < 0x3000).collect() } else { all }
}

pub fn dump(probe_layout_json: &str) -> Value {
    // keycode -> char over all u16 (panic = no entry)
    let mut keychar = Vec::new();
    for k in 0u32..=0xFFFF {
        if let Ok(Some(c)) = guarded(|| h::keycode_to_char(k as u16)) {
            keychar.push(json!([k, c as u32]));
        }
    }
    // layout lookups over all u16 x altgr x numpad against the probe layout
    let v: Value = serde_json::from_str(probe_layout_json).expect("probe layout json");
    let probe = h::LayoutProbe::parse(&v["layout"].to_string()).expect("probe layout parses");
    let mut lookups = Vec::new();
    for k in 0u32..=0xFFFF {
        for altgr in [false, true] {
            for numpad in [false, true] {
                if let Some(s) = probe.get_char_for_key(k as u16, altgr, numpad) {
                    lookups.push(json!([k, altgr as u8, numpad as u8, s]));
                }
            }
        }
    }
    let mods: Vec<Value> = (0u32..256)
        .map(|m| {
            let (s, a) = h::get_modifiers(m as u8);
            json!([m, s as u8, a as u8])
        })
        .collect();
    // META of SplittedString::split: a one-character string is all "preceding" iff the character is a meta character
    let is_meta = class_members(|c| {
        let (p, w, _t) = h::split(&c.to_string(), false);
        !p.is_empty() && w.is_empty()
    });
    // first-letter table of the phonetic suggestion maker, for every ASCII character
    let mut ptables = Vec::new();
    for b in 0u8..128 {
        let l = h::phonetic_tables_for(&(b as char).to_string());
        if !l.is_empty() {
            ptables.push(json!([b, l]));
        }
    }
    json!({
        "is_meta": is_meta,
        "phonetic_tables": ptables,
        "keychar": keychar,
        "layout_lookups": lookups,
        "modifiers": mods,
        "is_vowel": class_members(h::is_vowel),
        "is_kar": class_members(h::is_kar),
        "is_pure_consonant": class_members(h::is_pure_consonant),
        "is_ligature_making_kar": class_members(h::is_ligature_making_kar),
    })
}
