//! C04: every key x modifier x numpad from the idle state (and from a few plain positions)
//! against the text the layout FILE assigns (file parsed here, entry names from riti.h).
use crate::ffi::*;
use crate::util::*;
use serde_json::{json, Value};
use std::collections::HashMap;

pub struct Spec {
    pub entry_names: Vec<String>,
    pub spec_lookups: HashMap<u64, usize>,
}
impl Spec {
    pub fn load(meta_path: &str) -> Spec {
        let m: Value = serde_json::from_str(&std::fs::read_to_string(meta_path).unwrap()).unwrap();
        let entry_names = m["entry_names"].as_array().unwrap().iter().map(|v| v.as_str().unwrap().to_string()).collect();
        let spec_lookups = m["spec_lookups"].as_array().unwrap().iter().map(|p| (p[0].as_u64().unwrap(), p[1].as_u64().unwrap() as usize)).collect();
        Spec { entry_names, spec_lookups }
    }
    /// expected_value of spec/C04_Spec.v
    pub fn expected<'a>(&self, layout: &'a HashMap<String, String>, k: u16, m: u8, numpad: bool) -> Option<&'a str> {
        let code = (k as u64) * 4 + (((m >> 1) & 1) as u64) * 2 + numpad as u64;
        let id = *self.spec_lookups.get(&code)?;
        layout.get(&self.entry_names[id]).map(String::as_str).filter(|s| !s.is_empty())
    }
}

pub fn load_layout(path: &str) -> HashMap<String, String> {
    let v: Value = serde_json::from_str(&std::fs::read_to_string(path).unwrap()).unwrap();
    v["layout"].as_object().unwrap().iter().map(|(k, v)| (k.clone(), v.as_str().unwrap_or("").to_string())).collect()
}

pub fn run(tier: &str, seed: u64, meta: &str, layouts: &[(String, String)]) -> Report {
    let spec = Spec::load(meta);
    let mut rep = Report::default();
    let mut rng = Rng::new(seed);
    let scratch = Scratch::new("c04");
    let thorough = tier == "thorough";
    let mods: Vec<u8> = if thorough { (0..=255u8).collect() } else { vec![0, 1, 2, 3, 0xFC, 0xFD, 0xFE, 0xFF, 4, 8, 0x42, 0x81] };
    let mut coq_cases = Vec::new();
    for (lname, lpath) in layouts {
        let layout = load_layout(lpath);
        for numpad in [false, true] {
            let mut o = Opts::fixed(lpath, scratch.path());
            o.database = false;
            o.numpad = numpad;
            o.smart_quote = rng.chance(1, 2);
            let cfg = Cfg::new(&o);
            let mut ctx = Ctx::new(&cfg).expect("context");
            // (1) from the idle state: the whole key space
            for k in 0..=0xFFFFu16 {
                for &m in &mods {
                    let out = ctx.key(k, m, 0);
                    let ongoing = ctx.ongoing();
                    ctx.finish();
                    rep.evaluations += 1;
                    let exp = spec.expected(&layout, k, m, numpad);
                    let ok = match (&out, exp) {
                        (Out::Single { text, .. }, Some(e)) => text == e && ongoing,
                        (Out::Single { text, .. }, None) => text.is_empty() && !ongoing,
                        _ => false,
                    };
                    if exp.is_some() {
                        rep.nontrivial_key(&format!("{} {} {} {}", lname, k, (m >> 1) & 1, numpad));
                        if rep.samples.len() < 3 && rng.chance(1, 50) {
                            rep.sample(json!({"layout": lname, "key": k, "modifier": m, "numpad": numpad, "position": "idle",
                                "expected": exp, "got": format!("{:?}", out)}));
                        }
                        if coq_cases.len() < 160 && rng.chance(1, 40) {
                            if let Out::Single { text, .. } = &out {
                                coq_cases.push(json!({"layout": lname, "key": k, "modifier": m, "numpad": numpad, "prefix": [], "got": cps(text)}));
                            }
                        }
                    } else if coq_cases.len() < 200 && rng.chance(1, 60000) {
                        if let Out::Single { text, .. } = &out {
                            coq_cases.push(json!({"layout": lname, "key": k, "modifier": m, "numpad": numpad, "prefix": [], "got": cps(text)}));
                        }
                    }
                    if !ok {
                        rep.fail(json!({"what": "single key from the idle state", "layout": lname, "layout_file": lpath, "key": k, "modifier": m,
                            "numpad": numpad, "expected": exp, "got": format!("{:?}", out), "ongoing": ongoing}));
                    }
                }
            }
            // (1b) the number-pad option is read on every event: flip it with update_engine and press the number-pad keys
            {
                let mut o2 = o.clone();
                o2.numpad = !numpad;
                let cfg2 = Cfg::new(&o2);
                ctx.update(&cfg2);
                for k in [0x0037u16, 0x0047, 0x0048, 0x0049, 0x004A, 0x004B, 0x004C, 0x004D, 0x004E, 0x004F, 0x0050, 0x0051, 0x0052, 0x0053, 0x0E35] {
                    for m in [0u8, 2] {
                        let out = ctx.key(k, m, 0);
                        ctx.finish();
                        rep.evaluations += 1;
                        let exp = spec.expected(&layout, k, m, !numpad);
                        let ok = match (&out, exp) { (Out::Single { text, .. }, Some(e)) => text == e, (Out::Single { text, .. }, None) => text.is_empty(), _ => false };
                        if !ok {
                            rep.fail(json!({"what": "number-pad key after the number-pad option was changed by update_engine", "layout": lname, "layout_file": lpath, "key": k, "modifier": m,
                                "numpad_at_creation": numpad, "numpad_now": !numpad, "expected": exp, "got": format!("{:?}", out)}));
                        }
                    }
                }
                ctx.update(&cfg);
            }
            // (2) from plain positions (no joining rule applies): the published keys, all four planes
            let keys: Vec<u16> = spec.spec_lookups.keys().map(|c| (c / 4) as u16).collect::<std::collections::BTreeSet<_>>().into_iter().collect();
            // prefixes typed with keys that exist in both layouts: k, k+a(aa-kar), A (a), 1, comma
            let prefixes: Vec<Vec<u16>> = vec![vec![0xA0A0], vec![0xA0A0, 0xA096], vec![0xA0B4], vec![0x0002], vec![0x0033], vec![0xA0A0, 0x0002, 0xA0A0]];
            for p in &prefixes {
                for &k in &keys {
                    for m in [0u8, 1, 2, 3] {
                        let mut before = String::new();
                        for &pk in p {
                            if let Out::Single { text, .. } = ctx.key(pk, 0, 0) {
                                before = text;
                            }
                        }
                        let out = ctx.key(k, m, 0);
                        ctx.finish();
                        rep.evaluations += 1;
                        let exp = spec.expected(&layout, k, m, numpad);
                        // zo-fola / signs / hasanta are only "plain" where the spec says so: the prefixes never end in hasanta or ra
                        let want = format!("{}{}", before, exp.unwrap_or(""));
                        let ok = matches!(&out, Out::Single { text, .. } if *text == want);
                        if exp.is_some() {
                            rep.nontrivial_key(&format!("{} {:?} {} {} {}", lname, p, k, m >> 1, numpad));
                            if coq_cases.len() < 260 && rng.chance(1, 60) {
                                if let Out::Single { text, .. } = &out {
                                    coq_cases.push(json!({"layout": lname, "key": k, "modifier": m, "numpad": numpad, "prefix": p, "got": cps(text)}));
                                }
                            }
                        }
                        if !ok {
                            rep.fail(json!({"what": "key after a prefix where plain appending is specified", "layout": lname, "layout_file": lpath, "prefix_keys": p, "prefix_text": before,
                                "key": k, "modifier": m, "numpad": numpad, "expected": want, "got": format!("{:?}", out)}));
                        }
                    }
                }
            }
        }
    }
    rep.extra.insert("coq_cases".into(), Value::Array(coq_cases));
    rep.extra.insert("rule".into(), json!("every u16 key code x modifier bytes x numpad on/off x layout from the idle state (exhaustive), plus the 111 published keys x 4 planes after 6 plain prefixes; non-trivial = the layout assigns a non-empty text, distinct by (layout, prefix, key, plane, numpad)"));
    rep.extra.insert("exhaustive".into(), json!(true));
    rep.extra.insert("modifier_bytes".into(), json!(mods.len()));
    rep
}
