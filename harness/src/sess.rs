//! Long-lived sessions: one riti context and one model session fed the same events.
#![allow(dead_code)]
use crate::ffi::*;
use crate::model::*;
use crate::oracle::*;
use crate::util::*;
use serde_json::{json, Value};
use std::time::{Duration, SystemTime};

pub type Map = Vec<(String, String)>;

#[derive(Clone, Debug, PartialEq)]
pub enum UacEdit {
    Keep,
    Delete,
    Write(Map),
    /// raw bytes (possibly not JSON)
    Raw(Vec<u8>),
    /// written to a new file that is renamed over the old one (another inode)
    Replace(Map),
    /// the same content, but a modification time one day BEFORE everything so far (an older copy restored)
    Older,
}

#[derive(Clone, Debug, PartialEq)]
pub enum SEv {
    Key(u16, u8, u8), // key, modifier, selection
    Back(bool),
    Commit(usize),
    Finish,
    /// new option bits (phonetic: pcfg bits; fixed: xcfg bits), edit of the user auto-correct file before the call
    Update(u32, UacEdit),
    /// update_engine with another layout (new layout path, new option bits for that method)
    UpdateLayout(String, u32),
    /// update_engine with the same layout and options but the database directory switched on/off;
    /// the tables of a context are loaded once at construction, so nothing observable changes
    UpdateDb(bool),
    /// drop the context and create a new one over the same user directory
    Restart,
}

impl SEv {
    pub fn json(&self) -> Value {
        match self {
            SEv::Key(k, m, s) => json!({"key": k, "modifier": m, "selection": s, "char": crate::sess::key_char(*k)}),
            SEv::Back(c) => json!({"backspace": {"ctrl": c}}),
            SEv::Commit(i) => json!({"commit": i}),
            SEv::Finish => json!("finish"),
            SEv::Update(b, e) => json!({"update_engine": {"option_bits": b, "user_autocorrect_edit": format!("{:?}", e)}}),
            SEv::UpdateLayout(l, b) => json!({"update_engine": {"layout": l, "option_bits": b}}),
            SEv::UpdateDb(d) => json!({"update_engine": {"database": d}}),
            SEv::Restart => json!("restart"),
        }
    }
}

/// ASCII character of a key (for readable replays only), from the generated table
pub fn key_char(k: u16) -> Option<String> {
    KEYCHARS.get().and_then(|m| m.get(&k).map(|c| c.to_string()))
}
pub static KEYCHARS: std::sync::OnceLock<std::collections::HashMap<u16, char>> = std::sync::OnceLock::new();
pub fn load_keychars(meta: &str) -> std::collections::HashMap<char, u16> {
    let m: Value = serde_json::from_str(&std::fs::read_to_string(meta).unwrap()).unwrap();
    let mut inv = std::collections::HashMap::new();
    let mut fwd = std::collections::HashMap::new();
    for p in m["spec_keychar"].as_array().unwrap() {
        let k = p[0].as_u64().unwrap() as u16;
        let c = char::from_u32(p[1].as_u64().unwrap() as u32).unwrap();
        fwd.insert(k, c);
        // prefer the main-block key over the keypad key for the same character
        let keep = inv.get(&c).map(|&old: &u16| !(0x47..=0x53).contains(&old) && old != 0x37 && old != 0x0E35 && old != 0x0E0D).unwrap_or(false);
        if !keep { inv.insert(c, k); }
    }
    let _ = KEYCHARS.set(fwd);
    inv
}

pub fn render(out: &Out, ongoing: bool) -> String {
    let b = |x: bool| if x { "1" } else { "0" };
    let body = match out {
        Out::Full { aux, list, sel, ansi, .. } => format!("F:{}:{}:{}:{}", sel, b(*ansi), tok(aux),
            if list.is_empty() { "-".to_string() } else { list.iter().map(|s| tok(s)).collect::<Vec<_>>().join("+") }),
        Out::Single { text, ansi, .. } => format!("S:{}:{}", b(*ansi), tok(text)),
        Out::Unit => "U".to_string(),
        Out::Panic(p) => return format!("PANIC {}", p),
    };
    format!("{}:{}", body, b(ongoing))
}

pub fn map_tok(m: &Map) -> String {
    if m.is_empty() { "-".into() } else { m.iter().map(|(k, v)| format!("{}={}", tok(k), tok(v))).collect::<Vec<_>>().join(",") }
}
pub fn map_json(m: &Map) -> String {
    let o: serde_json::Map<String, Value> = m.iter().map(|(k, v)| (k.clone(), Value::from(v.as_str()))).collect();
    Value::Object(o).to_string()
}
pub fn parse_map(bytes: &[u8]) -> Option<Map> {
    let v: std::collections::BTreeMap<String, String> = serde_json::from_slice(bytes).ok()?;
    Some(v.into_iter().collect())
}

pub struct Worker2 {
    pub model: Model,
    pub oracle: Oracle,
    /// a second model process + oracle for contexts created without a database directory
    pub nodb: Option<(Model, Oracle)>,
}
impl Worker2 {
    pub fn new(data: std::sync::Arc<Data>) -> Worker2 {
        Worker2 { model: Model::new(), oracle: Oracle::new(data), nodb: None }
    }
    pub fn ask(&mut self, req: &str) -> Result<String, String> {
        self.model.ask_with(req, &mut self.oracle)
    }
    pub fn ask_db(&mut self, database: bool, req: &str) -> Result<String, String> {
        if database {
            self.model.ask_with(req, &mut self.oracle)
        } else {
            if self.nodb.is_none() {
                let mut o = Oracle::new(self.oracle.data.clone());
                o.with_db = false;
                self.nodb = Some((Model::new(), o));
            }
            let (m, o) = self.nodb.as_mut().unwrap();
            m.ask_with(req, o)
        }
    }
}

pub fn pbits(o: &Opts) -> u32 {
    (o.english as u32) | ((o.phonetic_suggestion as u32) << 1) | ((o.ansi as u32) << 2) | ((o.smart_quote as u32) << 3)
}
pub fn set_pbits(o: &mut Opts, b: u32) {
    o.english = b & 1 != 0;
    o.phonetic_suggestion = b & 2 != 0;
    o.ansi = b & 4 != 0;
    o.smart_quote = b & 8 != 0;
}
/// fixed: bits 0-4 helpers (vowel, chandra, kar, old reph, kar order), 5 numpad, 6 suggestions, 7 english, 8 ansi, 9 smart quote
pub fn xbits(o: &Opts) -> u32 {
    (o.vowel as u32) | ((o.chandra as u32) << 1) | ((o.kar as u32) << 2) | ((o.old_reph as u32) << 3) | ((o.kar_order as u32) << 4)
        | ((o.numpad as u32) << 5) | ((o.fixed_suggestion as u32) << 6) | ((o.english as u32) << 7) | ((o.ansi as u32) << 8) | ((o.smart_quote as u32) << 9)
}
pub fn set_xbits(o: &mut Opts, b: u32) {
    o.vowel = b & 1 != 0;
    o.chandra = b & 2 != 0;
    o.kar = b & 4 != 0;
    o.old_reph = b & 8 != 0;
    o.kar_order = b & 16 != 0;
    o.numpad = b & 32 != 0;
    o.fixed_suggestion = b & 64 != 0;
    o.english = b & 128 != 0;
    o.ansi = b & 256 != 0;
    o.smart_quote = b & 512 != 0;
}

/// One context + one model session over one user-data directory.
pub struct Session {
    pub phonetic: bool,
    pub layout_tag: String,
    pub opts: Opts,
    pub cfg: Cfg,
    pub ctx: Ctx,
    pub dir: Option<Scratch>,
    pub history: Vec<SEv>,
    pub initial: Value,
    loaded_mtime: Option<SystemTime>,
    clock: u64,
    /// explicit modification times of the user's auto-correct file: t0 + mtime_ms, strictly increasing
    pub mtime_ms: u64,
    pub t0: SystemTime,
    pub model_dead: bool,
    /// whether the tables the context loaded at construction came from the database directory
    pub model_db: bool,
    pub id: String,
}

static NEXT_ID: std::sync::atomic::AtomicU64 = std::sync::atomic::AtomicU64::new(1);

pub struct Step {
    pub imp: String,
    pub model: String,
    pub out: Out,
    pub ongoing: bool,
}

impl Session {
    fn user_dir(&self) -> std::path::PathBuf { self.opts.user_dir() }
    pub fn sel_path(&self) -> std::path::PathBuf { self.user_dir().join("phonetic-candidate-selection.json") }
    pub fn uac_path(&self) -> std::path::PathBuf { self.user_dir().join("autocorrect.json") }

    fn uac_state(&self) -> (Option<SystemTime>, Map) {
        match std::fs::metadata(self.uac_path()).and_then(|m| m.modified()) {
            Ok(t) => (Some(t), std::fs::read(self.uac_path()).ok().and_then(|b| parse_map(&b)).unwrap_or_default()),
            Err(_) => (None, vec![]),
        }
    }
    fn sels_on_disk(&self) -> Map {
        std::fs::read(self.sel_path()).ok().and_then(|b| parse_map(&b)).unwrap_or_default()
    }

    /// Creates the user directory with the given files, the context and the model session.
    /// A new context over the user-data directory of `other` (same files), with `other`'s current options.
    pub fn new_beside(w: &mut Worker2, other: &Session, tag: &str) -> Result<Session, String> {
        Session::create(w, other.opts.clone(), None, None, tag, Some(other.opts.user_home.clone()))
    }
    pub fn new(w: &mut Worker2, opts: Opts, uac: Option<&Map>, sels: Option<&Map>, tag: &str) -> Result<Session, String> {
        Session::create(w, opts, uac, sels, tag, None)
    }
    /// Like `new`, with the two user files given as raw bytes and an optional fault of the user-data directory:
    /// "missing" (never created) or "file" (a regular file sits where the directory should be).
    pub fn new_faulty(w: &mut Worker2, mut opts: Opts, uac: Option<&[u8]>, sels: Option<&[u8]>, dir_fault: &str, tag: &str) -> Result<Session, String> {
        let dir = Scratch::new(tag);
        opts.user_home = dir.path().to_path_buf();
        match dir_fault {
            "missing" => {}
            "file" => { std::fs::write(opts.user_dir(), b"not a directory").map_err(|e| e.to_string())?; }
            // the directory is missing and cannot be made either: a component above it is a regular file
            "blocked" => {
                let blocker = dir.path().join("blocker");
                std::fs::write(&blocker, b"not a directory").map_err(|e| e.to_string())?;
                opts.user_home = blocker;
            }
            _ => {
                std::fs::create_dir_all(opts.user_dir()).map_err(|e| e.to_string())?;
                if let Some(b) = uac { std::fs::write(opts.user_dir().join("autocorrect.json"), b).map_err(|e| e.to_string())?; }
                if let Some(b) = sels { std::fs::write(opts.user_dir().join("phonetic-candidate-selection.json"), b).map_err(|e| e.to_string())?; }
            }
        }
        let home = opts.user_home.clone();
        let mut s = Session::create_in(w, opts, tag, home, json!({"user_autocorrect_bytes": uac.map(|b| String::from_utf8_lossy(b).to_string()), "selection_bytes": sels.map(|b| String::from_utf8_lossy(b).to_string()), "directory": dir_fault}))?;
        s.dir = Some(dir);
        Ok(s)
    }
    fn create(w: &mut Worker2, mut opts: Opts, uac: Option<&Map>, sels: Option<&Map>, tag: &str, home: Option<std::path::PathBuf>) -> Result<Session, String> {
        let dir = if home.is_none() { Some(Scratch::new(tag)) } else { None };
        opts.user_home = home.unwrap_or_else(|| dir.as_ref().unwrap().path().to_path_buf());
        std::fs::create_dir_all(opts.user_dir()).map_err(|e| e.to_string())?;
        // the user's auto-correct file gets an explicit modification time; later edits are dated relative to it
        let base = SystemTime::now();
        if let Some(m) = uac {
            let path = opts.user_dir().join("autocorrect.json");
            std::fs::write(&path, map_json(m)).map_err(|e| e.to_string())?;
            if let Ok(f) = std::fs::File::options().write(true).open(&path) { let _ = f.set_modified(base); }
        }
        if let Some(m) = sels { std::fs::write(opts.user_dir().join("phonetic-candidate-selection.json"), map_json(m)).map_err(|e| e.to_string())?; }
        let home = opts.user_home.clone();
        let mut s = Session::create_in(w, opts, tag, home, json!({"user_autocorrect": uac.map(|m| map_json(m)), "selections": sels.map(|m| map_json(m))}))?;
        s.t0 = base;
        s.dir = dir;
        Ok(s)
    }
    fn create_in(w: &mut Worker2, mut opts: Opts, _tag: &str, home: std::path::PathBuf, files: Value) -> Result<Session, String> {
        opts.user_home = home;
        let (uac, sels): (Option<&Map>, Option<&Map>) = (None, None);
        let dir: Option<Scratch> = None;
        let phonetic = opts.is_phonetic();
        let layout_tag = if phonetic { "avro".to_string() } else if opts.layout.ends_with("Probhat.json") { "p".into() } else { "s".into() };
        let cfg = Cfg::new(&opts);
        let ctx = Ctx::new(&cfg)?;
        let _ = (uac, sels);
        let initial = json!({"layout": opts.layout, "database": opts.database, "option_bits": if phonetic { pbits(&opts) } else { xbits(&opts) },
            "options": format!("{:?}", opts), "user_files": files});
        let model_db = opts.database;
        let mut s = Session { phonetic, layout_tag, opts, cfg, ctx, dir, history: vec![], initial, loaded_mtime: None, clock: 0, mtime_ms: 0, t0: SystemTime::now() + Duration::from_secs(2), model_dead: false, model_db: false, id: format!("s{}", NEXT_ID.fetch_add(1, std::sync::atomic::Ordering::Relaxed)) };
        s.model_db = model_db;
        s.model_new(w)?;
        Ok(s)
    }
    fn model_new(&mut self, w: &mut Worker2) -> Result<(), String> {
        self.model_dead = false;
        if self.phonetic {
            let (t, uac) = self.uac_state();
            self.loaded_mtime = t;
            let sels = self.sels_on_disk();
            w.ask_db(self.model_db, &format!("PNEW {} {} {} {}", self.id, pbits(&self.opts), map_tok(&uac), map_tok(&sels))).map(|_| ())
        } else {
            w.ask_db(self.model_db, &format!("XNEW {} {} {}", self.id, self.layout_tag, xbits(&self.opts))).map(|_| ())
        }
    }

    pub fn step(&mut self, w: &mut Worker2, ev: &SEv) -> Step {
        self.history.push(ev.clone());
        let mut mev: Option<String> = None;
        let out = match ev {
            SEv::Key(k, m, sel) => {
                mev = Some(if self.phonetic { format!("k{}.{}", k, sel) } else { format!("k{}.{}", k, m) });
                self.ctx.key(*k, *m, *sel)
            }
            SEv::Back(c) => { mev = Some(format!("b{}", *c as u8)); self.ctx.backspace(*c) }
            SEv::Commit(i) => { mev = Some(if self.phonetic { format!("c{}", i) } else { "c".into() }); self.ctx.commit(*i) }
            SEv::Finish => { mev = Some("f".into()); self.ctx.finish() }
            SEv::Update(bits, edit) => {
                self.clock += 1;
                let path = self.uac_path();
                match edit {
                    UacEdit::Keep => {}
                    UacEdit::Delete => { let _ = std::fs::remove_file(&path); }
                    UacEdit::Write(m) => { let _ = std::fs::write(&path, map_json(m)); }
                    UacEdit::Raw(b) => { let _ = std::fs::write(&path, b); }
                    UacEdit::Replace(m) => { let tmp = path.with_extension("json.new"); let _ = std::fs::write(&tmp, map_json(m)); let _ = std::fs::rename(&tmp, &path); }
                    UacEdit::Older => { if let Ok(f) = std::fs::File::options().write(true).open(&path) { let _ = f.set_modified(self.t0 - Duration::from_secs(86_400)); } }
                }
                if !matches!(edit, UacEdit::Keep | UacEdit::Delete | UacEdit::Older) {
                    // modification times are set explicitly: strictly later than anything before
                    if let Ok(f) = std::fs::File::options().write(true).open(&path) {
                        // alternately 0.3 s and 10 s after the previous edit (a reload must not need whole seconds)
                        self.mtime_ms += if self.clock % 2 == 1 { 300 } else { 10_000 };
                        let _ = f.set_modified(self.t0 + Duration::from_millis(self.mtime_ms));
                    }
                }
                if self.phonetic { set_pbits(&mut self.opts, *bits) } else { set_xbits(&mut self.opts, *bits) }
                let newcfg = Cfg::new(&self.opts);
                let o = self.ctx.update(&newcfg);
                self.cfg = newcfg;
                if self.phonetic {
                    let (t, uac) = self.uac_state();
                    let reload = match (t, self.loaded_mtime) {
                        (Some(t), Some(l)) if t > l => Some(uac),
                        (Some(_), None) => Some(uac),
                        (None, Some(_)) => Some(vec![]),
                        _ => None,
                    };
                    if reload.is_some() { self.loaded_mtime = t; }
                    mev = Some(format!("u{}:{}", bits, reload.map(|m| map_tok(&m)).unwrap_or_else(|| "n".into())));
                } else {
                    mev = Some(format!("u{}", bits));
                }
                o
            }
            SEv::UpdateLayout(layout, bits) => {
                self.opts.layout = layout.clone();
                self.phonetic = self.opts.is_phonetic();
                if self.phonetic { set_pbits(&mut self.opts, *bits) } else { set_xbits(&mut self.opts, *bits); self.opts.phonetic_suggestion = false; }
                self.layout_tag = if self.phonetic { "avro".to_string() } else if self.opts.layout.ends_with("data/Probhat.json") { "p".into() } else if self.opts.layout.ends_with("synthetic.json") { "s".into() } else { "?".into() };
                let newcfg = Cfg::new(&self.opts);
                let o = self.ctx.update(&newcfg);
                self.cfg = newcfg;
                o
            }
            SEv::UpdateDb(d) => {
                self.opts.database = *d;
                let newcfg = Cfg::new(&self.opts);
                let o = self.ctx.update(&newcfg);
                self.cfg = newcfg;
                // the phonetic method looks at the user's auto-correct file on every update
                if self.phonetic {
                    let (t, uac) = self.uac_state();
                    let reload = match (t, self.loaded_mtime) {
                        (Some(t), Some(l)) if t > l => Some(uac),
                        (Some(_), None) => Some(uac),
                        (None, Some(_)) => Some(vec![]),
                        _ => None,
                    };
                    if reload.is_some() { self.loaded_mtime = t; }
                    mev = Some(format!("u{}:{}", pbits(&self.opts), reload.map(|m| map_tok(&m)).unwrap_or_else(|| "n".into())));
                } else {
                    mev = Some(format!("u{}", xbits(&self.opts)));
                }
                o
            }
            SEv::Restart => {
                self.model_db = self.opts.database;
                let cfg = Cfg::new(&self.opts);
                match Ctx::new(&cfg) {
                    Ok(c) => { self.ctx = c; self.cfg = cfg; Out::Unit }
                    Err(e) => Out::Panic(e),
                }
            }
        };
        let ongoing = self.ctx.ongoing();
        let imp = render(&out, ongoing);
        let model = if self.model_dead { "DEAD".to_string() } else {
            match ev {
                SEv::Restart => match self.model_new(w) { Ok(()) => "U:0".to_string(), Err(e) => format!("E {}", e) },
                SEv::UpdateLayout(..) => if self.layout_tag == "?" { self.model_dead = true; "DEAD".to_string() } else { match self.model_new(w) { Ok(()) => "U:0".to_string(), Err(e) => format!("E {}", e) } },
                _ => match w.ask_db(self.model_db, &format!("{} {} {}", if self.phonetic { "PEV" } else { "XEV" }, self.id, mev.unwrap())) { Ok(r) => r, Err(e) => format!("E {}", e) },
            }
        };
        if model == "PANIC" || model.starts_with("E ") { self.model_dead = true; }
        Step { imp, model, out, ongoing }
    }

    pub fn model_sels(&mut self, w: &mut Worker2) -> Option<Map> {
        let r = w.ask_db(self.model_db, &format!("PSELS {}", self.id)).ok()?;
        if r == "-" { return Some(vec![]); }
        let mut m: Map = r.split(',').filter_map(|kv| kv.split_once('=')).map(|(k, v)| (untok(k), untok(v))).collect();
        m.sort();
        Some(m)
    }

    pub fn describe(&self) -> Value {
        json!({"replay_kind": "session", "initial": self.initial, "events": self.history.iter().map(|e| e.json()).collect::<Vec<_>>()})
    }
}

/// Fixed-mode lists are produced by sort_unstable and then cut: compare modulo ties.
/// model token: F:sel:ansi:aux:list:ongoing:cut:tail:items(g~str+...)
pub fn fixed_equiv(imp: &str, model: &str) -> bool {
    if !imp.starts_with("F:") || !model.starts_with("F:") { return imp == model; }
    let iv: Vec<&str> = imp.split(':').collect();
    let mv: Vec<&str> = model.split(':').collect();
    if iv.len() < 6 || mv.len() < 9 { return false; }
    if iv[1] != mv[1] || iv[2] != mv[2] || iv[3] != mv[3] || iv[5] != mv[5] { return false; }
    let ilist: Vec<&str> = if iv[4] == "-" { vec![] } else { iv[4].split('+').collect() };
    let cut: usize = mv[6].parse().unwrap_or(0);
    let tail: Option<&str> = mv[7].strip_prefix('t');
    let full: Vec<(usize, &str)> = if mv[8] == "-" { vec![] } else { mv[8].split('+').filter_map(|x| x.split_once('~')).map(|(g, s)| (g.parse().unwrap_or(0), s)).collect() };
    let body = full.len().min(cut);
    if ilist.len() != body + tail.is_some() as usize { return false; }
    if let Some(t) = tail { if ilist[body] != t { return false; } }
    let mut used = vec![false; full.len()];
    for i in 0..body {
        let g = full[i].0;
        match (0..full.len()).find(|&j| !used[j] && full[j].0 == g && full[j].1 == ilist[i]) {
            Some(j) => used[j] = true,
            None => return false,
        }
    }
    true
}

// ------------------------------------------------------------------------------------------------ replay

impl SEv {
    pub fn from_json(v: &Value) -> Option<SEv> {
        if let Some(s) = v.as_str() {
            return match s { "finish" => Some(SEv::Finish), "restart" => Some(SEv::Restart), _ => None };
        }
        if let Some(k) = v.get("key") {
            return Some(SEv::Key(k.as_u64()? as u16, v["modifier"].as_u64().unwrap_or(0) as u8, v["selection"].as_u64().unwrap_or(0) as u8));
        }
        if let Some(b) = v.get("backspace") { return Some(SEv::Back(b["ctrl"].as_bool().unwrap_or(false))); }
        if let Some(c) = v.get("commit") { return Some(SEv::Commit(c.as_u64()? as usize)); }
        if let Some(u) = v.get("update_engine") {
            if let Some(d) = u.get("database") { return Some(SEv::UpdateDb(d.as_bool()?)); }
            if let Some(l) = u.get("layout") { return Some(SEv::UpdateLayout(l.as_str()?.to_string(), u["option_bits"].as_u64()? as u32)); }
            let e = u["user_autocorrect_edit"].as_str().unwrap_or("Keep");
            let edit = if e.starts_with("Delete") { UacEdit::Delete } else if e.starts_with("Older") { UacEdit::Older } else if e.starts_with("Write") || e.starts_with("Replace") {
                // Write([("k", "v"), ...])
                let mut m = Vec::new();
                let mut rest = e;
                while let Some(i) = rest.find("(\"") {
                    let r = &rest[i + 2..];
                    let a = r.find("\", \"")?;
                    let k = &r[..a];
                    let r2 = &r[a + 4..];
                    let b = r2.find("\")")?;
                    m.push((k.to_string(), r2[..b].to_string()));
                    rest = &r2[b..];
                }
                UacEdit::Write(m)
            } else if e.starts_with("Raw") {
                let inner = e.trim_start_matches("Raw([").trim_end_matches("])");
                UacEdit::Raw(inner.split(',').filter_map(|x| x.trim().parse::<u8>().ok()).collect())
            } else { UacEdit::Keep };
            return Some(SEv::Update(u["option_bits"].as_u64()? as u32, edit));
        }
        None
    }
}

/// Re-runs a recorded session ({"initial": .., "events": [..]}) on the implementation and the model and prints both.
pub fn replay(data: std::sync::Arc<Data>, case: &Value) -> i32 {
    let sess = if case.get("initial").is_some() { case } else if case.get("session").is_some() { &case["session"] } else { case };
    let init = &sess["initial"];
    let home = std::path::PathBuf::from("/nonexistent");
    let layout = init["layout"].as_str().unwrap_or(PHONETIC).to_string();
    let mut o = if layout == PHONETIC { Opts::phonetic(&home) } else { Opts::fixed(&layout, &home) };
    let bits = init["option_bits"].as_u64().unwrap_or(2) as u32;
    if layout == PHONETIC { set_pbits(&mut o, bits) } else { set_xbits(&mut o, bits) }
    o.database = init["database"].as_bool().unwrap_or(true);
    let files = &init["user_files"];
    let getb = |k1: &str, k2: &str| -> Option<Vec<u8>> { files.get(k1).and_then(|v| v.as_str()).or_else(|| files.get(k2).and_then(|v| v.as_str())).map(|s| s.as_bytes().to_vec()) };
    let (uac, sels) = (getb("user_autocorrect", "user_autocorrect_bytes"), getb("selections", "selection_bytes"));
    let mut w = Worker2::new(data);
    let mut s = match Session::new_faulty(&mut w, o, uac.as_deref(), sels.as_deref(), files.get("directory").and_then(|v| v.as_str()).unwrap_or("ok"), "replay") {
        Ok(s) => s,
        Err(e) => { println!("context creation: PANIC {}", e); return 1; }
    };
    let evs: Vec<SEv> = sess["events"].as_array().map(|a| a.iter().filter_map(SEv::from_json).collect()).unwrap_or_default();
    let mut rc = 0;
    for (n, e) in evs.iter().enumerate() {
        let st = s.step(&mut w, e);
        let same = if s.phonetic { st.imp == st.model } else { fixed_equiv(&st.imp, &st.model) };
        println!("event {:3} {}\n    implementation: {}\n    model:          {}{}", n, e.json(), crate::ph::explain(&st.imp), crate::ph::explain(&st.model), if same { "" } else { "\n    ** differ **" });
        if st.imp.starts_with("PANIC") { rc = 1; }
    }
    rc
}
