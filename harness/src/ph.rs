//! Phonetic streams: sessions of many words, implementation vs extracted model, plus property monitors.
#![allow(dead_code)]
use crate::ffi::*;
use crate::fx::par_items;
use crate::model::*;
use crate::oracle::*;
use crate::sess::*;
use crate::util::*;
use serde_json::{json, Value};
use std::collections::HashMap;
use std::sync::Arc;

pub struct Pools {
    pub data: Arc<Data>,
    pub keys: HashMap<char, u16>,
    pub ac_keys: Vec<String>,
    pub suffix_keys: Vec<String>,
    pub emoticons: Vec<String>,
    pub emoji_names: Vec<String>,
    pub meta: String,
}
pub const TYPEABLE: &str = "!\"#$%&'()*+,-./0123456789:;<=>?@ABCDEFGHIJKLMNOPQRSTUVWXYZ[\\]^_`abcdefghijklmnopqrstuvwxyz{|}~";
pub const PUNCT: &str = "-]~!@#%&*()_=+[{}'\";<>/?|.,";

impl Pools {
    pub fn load(meta: &str) -> Pools {
        let data = Data::load();
        let keys = load_keychars(meta);
        let mut ac_keys: Vec<String> = data.autocorrect.keys().cloned().collect();
        ac_keys.sort();
        let mut suffix_keys: Vec<String> = data.suffix.keys().cloned().collect();
        suffix_keys.sort();
        let mut emoticons: Vec<String> = emojicon::internal::emoticons().keys().map(|s| s.to_string()).collect();
        emoticons.sort();
        let mut emoji_names: Vec<String> = emojicon::internal::emojis().keys().map(|s| s.to_string()).collect();
        emoji_names.sort();
        Pools { data, keys, ac_keys, suffix_keys, emoticons, emoji_names, meta: meta.into() }
    }
    pub fn typeable(&self, s: &str) -> bool { s.chars().all(|c| self.keys.contains_key(&c)) }
    pub fn key_events(&self, s: &str, sel: u8) -> Vec<SEv> { s.chars().map(|c| SEv::Key(self.keys[&c], 0, sel)).collect() }
}

/// Feeds the events to the session; compares model and implementation after each one.  Returns the steps.
pub fn feed(w: &mut Worker2, s: &mut Session, evs: &[SEv], rep: &mut Report, what: &str) -> Vec<Step> {
    let mut out = Vec::with_capacity(evs.len());
    for e in evs {
        let st = s.step(w, e);
        rep.evaluations += 1;
        let same = if s.phonetic { st.imp == st.model } else { fixed_equiv(&st.imp, &st.model) };
        if !same && !(s.model_dead && st.model == "DEAD") {
            rep.diff(json!({"what": format!("model and implementation differ ({})", what), "session": s.describe(),
                "at_event": s.history.len() - 1, "implementation": explain(&st.imp), "model": explain(&st.model)}));
        }
        out.push(st);
    }
    out
}

/// human-readable rendering of an output token
pub fn explain(t: &str) -> Value {
    let v: Vec<&str> = t.split(':').collect();
    match v.first() {
        Some(&"F") if v.len() >= 6 => json!({"kind": "list", "selection": v[1], "ansi": v[2], "auxiliary": untok(v[3]),
            "candidates": if v[4] == "-" { vec![] } else { v[4].split('+').map(untok).collect::<Vec<_>>() }, "ongoing": v[5],
            "model_full_sorted_before_cut": v.get(8).map(|x| x.split('+').filter_map(|y| y.split_once('~')).map(|(g, s)| format!("{}:{}", g, untok(s))).collect::<Vec<_>>())}),
        Some(&"S") if v.len() >= 4 => json!({"kind": "single", "ansi": v[1], "text": untok(v[2]), "ongoing": v[3]}),
        _ => json!(t),
    }
}

pub fn word_pool(p: &Pools, rng: &mut Rng, n: usize) -> Vec<String> {
    let mut v = Vec::new();
    let wrappers: [(&str, &str); 10] = [("", ""), ("\"", "\""), ("'", "'"), ("(", ")"), ("", "."), ("", ",,"), ("", ":"), ("{", "}"), ("", "?!"), ("#\"", "\"#")];
    for _ in 0..n {
        let base: String = match rng.below(8) {
            0 => rng.pick(&p.ac_keys).clone(),
            1 => rng.pick(&p.emoji_names).clone(),
            2 => rng.pick(&p.emoticons).clone(),
            3 => format!("{}{}", rng.pick(&p.ac_keys), rng.pick(&p.suffix_keys)),
            4 => { let l = 1 + rng.below(6); (0..l).map(|_| *rng.pick(&TYPEABLE.chars().collect::<Vec<_>>())).collect() }
            5 => { let l = 1 + rng.below(8); (0..l).map(|_| *rng.pick(&"abcdefghijklmnopqrstuvwxyzaeiouhkrtn".chars().collect::<Vec<_>>())).collect() }
            6 => { let w = ["ami", "tumi", "bangla", "kotha", "desh", "sesh", "bidyut", "bhasha", "kkhet", "onge", "hothat", "rong", "a", "i", "e", "o"]; format!("{}{}", rng.pick(&w), if rng.chance(1, 2) { rng.pick(&p.suffix_keys).clone() } else { String::new() }) }
            _ => { let l = 2 + rng.below(5); (0..l).map(|_| *rng.pick(&"abdeghiklmnoprstu".chars().collect::<Vec<_>>())).collect() }
        };
        let (a, b) = if rng.chance(2, 5) { *rng.pick(&wrappers) } else { ("", "") };
        let t = format!("{}{}{}", a, base, b);
        if p.typeable(&t) && !t.is_empty() { v.push(t); }
    }
    v
}

/// ph0: plain differential - random words in long sessions under all 16 option sets.
pub fn ph0(tier: &str, seed: u64, meta: &str) -> Report {
    let p = Pools::load(meta);
    let thorough = tier == "thorough";
    let sessions: u64 = if thorough { 256 } else { 48 };
    let words_per = if thorough { 120 } else { 40 };
    let pr = &p;
    let mut rep = par_items(sessions, |_| Worker2::new(pr.data.clone()), |w, i, rep| {
        let mut rng = Rng::new(seed ^ i.wrapping_mul(0xA5A5));
        let home = std::path::PathBuf::from("/nonexistent");
        let mut o = Opts::phonetic(&home);
        set_pbits(&mut o, (i % 16) as u32);
        let mut s = match Session::new(w, o, None, None, "ph0") { Ok(s) => s, Err(e) => { rep.diff(json!({"what": "context creation failed", "error": e})); return; } };
        for t in word_pool(pr, &mut rng, words_per) {
            let mut evs = pr.key_events(&t, 0);
            // a few backspaces and re-typing
            if rng.chance(1, 4) && t.len() > 1 { evs.push(SEv::Back(false)); evs.push(evs[evs.len() - 2].clone()); }
            evs.push(if rng.chance(1, 2) { SEv::Finish } else { SEv::Commit(0) });
            let steps = feed(w, &mut s, &evs, rep, "ph0");
            if steps.iter().any(|x| x.imp.starts_with("F:") && x.imp.split(':').nth(4).map(|l| l.contains('+')).unwrap_or(false)) {
                rep.nontrivial_key(&format!("{} {}", i % 16, t));
            }
            if rep.samples.len() < 2 { rep.sample(json!({"text": t, "option_bits": i % 16, "last_output": steps.iter().rev().find(|x| x.imp.starts_with("F:") || x.imp.starts_with("S:")).map(|x| explain(&x.imp))})); }
        }
    });
    rep.extra.insert("rule".into(), json!("random word pool"));
    rep
}

// ------------------------------------------------------------------------------------------------ fixed with suggestions

pub struct FixedPools {
    pub p: Pools,
    pub km: crate::fx::KeyMap,
    pub words: Vec<String>,
    pub bn_names: Vec<String>,
}
impl FixedPools {
    pub fn load(meta: &str, layout_path: &str) -> FixedPools {
        let p = Pools::load(meta);
        let su = crate::fx::setup(meta, layout_path);
        let mut words: Vec<String> = p.data.dict.values().flat_map(|v| v.iter().cloned()).collect();
        words.sort();
        words.dedup();
        let mut bn_names: Vec<String> = emojicon::internal::bn_emojis().keys().map(|s| s.to_string()).collect();
        bn_names.sort();
        FixedPools { p, km: su.km, words, bn_names }
    }
    /// keys typing the Bengali text code point by code point (None if some code point has no key)
    pub fn keys_for(&self, text: &str) -> Option<Vec<SEv>> {
        text.chars().map(|c| self.km.by_value.get(&c.to_string()).map(|&i| SEv::Key(self.km.keys[i].0, self.km.keys[i].1, 0))).collect()
    }
}

pub const PROBHAT: &str = "/repo/data/Probhat.json";

/// fs0: plain differential for the fixed method with suggestions: prefixes of dictionary words, emoji names, punctuation,
/// backspaces, in long sessions under random option sets.
pub fn fs0(tier: &str, seed: u64, meta: &str) -> Report {
    let fp = FixedPools::load(meta, PROBHAT);
    let thorough = tier == "thorough";
    let sessions: u64 = if thorough { 320 } else { 64 };
    let words_per = if thorough { 150 } else { 40 };
    let fpr = &fp;
    let mut rep = par_items(sessions, |_| Worker2::new(fpr.p.data.clone()), |w, i, rep| {
        let mut rng = Rng::new(seed ^ i.wrapping_mul(0xF50));
        let home = std::path::PathBuf::from("/nonexistent");
        let mut o = Opts::fixed(PROBHAT, &home);
        // suggestions on; helpers, english, ansi, smart quote random
        let bits = 64 | (rng.below(32) as u32) | ((rng.below(2) as u32) << 7) | ((rng.below(4) == 0) as u32) << 8 | ((rng.below(2) as u32) << 9);
        set_xbits(&mut o, bits);
        let mut s = match Session::new(w, o, None, None, "fs0") { Ok(s) => s, Err(e) => { rep.diff(json!({"what": "context creation failed", "error": e})); return; } };
        let punct = ["(", ")", "\"", "'", ".", ",", "?", "!", ":", ";", "-"];
        for _ in 0..words_per {
            let base = if rng.chance(1, 6) { rng.pick(&fpr.bn_names).clone() } else { rng.pick(&fpr.words).clone() };
            let n = base.chars().count();
            let take = if rng.chance(1, 3) { n } else { 1 + rng.below(n.min(6)) };
            let prefix: String = base.chars().take(take).collect();
            let mut evs: Vec<SEv> = Vec::new();
            if rng.chance(1, 4) { if let Some(k) = fpr.keys_for(*rng.pick(&punct[..])) { evs.extend(k); } }
            match fpr.keys_for(&prefix) { Some(k) => evs.extend(k), None => continue }
            if rng.chance(1, 4) { if let Some(k) = fpr.keys_for(*rng.pick(&punct[..])) { evs.extend(k); } }
            if rng.chance(1, 5) { evs.push(SEv::Back(false)); }
            if rng.chance(1, 10) { evs.push(SEv::Key(0x004F, 0, 0)); } // keypad 1: no value while numpad is off
            evs.push(match rng.below(4) { 0 => SEv::Finish, 1 => SEv::Back(true), _ => SEv::Commit(0) });
            let steps = feed(w, &mut s, &evs, rep, "fs0");
            if steps.iter().any(|x| x.imp.starts_with("F:") && x.imp.split(':').nth(4).map(|l| l.contains('+')).unwrap_or(false)) {
                rep.nontrivial_key(&format!("{} {}", bits, prefix));
            }
            if rep.samples.len() < 2 { rep.sample(json!({"typed_prefix": prefix, "option_bits": bits, "last_output": steps.iter().rev().find(|x| x.imp.starts_with("F:")).map(|x| explain(&x.imp))})); }
        }
    });
    rep.extra.insert("rule".into(), json!("prefixes of random dictionary words and Bengali emoji names typed through Probhat"));
    rep
}

// ------------------------------------------------------------------------------------------------ C18

fn cands(tok_: &str) -> Vec<String> {
    let v: Vec<&str> = tok_.split(':').collect();
    if v.first() != Some(&"F") || v.len() < 6 || v[4] == "-" { return vec![]; }
    v[4].split('+').map(untok).collect()
}

pub fn c18(tier: &str, seed: u64, meta: &str) -> Report {
    let fp = FixedPools::load(meta, PROBHAT);
    let thorough = tier == "thorough";
    let fpr = &fp;
    let emoticons = emojicon::internal::emoticons();
    let names = emojicon::internal::emojis();
    let bn = emojicon::internal::bn_emojis();
    let wrappers: Vec<(&str, &str)> = if thorough { vec![("", ""), ("(", ")"), ("\"", "\""), ("", "."), ("(", ""), ("'", "',"), ("[", "]!")] } else { vec![("", ""), ("(", ")"), ("\"", "\"."), ("", "."), ("(", "")] };
    let n_emot = fpr.p.emoticons.len() as u64;
    let n_names = fpr.p.emoji_names.len() as u64;
    let n_bn = fpr.bn_names.len() as u64;
    let total = n_emot + n_names + n_bn + n_emot;
    let (emoticons, names, bn, wrappers) = (&emoticons, &names, &bn, &wrappers);
    let mut rep = par_items(total, |_| (Worker2::new(fpr.p.data.clone()), HashMap::<String, Session>::new()), |st, i, rep| {
        let (w, sessions) = st;
        let home = std::path::PathBuf::from("/nonexistent");
        if i < n_emot + n_names {
            // phonetic: english on/off x smart quote on/off (ANSI off), plus the ANSI-on twin for the frame clause
            let is_emot = i < n_emot;
            let text = if is_emot { fpr.p.emoticons[i as usize].clone() } else { fpr.p.emoji_names[(i - n_emot) as usize].clone() };
            for bits in [2u32, 3, 10, 11] {
                for (a, b) in wrappers.iter() {
                    if is_emot && !(a.is_empty() && b.is_empty()) { continue; }
                    // punctuation on one side only: two of the four option sets in the quick tier
                    if !thorough && (a.is_empty() != b.is_empty()) && bits != 3 && bits != 10 { continue; }
                    let t = format!("{}{}{}", a, text, b);
                    if !fpr.p.typeable(&t) { rep.notes.push(format!("not typeable: {:?}", t)); continue; }
                    let key = format!("p{}", bits);
                    if !sessions.contains_key(&key) {
                        let mut o = Opts::phonetic(&home);
                        set_pbits(&mut o, bits);
                        match Session::new(w, o, None, None, "c18") { Ok(s) => { sessions.insert(key.clone(), s); } Err(e) => { rep.diff(json!({"what": "context creation failed", "error": e})); return; } }
                    }
                    let s = sessions.get_mut(&key).unwrap();
                    if s.history.len() > 4000 { s.history.clear(); }
                    let mut evs = fpr.p.key_events(&t, 0);
                    evs.push(SEv::Finish);
                    let steps = feed(w, s, &evs, rep, "C18");
                    let last = &steps[steps.len() - 2];
                    let list = cands(&last.imp);
                    let info = |what: &str, s: &Session| json!({"what": what, "typed": t, "method": "phonetic", "option_bits": bits, "candidates": list, "session": s.describe()});
                    if is_emot {
                        let e = emoticons[text.as_str()];
                        if !list.iter().any(|c| c == e) { rep.fail(info("typing an emoticon of the table does not offer its emoji", s)); }
                        if !list.iter().any(|c| *c == t) { rep.fail(info("typing an emoticon does not keep the literal typed text available", s)); }
                        rep.nontrivial_key(&format!("e {} {}", bits, t));
                    } else if emoticons.contains_key(t.as_str()) {
                        // the whole text is itself an emoticon: the emoticon clause applies instead
                    } else {
                        let es: Vec<String> = names[text.as_str()].iter().map(|e| {
                            // wrapped in the same (converted, curled) punctuation as the word: take the affixes from the transliteration candidate
                            e.to_string()
                        }).collect();
                        // affixes: what surrounds the word in every wrapped candidate = candidate of the dictionary-free part; recover from the first emoji candidate
                        let emo_items: Vec<&String> = list.iter().filter(|c| es.iter().any(|e| c.contains(e.as_str()))).collect();
                        let ok_count = emo_items.len() == es.len();
                        let mut ok = ok_count;
                        if ok {
                            // same prefix/suffix for all, in table order
                            let first = emo_items[0];
                            let e0 = es.iter().filter(|e| first.contains(e.as_str())).max_by_key(|e| e.len()).unwrap();
                            let pos = first.find(e0.as_str()).unwrap_or(0);
                            let (pre, post) = (&first[..pos], &first[pos + e0.len()..]);
                            for (it, e) in emo_items.iter().zip(es.iter()) { if **it != format!("{}{}{}", pre, e, post) { ok = false; } }
                            // the affixes are those of the other wrapped candidates (e.g. the transliteration)
                            if !list.iter().filter(|c| !emo_items.contains(c) && **c != t).all(|c| c.starts_with(pre) && c.ends_with(post)) { ok = false; }
                            // and they are the typed punctuation itself: transliterated, curled when smart quotes apply
                            let (pa, pw, pc) = crate::props::msplit(w, &t, false);
                            if pw == text {
                                let (ca, cc) = (w.oracle.conv(&pa), w.oracle.conv(&pc));
                                let (ea, ec) = if bits & 8 != 0 { (crate::props::curl(&ca, true), crate::props::curl(&cc, false)) } else { (ca, cc) };
                                if pre != ea || post != ec { ok = false; }
                            }
                        }
                        let meta_edge = text.chars().next().map(|c| PUNCT.contains(c)).unwrap_or(false) || text.chars().last().map(|c| PUNCT.contains(c)).unwrap_or(false);
                        if !ok && meta_edge { rep.known.push(json!({"class": "name-not-a-word", "name": text, "typed": t})); }
                        else if !ok { rep.fail(info("typing an English emoji name does not offer all its emoji, in table order, wrapped like the word", s)); }
                        if es.len() > 1 { rep.nontrivial_key(&format!("n {} {}", bits, t)); }
                        if rep.samples.len() < 2 && i % 97 == 0 { rep.sample(info("sample", s)); }
                        // frame clause: the non-emoji candidates are the ANSI list
                        let key2 = format!("p{}", bits | 4);
                        if !sessions.contains_key(&key2) {
                            let mut o = Opts::phonetic(&home);
                            set_pbits(&mut o, bits | 4);
                            match Session::new(w, o, None, None, "c18") { Ok(s) => { sessions.insert(key2.clone(), s); } Err(_) => return }
                        }
                        let s2 = sessions.get_mut(&key2).unwrap();
                        if s2.history.len() > 4000 { s2.history.clear(); }
                        let steps2 = feed(w, s2, &evs, rep, "C18");
                        let l2 = cands(&steps2[steps2.len() - 2].imp);
                        let rest: Vec<String> = list.iter().filter(|c| !emo_items.contains(c)).filter(|c| !(bits & 1 != 0 && **c == t && !l2.contains(c))).cloned().collect();
                        if rest != l2 {
                            rep.fail(json!({"what": "emoji candidates removed or reordered the non-emoji candidates (compared with the emoji-free ANSI list)", "typed": t, "option_bits": bits,
                                "with_emoji": list, "non_emoji_part": rest, "ansi_list": l2, "session": sessions[&key].describe()}));
                        }
                    }
                }
            }
        } else if i >= n_emot + n_names + n_bn {
            // fixed method: the emoticon is looked up by the raw keys pressed, whatever the layout makes of them;
            // typed straight away and after an erased start (a few keys, then backspaces until the composition is empty)
            let text = fpr.p.emoticons[(i - n_emot - n_names - n_bn) as usize].clone();
            if !fpr.p.typeable(&text) { rep.notes.push(format!("not typeable: {:?}", text)); return; }
            let evs0 = fpr.p.key_events(&text, 0);
            if evs0.iter().any(|e| match e { SEv::Key(k, _, _) => !fpr.km.value_of.contains_key(&(*k, false)), _ => false }) { rep.notes.push(format!("a key of {:?} has no value in Probhat", text)); return; }
            let mut rng = Rng::new(seed ^ i.wrapping_mul(0xC18));
            for bits in [64u32, 64 | 512 | 128 | 16] {
                let key = format!("x{}", bits);
                if !sessions.contains_key(&key) {
                    let mut o = Opts::fixed(PROBHAT, &home);
                    set_xbits(&mut o, bits);
                    match Session::new(w, o, None, None, "c18") { Ok(s) => { sessions.insert(key.clone(), s); } Err(e) => { rep.diff(json!({"what": "context creation failed", "error": e})); return; } }
                }
                let s = sessions.get_mut(&key).unwrap();
                if s.history.len() > 4000 { s.history.clear(); }
                for erased_start in [false, true] {
                    if erased_start {
                        let merging: [&[&str]; 4] = [&["্", "া"], &["ে", "া"], &["ক", "্", "ি"], &["ি", "ে"]];
                        let pre: Vec<SEv> = if rng.chance(1, 2) { merging[rng.below(4)].iter().filter_map(|v| fpr.keys_for(v)).flatten().collect() }
                            else { (0..1 + rng.below(3)).map(|_| { let x = rng.below(fpr.km.keys.len()); SEv::Key(fpr.km.keys[x].0, fpr.km.keys[x].1, 0) }).collect() };
                        feed(w, s, &pre, rep, "C18");
                        let mut n = 0;
                        while s.ctx.ongoing() && n < 12 { feed(w, s, &[SEv::Back(false)], rep, "C18"); n += 1; }
                        if s.ctx.ongoing() { feed(w, s, &[SEv::Finish], rep, "C18"); continue; }
                    }
                    let mut evs = evs0.clone();
                    evs.push(SEv::Finish);
                    let steps = feed(w, s, &evs, rep, "C18");
                    let list = cands(&steps[steps.len() - 2].imp);
                    let e = emoticons[text.as_str()];
                    if !list.iter().any(|c| c == e) {
                        rep.fail(json!({"what": "typing an emoticon of the table in the fixed method does not offer its emoji", "typed_keys": text, "after_an_erased_start": erased_start,
                            "method": "fixed (Probhat)", "option_bits": bits, "expected_emoji": e, "candidates": list, "session": s.describe()}));
                    }
                    rep.nontrivial_key(&format!("fe {} {} {}", bits, text, erased_start));
                }
            }
        } else {
            let name = fpr.bn_names[(i - n_emot - n_names) as usize].clone();
            let keys = match fpr.keys_for(&name) { Some(k) => k, None => { rep.notes.push(format!("no Probhat key sequence for {:?}", name)); return; } };
            for bits in [64u32, 64 | 4, 64 | 512, 64 | 4 | 512 | 128] {
                for (a, b) in wrappers.iter() {
                    let (ka, kb) = match (fpr.keys_for(a), fpr.keys_for(b)) { (Some(x), Some(y)) => (x, y), _ => continue };
                    let key = format!("x{}", bits);
                    if !sessions.contains_key(&key) {
                        // two of the four option sets live in a context that was created with the phonetic method and
                        // re-configured to the fixed layout afterwards (the tables of a context are loaded when it is built)
                        if bits & 4 != 0 {
                            match Session::new(w, Opts::phonetic(&home), None, None, "c18") {
                                Ok(mut s) => { feed(w, &mut s, &[SEv::UpdateLayout(PROBHAT.into(), bits)], rep, "C18"); sessions.insert(key.clone(), s); }
                                Err(e) => { rep.diff(json!({"what": "context creation failed", "error": e})); return; }
                            }
                        } else {
                        let mut o = Opts::fixed(PROBHAT, &home);
                        set_xbits(&mut o, bits);
                        match Session::new(w, o, None, None, "c18") { Ok(s) => { sessions.insert(key.clone(), s); } Err(e) => { rep.diff(json!({"what": "context creation failed", "error": e})); return; } }
                        }
                    }
                    let s = sessions.get_mut(&key).unwrap();
                    if s.history.len() > 4000 { s.history.clear(); }
                    let mut evs = ka.clone();
                    evs.extend(keys.iter().cloned());
                    evs.extend(kb.iter().cloned());
                    evs.push(SEv::Finish);
                    let steps = feed(w, s, &evs, rep, "C18");
                    let last = &steps[steps.len() - 2];
                    let list = cands(&last.imp);
                    let es: Vec<&str> = bn[name.as_str()].to_vec();
                    let emo_items: Vec<&String> = list.iter().filter(|c| es.iter().any(|e| c.contains(e))).collect();
                    // all emoji that fit under the cap of nine candidates, as a prefix of the table order, wrapped alike
                    let mut ok = !emo_items.is_empty() && (emo_items.len() == es.len() || list.len() >= 9);
                    if ok {
                        let first = emo_items[0];
                        let e0 = es.iter().filter(|e| first.contains(**e)).max_by_key(|e| e.len()).unwrap();
                        let pos = first.find(*e0).unwrap_or(0);
                        let (pre, post) = (&first[..pos], &first[pos + e0.len()..]);
                        for (it, e) in emo_items.iter().zip(es.iter()) { if **it != format!("{}{}{}", pre, e, post) { ok = false; } }
                        if !list[0].starts_with(pre) || !list[0].ends_with(post) { ok = false; }
                    }
                    let meta_edge = name.chars().next().map(|c| PUNCT.contains(c)).unwrap_or(false) || name.chars().last().map(|c| PUNCT.contains(c)).unwrap_or(false);
                    if !ok && meta_edge { rep.known.push(json!({"class": "name-not-a-word", "name": name})); }
                    else if !ok {
                        rep.fail(json!({"what": "typing a Bengali emoji name does not offer its emoji in table order (as far as the nine-candidate cap allows), wrapped like the word",
                            "name": name, "typed_wrapped_in": [a, b], "method": "fixed (Probhat)", "option_bits": bits, "table_emoji": es, "candidates": list, "session": s.describe()}));
                    }
                    if es.len() > 1 { rep.nontrivial_key(&format!("b {} {}{}{}", bits, a, name, b)); }
                }
            }
        }
    });
    rep.extra.insert("rule".into(), json!(format!("ALL {} emoticons (phonetic, 4 option sets), ALL {} English emoji names (phonetic, 4 option sets x {} wrappers, each with its ANSI twin for the frame clause), ALL {} Bengali emoji names that Probhat can type (fixed, 4 option sets x {} wrappers; two of the option sets in a context created phonetic and re-configured to Probhat); ALL emoticons again in the fixed method by their raw keys (2 option sets, typed straight away and after an erased start: merging key pairs or random keys, then backspaces until empty); wrappers include punctuation on one side only; non-trivial = emoticon, or a name with more than one emoji", n_emot, n_names, wrappers.len(), n_bn, wrappers.len())));
    rep.extra.insert("exhaustive".into(), json!(true));
    rep
}
