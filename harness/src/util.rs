#![allow(dead_code)]
use serde_json::Value;
use std::path::PathBuf;

/// SplitMix64: every random choice of a run derives from one state seeded by VERIF_SEED.
#[derive(Clone)]
pub struct Rng(pub u64);
impl Rng {
    pub fn new(seed: u64) -> Rng {
        Rng(seed ^ 0x9E3779B97F4A7C15)
    }
    pub fn next(&mut self) -> u64 {
        self.0 = self.0.wrapping_add(0x9E3779B97F4A7C15);
        let mut z = self.0;
        z = (z ^ (z >> 30)).wrapping_mul(0xBF58476D1CE4E5B9);
        z = (z ^ (z >> 27)).wrapping_mul(0x94D049BB133111EB);
        z ^ (z >> 31)
    }
    pub fn below(&mut self, n: usize) -> usize {
        (self.next() % (n.max(1) as u64)) as usize
    }
    pub fn chance(&mut self, num: u64, den: u64) -> bool {
        self.next() % den < num
    }
    pub fn pick<'a, T>(&mut self, v: &'a [T]) -> &'a T {
        &v[self.below(v.len())]
    }
    pub fn fork(&mut self) -> Rng {
        Rng(self.next())
    }
}

pub fn cps(s: &str) -> Vec<u32> {
    s.chars().map(|c| c as u32).collect()
}
pub fn from_cps(v: &[u32]) -> String {
    v.iter().filter_map(|&c| char::from_u32(c)).collect()
}
pub fn cps_json(s: &str) -> Value {
    Value::Array(cps(s).into_iter().map(|c| Value::from(c)).collect())
}

/// A scratch directory removed on drop.
pub struct Scratch(pub PathBuf);
impl Scratch {
    pub fn new(tag: &str) -> Scratch {
        let base = std::env::var("RV_SCRATCH").map(PathBuf::from).unwrap_or_else(|_| std::env::temp_dir());
        let p = base.join(format!("rv-{}-{}-{:x}", tag, std::process::id(), {
            use std::time::{SystemTime, UNIX_EPOCH};
            SystemTime::now().duration_since(UNIX_EPOCH).unwrap().subsec_nanos()
        }));
        std::fs::create_dir_all(&p).unwrap();
        Scratch(p)
    }
    pub fn path(&self) -> &std::path::Path {
        &self.0
    }
}
impl Drop for Scratch {
    fn drop(&mut self) {
        let _ = std::fs::remove_dir_all(&self.0);
    }
}

/// Collects what a stream did, in the shape the evidence file wants.
#[derive(Default)]
pub struct Report {
    pub evaluations: u64,
    pub nontrivial: std::collections::HashSet<u64>,
    pub samples: Vec<Value>,
    pub failures: Vec<Value>,
    pub known: Vec<Value>,
    pub diffs: Vec<Value>,
    pub n_diffs: u64,
    pub n_failures: u64,
    pub notes: Vec<String>,
    pub extra: serde_json::Map<String, Value>,
}
impl Report {
    pub fn sample(&mut self, v: Value) {
        if self.samples.len() < 6 {
            self.samples.push(v);
        }
    }
    /// model and implementation differ (or the model could not be evaluated)
    pub fn diff(&mut self, v: Value) {
        self.n_diffs += 1;
        if self.diffs.len() < 10 {
            self.diffs.push(v);
        }
    }
    pub fn merge(&mut self, o: Report) {
        self.evaluations += o.evaluations;
        self.nontrivial.extend(o.nontrivial);
        for s in o.samples { if self.samples.len() < 8 { self.samples.push(s); } }
        for s in o.failures { if self.failures.len() < 50 { self.failures.push(s); } }
        for s in o.diffs { if self.diffs.len() < 20 { self.diffs.push(s); } }
        self.known.extend(o.known);
        self.notes.extend(o.notes);
        self.n_diffs += o.n_diffs;
        self.n_failures += o.n_failures;
        for (k, v) in o.extra { self.extra.insert(k, v); }
    }
    pub fn fail(&mut self, v: Value) {
        self.n_failures += 1;
        if self.failures.len() < 50 {
            self.failures.push(v);
        }
    }
    pub fn nontrivial_key(&mut self, s: &str) {
        use std::hash::{Hash, Hasher};
        let mut h = std::collections::hash_map::DefaultHasher::new();
        s.hash(&mut h);
        self.nontrivial.insert(h.finish());
    }
    pub fn to_json(&self) -> Value {
        let mut m = self.extra.clone();
        m.insert("evaluations".into(), self.evaluations.into());
        m.insert("distinct_nontrivial".into(), (self.nontrivial.len() as u64).into());
        m.insert("samples".into(), Value::Array(self.samples.clone()));
        m.insert("failures".into(), Value::Array(self.failures.clone()));
        m.insert("known".into(), Value::Array(self.known.clone()));
        m.insert("diffs".into(), Value::Array(self.diffs.clone()));
        m.insert("n_diffs".into(), self.n_diffs.into());
        m.insert("n_failures".into(), self.n_failures.into());
        m.insert("notes".into(), Value::Array(self.notes.iter().map(|s| Value::from(s.as_str())).collect()));
        Value::Object(m)
    }
}
