//! More property streams: C07, C15, C16, C17.
#![allow(dead_code)]
use crate::ffi::*;
use crate::fx::par_items;
use crate::model::*;
use crate::ph::*;
use crate::props::*;
use crate::sess::*;
use crate::util::*;
use serde_json::{json, Value};
use std::collections::{HashMap, HashSet};

fn is_emoji_str(s: &str) -> bool {
    s.chars().any(|c| (c as u32) >= 0x1F000 || matches!(c as u32, 0x2190..=0x2BFF | 0x3030 | 0x303D | 0x3297 | 0x3299 | 0x00A9 | 0x00AE | 0x203C | 0x2049 | 0x2122 | 0x2139 | 0x20E3 | 0xFE0F))
}

/// hits over all dictionary tables
fn hits_all2(w: &mut Worker2, word: &str) -> Vec<String> {
    let mut tables: Vec<String> = w.oracle.data.dict.keys().cloned().collect();
    tables.sort();
    let mut v = Vec::new();
    for t in tables { v.extend(w.oracle.hits(&t, word)); }
    v
}

/// Independent judgment of a phonetic candidate list (C07): returns the first complaint.
pub fn judge_c07(w: &mut Worker2, text: &str, bits: u32, uac: &Map, list: &[String]) -> Option<(String, Value)> {
    let (a, word, c) = msplit(w, text, false);
    let smart = bits & 8 != 0 && !word.is_empty();
    let ansi = bits & 4 != 0;
    let english = bits & 1 != 0 && !ansi;
    let (ca, cc) = (w.oracle.conv(&a), w.oracle.conv(&c));
    let (pre, tr) = if smart { (curl(&ca, true), curl(&cc, false)) } else { (ca, cc) };
    let wrapf = |x: &str| format!("{}{}{}", pre, x, tr);
    let translit = wrapf(&w.oracle.conv(&word));
    // no candidate text twice
    let mut seen = HashSet::new();
    for x in list { if !seen.insert(x.clone()) { return Some(("a candidate text occurs twice".into(), json!({"candidate": x}))); } }
    if !list.contains(&translit) { return Some(("the transliteration is not a candidate".into(), json!({"transliteration": translit}))); }
    let ac = uac.iter().find(|(k, _)| *k == word).map(|(_, v)| v.clone()).or_else(|| w.oracle.ac(&word).cloned()).map(|x| wrapf(&w.oracle.conv(&x)));
    let emoticon = if ansi { None } else { w.oracle.emoticon(text) };
    let emojis: Vec<String> = if ansi || emoticon.is_some() { vec![] } else { w.oracle.emoji_name(&word).unwrap_or_default().iter().map(|e| wrapf(e)).collect() };
    let base_conv = w.oracle.conv(&word);
    let hits: Vec<String> = hits_all2(w, &word);
    let chars: Vec<char> = word.chars().collect();
    // possible rank keys (class, number) of each candidate
    let mut prev: (u32, u64) = (0, 0);
    let n = list.len();
    for (ix, x) in list.iter().enumerate() {
        let mut keys: Vec<(u32, u64)> = Vec::new();
        if ac.as_deref() == Some(x.as_str()) { keys.push((0, 0)); }
        if let Some(e) = &emoticon { if x == e { keys.push((1, 1)); } if x == text { keys.push((2, 1)); } }
        if let Some(p) = emojis.iter().position(|e| e == x) { keys.push((1, p as u64 + 1)); }
        if *x == translit { keys.push((2, 2)); }
        if english && x == text { keys.push((2, 3)); }
        if let Some(bare) = x.strip_prefix(pre.as_str()).and_then(|y| y.strip_suffix(tr.as_str())) {
            if hits.iter().any(|h| h == bare) { keys.push((1, 10 * w.oracle.edist(&base_conv, bare) as u64)); }
            if keys.is_empty() || true {
                for k in 1..chars.len() {
                    let (kk, ss): (String, String) = (chars[..k].iter().collect(), chars[k..].iter().collect());
                    if chars.len() <= 2 { break; }
                    if let Some(sb) = w.oracle.suffix(&ss).cloned() {
                        let kconv = w.oracle.conv(&kk);
                        let kac = uac.iter().find(|(q, _)| *q == kk).map(|(_, v)| v.clone()).or_else(|| w.oracle.ac(&kk).cloned()).map(|v| w.oracle.conv(&v));
                        if let Some(b) = &kac { if join_rule(b, &sb) == bare { keys.push((0, 0)); } }
                        for b in hits_all2(w, &kk) { if join_rule(&b, &sb) == bare { keys.push((1, 10 * w.oracle.edist(&kconv, &b) as u64)); } }
                    }
                }
            }
        }
        keys.sort();
        match keys.iter().find(|k| **k >= prev) {
            Some(k) => prev = *k,
            None => {
                return Some((if keys.is_empty() { "a candidate belongs to no class (auto-correct, dictionary word, suffix form, emoji, transliteration, typed text)".into() }
                             else { "the candidates are not in the documented order (auto-correct first, dictionary words by edit distance with emoji interleaved by number, transliteration, raw English last)".into() },
                             json!({"candidate": x, "position": ix, "possible_rank_keys": keys, "previous_rank_key": prev})));
            }
        }
        let _ = n;
    }
    if let Some(a) = &ac { if list[0] != *a { return Some(("the auto-correct entry is not first".into(), json!({"auto_correct": a}))); } }
    if english && emoticon.is_none() && text != pre && !list.contains(&text.to_string()) { return Some(("the raw English text is not offered although the option is on".into(), json!(null))); }
    None
}

pub fn c07(tier: &str, seed: u64, meta: &str) -> Report {
    let p = Pools::load(meta);
    let thorough = tier == "thorough";
    let pr = &p;
    let tchars: Vec<char> = TYPEABLE.chars().collect();
    let n2 = (tchars.len() * tchars.len()) as u64;
    let n1 = tchars.len() as u64;
    let n3: u64 = if thorough { 60_000 } else { 0 };
    let guided: u64 = if thorough { 30_000 } else { 5_000 };
    let total = n1 + n2 + n3 + guided;
    let uac: Map = vec![("jhal".into(), "bhalO".into()), ("kotha".into(), "k0tha".into()), ("tst".into(), "TesT".into())];
    let (tchars, uac) = (&tchars, &uac);
    let stems = ["kotha", "net", "ami", "desh", "sesh", "bidyut", "rong", "cool", "smile", "chup", "jhal", "form", "as", "a", "hothat", "kkhet"];
    let mut rep = par_items(total, |_| (Worker2::new(pr.data.clone()), HashMap::<u32, Session>::new()), |st, i, rep| {
        let (w, sessions) = st;
        let mut rng = Rng::new(seed ^ i.wrapping_mul(0xC07));
        let texts: Vec<String> = if i < n1 { vec![tchars[i as usize].to_string()] }
            else if i < n1 + n2 { let j = i - n1; vec![format!("{}{}", tchars[(j / n1) as usize], tchars[(j % n1) as usize])] }
            else if i < n1 + n2 + n3 { vec![(0..3).map(|_| *rng.pick(tchars)).collect()] }
            else {
                match rng.below(7) {
                    0 => { let s = *rng.pick(&stems[..]); let mut v: Vec<char> = s.chars().collect(); let k = rng.below(v.len()); v[k] = v[k].to_ascii_uppercase(); vec![s.to_string(), v.into_iter().collect()] }
                    1 => vec![format!("{}{}", rng.pick(&stems[..]), rng.pick(&pr.suffix_keys))],
                    2 => vec![rng.pick(&pr.emoticons).clone()],
                    3 => vec![rng.pick(&pr.ac_keys).clone()],
                    4 => vec![format!("\"{}\"", rng.pick(&pr.emoji_names))],
                    5 => vec![format!("{}{}", rng.pick(&pr.ac_keys), rng.pick(&pr.suffix_keys))],
                    _ => word_pool(pr, &mut rng, 1),
                }
            };
        let bits = [2u32, 3, 10, 11, 6, 7][(i % 6) as usize];
        if !sessions.contains_key(&bits) {
            match psession(w, bits, true, Some(uac), None, "c07") { Ok(s) => { sessions.insert(bits, s); } Err(e) => { rep.diff(json!({"what": "context creation failed", "error": e})); return; } }
        }
        let s = sessions.get_mut(&bits).unwrap();
        if s.history.len() > 3000 { s.history.clear(); }
        for t in texts {
            if !pr.typeable(&t) || t.is_empty() { continue; }
            let mut evs = pr.key_events(&t, 0);
            evs.push(SEv::Finish);
            let steps = feed(w, s, &evs, rep, "C07");
            if let Some((_, list, _)) = full_of(&steps[steps.len() - 2]) {
                if let Some((what, extra)) = judge_c07(w, &t, bits, uac, &list) {
                    rep.fail(json!({"what": what, "typed": t, "option_bits": bits, "candidates": list, "details": extra, "session": s.describe()}));
                }
                if list.len() > 2 { rep.nontrivial_key(&format!("{} {}", bits, t)); }
                if rep.samples.len() < 2 && i % 1999 == 7 { rep.sample(json!({"typed": t, "option_bits": bits, "candidates": list})); }
            }
        }
    });
    rep.extra.insert("rule".into(), json!(format!("ALL texts of length 1 and 2 over the 94 typeable characters (exhaustive: {} texts), {} random texts of length 3, {} guided cases (case variants typed after their lower-case form, stems x suffixes, emoticons, auto-correct keys with and without suffix, quoted emoji names); six option sets (English, smart quotes, ANSI); a user auto-correct list is present; each list is judged by an independent classification of every candidate (okkhor pattern over ALL dictionary tables, edit distance, suffix.json, autocorrect.json, emojicon called directly); non-trivial = more than two candidates", n1 + n2, n3, guided)));
    rep.extra.insert("exhaustive".into(), json!(true));
    rep
}

// ------------------------------------------------------------------------------------------------ C15

pub fn c15(tier: &str, seed: u64, meta: &str) -> Report {
    let fp = FixedPools::load(meta, PROBHAT);
    let thorough = tier == "thorough";
    let total: u64 = if thorough { 120_000 } else { 9_000 };
    let fpr = &fp;
    let all_words: HashSet<&str> = fp.words.iter().map(|s| s.as_str()).collect();
    let all_words = &all_words;
    let reph_ya: Vec<&String> = fp.words.iter().filter(|w| w.contains("র্য")).collect();
    let reph_ya = &reph_ya;
    // words with an independent vowel right behind a consonant within the first six letters
    let is_iv = |c: char| "আইঈউঊঋএঐওঔ".contains(c);
    let merge_words: Vec<(&String, usize)> = fp.words.iter().filter_map(|w| { let cs: Vec<char> = w.chars().collect(); (1..cs.len().min(6)).find(|&n| is_iv(cs[n]) && ('ক'..='হ').contains(&cs[n - 1])).map(|n| (w, n)) }).collect();
    let merge_words = &merge_words;
    // data proviso of "none repeats" (Vec::dedup removes neighbours only): a word must come before its own extensions in
    // its table, and a word listed twice must not have another match of the same pattern in between.  Every word that
    // sits AFTER one of its extensions (up to five letters longer), and every word listed twice, is typed as it is.
    let mut suspects: Vec<String> = Vec::new();
    for table in fp.p.data.dict.values() {
        let mut first: HashMap<&str, usize> = HashMap::new();
        let mut count: HashMap<&str, usize> = HashMap::new();
        for (n, wd) in table.iter().enumerate() { first.entry(wd.as_str()).or_insert(n); *count.entry(wd.as_str()).or_insert(0) += 1; }
        for (j, wd) in table.iter().enumerate() {
            let idx: Vec<usize> = wd.char_indices().map(|(b, _)| b).collect();
            let nch = idx.len();
            for cut in nch.saturating_sub(5).max(1)..nch {
                let pfx = &wd[..idx[cut]];
                if let Some(&k) = first.get(pfx) { if k > j { suspects.push(pfx.to_string()); } }
            }
            if count[wd.as_str()] > 1 { for cut in nch.saturating_sub(5).max(1)..=nch { suspects.push(if cut == nch { wd.clone() } else { wd[..idx[cut]].to_string() }); } }
        }
    }
    suspects.sort(); suspects.dedup();
    let n_suspects = suspects.len() as u64;
    let suspects = &suspects;
    let mut rep = par_items(total + 2 * n_suspects, |_| (Worker2::new(fpr.p.data.clone()), HashMap::<u32, Session>::new()), |st, i, rep| {
        let (w, sessions) = st;
        let mut rng = Rng::new(seed ^ i.wrapping_mul(0xC15));
        let forced: Option<&String> = if i >= total { Some(&suspects[((i - total) / 2) as usize]) } else { None };
        // numbers are words too: digits followed by quotes / punctuation (no dictionary candidates, but the first
        // candidate still is the composed text with its quotes curled)
        // characters the layout passes through unchanged (the composed text then equals the raw key text) behave like numbers here
        let digit_words = ["৫".to_string(), "১২".to_string(), "২০২৪".to_string(), "^".to_string(), "^^".to_string()];
        let forced: Option<&String> = if forced.is_none() && i % 25 == 19 { Some(&digit_words[(i / 25 % 5) as usize]) } else { forced };
        let is_number = forced.map(|f| f.chars().all(|c| ('০'..='৯').contains(&c) || c == '^')).unwrap_or(false);
        // traditional joining, smart quotes, English, ANSI
        let bits = 64 | (((i % 2) as u32) << 2) | ((((i / 2) % 2) as u32) << 9) | ((((i / 4) % 2) as u32) << 7) | ((((i / 8) % 4 == 0) as u32) << 8);
        if !sessions.contains_key(&bits) {
            match xsession(w, PROBHAT, bits, true, "c15") { Ok(s) => { sessions.insert(bits, s); } Err(e) => { rep.diff(json!({"what": "context creation failed", "error": e})); return; } }
        }
        let s = sessions.get_mut(&bits).unwrap();
        if s.history.len() > 3000 { s.history.clear(); }
        let with_zwj = forced.is_none() && i % 25 == 7 && !reph_ya.is_empty();
        let with_merge = forced.is_none() && i % 25 == 13 && !merge_words.is_empty();
        let (mw, mn) = if with_merge { let x = rng.pick(merge_words); (x.0.clone(), x.1) } else { (String::new(), 0) };
        let base = if let Some(f) = forced { f.clone() } else if with_zwj { (*rng.pick(reph_ya)).clone() } else if with_merge { mw } else { fpr.words[(rng.next() % fpr.words.len() as u64) as usize].clone() };
        let n = base.chars().count();
        let take = if forced.is_some() { n } else if with_merge { (mn + 1 + rng.below(2)).min(n) } else if with_zwj { (base.chars().collect::<Vec<_>>().windows(3).position(|x| x == ['র', '্', 'য']).unwrap_or(0) + 3 + rng.below(2)).min(n) } else { 1 + rng.below(n.min(6)) };
        let mut prefix: String = base.chars().take(take).collect();
        if with_zwj { prefix = prefix.replacen("র্য", "র\u{200D}্য", 1); }
        // explicit joiners in the typed word: a zero-width joiner is significant (Ra + ZWJ + Zo-fola is not Reph + Ya),
        // a zero-width non-joiner is what traditional joining adds and is ignored
        if forced.is_none() && rng.chance(1, 8) {
            if prefix.contains("র্য") && rng.chance(2, 3) { prefix = prefix.replacen("র্য", "র\u{200D}্য", 1); }
            else { let cs: Vec<char> = prefix.chars().collect(); let at = 1 + rng.below(cs.len()); prefix = cs[..at].iter().chain([if rng.chance(2, 3) { '\u{200D}' } else { '\u{200C}' }].iter()).chain(cs[at..].iter()).collect(); }
        }
        let lead = if is_number && i % 2 == 0 { *rng.pick(&["\"", "'", ""][..]) } else if forced.is_some() { "" } else { *rng.pick(&["", "", "", "(", "\"", "'"][..]) };
        let trail = if is_number { *rng.pick(&["\"", "'", "'\"", "\".", ""][..]) } else if forced.is_some() { "" } else { *rng.pick(&["", "", "", "!!", ")", "\".", "'", "?!", ",", ";;"][..]) };
        // an independent vowel behind a consonant may also be typed as hasanta + vowel sign (the two merge into the
        // vowel: the composition changes although its length does not)
        let spelled: String = if forced.is_none() && (with_merge || rng.chance(1, 5)) {
            let cs: Vec<char> = prefix.chars().collect();
            let mut o = String::new();
            for (n, c) in cs.iter().enumerate() {
                let kar = match c { 'আ' => Some('া'), 'ই' => Some('ি'), 'ঈ' => Some('ী'), 'উ' => Some('ু'), 'ঊ' => Some('ূ'), 'ঋ' => Some('ৃ'), 'এ' => Some('ে'), 'ঐ' => Some('ৈ'), 'ও' => Some('ো'), 'ঔ' => Some('ৌ'), _ => None };
                match kar { Some(k) if n > 0 && ('ক'..='হ').contains(&cs[n - 1]) => { o.push('্'); o.push(k); } _ => o.push(*c) }
            }
            o
        } else { prefix.clone() };
        let typed_text = format!("{}{}{}", lead, spelled, trail);
        let mut evs = match fpr.keys_for(&typed_text) { Some(k) => k, None => return };
        // now and then a key the layout has no value for is pressed inside the word (keypad "=", a keypad digit with the
        // number-pad option off): it changes nothing and is not part of the raw key text
        if forced.is_none() && rng.chance(1, 6) && !evs.is_empty() { let at = rng.below(evs.len() + 1); evs.insert(at, SEv::Key([0x0E0Du16, 76, 0x0E1C][rng.below(3)], 0, 0)); }
        let used_backspace = forced.is_none() && rng.chance(1, 8);
        if used_backspace { evs.push(SEv::Back(false)); }
        evs.push(SEv::Finish);
        let steps = feed(w, s, &evs, rep, "C15");
        let last = &steps[steps.len() - 2];
        let (aux, list, _) = match full_of(last) { Some(x) => x, None => return };
        rep.evaluations += 1;
        let ansi = bits & 256 != 0;
        let english = bits & 128 != 0 && !ansi;
        let (a, word, c) = msplit(w, &aux, true);
        let smart = bits & 512 != 0 && !word.is_empty();
        let (pre, tr) = if smart { (curl(&a, true), curl(&c, false)) } else { (a.clone(), c.clone()) };
        let fail = |rep: &mut Report, what: &str, extra: Value| rep.fail(json!({"what": what, "composed_text": aux, "option_bits": bits, "candidates": list, "details": extra, "session": s.describe()}));
        if list.is_empty() || list[0] != format!("{}{}{}", pre, word, tr) { fail(rep, "the first candidate is not the composed text itself (with smart-quote curling)", json!({"expected_first": format!("{}{}{}", pre, word, tr)})); return; }
        if list.len() > 9 { fail(rep, "more than nine candidates", json!(null)); }
        let mut seen = HashSet::new();
        for x in &list { if !seen.insert(x) { fail(rep, "a candidate repeats", json!({"candidate": x})); } }
        // raw key text: the ASCII characters of the keys pressed
        let typed_raw: String = s.history.iter().rev().skip(1).take(evs.len() - 1).collect::<Vec<_>>().into_iter().rev().filter_map(|e| match e { SEv::Key(k, m, _) if fpr.km.value_of.contains_key(&(*k, m & 2 != 0)) => key_char(*k), _ => None }).collect();
        let clean = |x: &str| -> String { x.chars().filter(|c| !"|()[]{}^$*+?.~!@#%&-_='\";<>/\\,:`।\u{200C}".contains(*c)).collect() };
        let cw = clean(&word);
        let mut prevd = 0usize;
        let typed_raw = if used_backspace { let mut t = typed_raw; t.pop(); t } else { typed_raw };
        let nonenglish_end = if english && typed_raw != aux && list.len() > 1 && list.last().map(|x| *x == typed_raw).unwrap_or(false) { list.len() - 1 } else { list.len() };
        if english && !used_backspace && typed_raw != aux && nonenglish_end == list.len() {
            fail(rep, "the English option is on and no backspace was used, but the last candidate is not the raw key text", json!({"raw_key_text": typed_raw}));
        }
        for x in &list[1..nonenglish_end] {
            if !ansi && is_emoji_str(x) { continue; }
            let bare = match x.strip_prefix(pre.as_str()).and_then(|y| y.strip_suffix(tr.as_str())) { Some(b) => b.to_string(), None => { fail(rep, "a candidate does not carry the surrounding punctuation", json!({"candidate": x})); continue; } };
            let plain: String = bare.chars().filter(|c| *c != '\u{200C}').collect();
            if !all_words.contains(plain.as_str()) { fail(rep, "a candidate is not a dictionary word", json!({"candidate": x})); continue; }
            if !plain.starts_with(cw.as_str()) { fail(rep, "a candidate does not begin with the typed word (punctuation and added non-joiners ignored)", json!({"candidate": x, "typed_word_cleaned": cw})); }
            let d = w.oracle.edist(&word, &bare);
            if d < prevd { fail(rep, "non-emoji candidates are not in non-decreasing edit distance from the typed word", json!({"candidate": x, "distance": d, "previous_distance": prevd})); }
            prevd = d;
        }
        if list.len() > 2 { rep.nontrivial_key(&format!("{} {}", bits, aux)); }
        if rep.samples.len() < 2 && i % 997 == 3 { rep.sample(json!({"typed": typed_text, "composed_text": aux, "option_bits": bits, "candidates": list})); }
    });
    rep.extra.insert("rule".into(), json!(format!("prefixes (1-6 letters) of random dictionary words typed through Probhat, a fifth with independent vowels behind consonants typed as hasanta + vowel sign, an eighth of them with an explicit zero-width joiner / non-joiner typed inside (Ra + ZWJ + Zo-fola where the word has Reph + Ya), bare or wrapped in quotes / brackets / repeated marks, sometimes followed by a backspace, under the 16 settings of traditional joining, smart quotes, English, ANSI; every word of the dictionary that stands behind one of its own extensions in its table or is listed twice (the data proviso of 'none repeats'; {} such words) is typed as it is; every list judged against dictionary.json read independently (membership, prefix, edit distance order, at most nine, no repeats, English last); also compared with the extracted model; non-trivial = more than two candidates", n_suspects)));
    rep
}

// ------------------------------------------------------------------------------------------------ C16 and C17 (paired contexts)

fn has_bengali(s: &str) -> bool { s.chars().any(|c| (0x0980..=0x09FF).contains(&(c as u32))) }

pub fn c16(tier: &str, seed: u64, meta: &str) -> Report {
    let fp = FixedPools::load(meta, PROBHAT);
    let thorough = tier == "thorough";
    let sessions: u64 = if thorough { 256 } else { 64 };
    let per = if thorough { 150 } else { 60 };
    let fpr = &fp;
    let mut rep = par_items(sessions + if thorough { 16 } else { 0 }, |_| Worker2::new(fpr.p.data.clone()), |w, i, rep| {
        let mut rng = Rng::new(seed ^ i.wrapping_mul(0xC16));
        if i >= sessions {
            // data-exhaustive: the encoder over a slice of the dictionary
            let k = (i - sessions) as usize;
            for (n, word) in fpr.words.iter().enumerate() {
                if n % 16 != k { continue; }
                rep.evaluations += 1;
                match w.oracle.bijoy(word) {
                    Some(b) => if has_bengali(&b) { rep.fail(json!({"what": "the Bijoy encoding of a dictionary word contains a Bengali-block code point", "word": word, "encoding": b})); },
                    None => rep.known.push(json!({"class": "bijoy-unknown-kar", "word": word})),
                }
            }
            return;
        }
        let phonetic = i % 2 == 0;
        // ANSI on with English on (set in either order) and its twin with English off; plus an ANSI-off session for the read-out clause
        let mk = |w: &mut Worker2, ansi: bool, english: bool, ansi_first: bool, smart: bool| -> Option<Session> {
            let home = std::path::PathBuf::from("/nonexistent");
            let mut o = if phonetic { Opts::phonetic(&home) } else { Opts::fixed(PROBHAT, &home) };
            o.ansi = ansi; o.english = english; o.ansi_first = ansi_first; o.smart_quote = smart;
            // a quarter of the fixed-layout contexts run with the candidate list off (single-string suggestions)
            if !phonetic { o.fixed_suggestion = (i / 2) % 4 != 3; o.kar = rng_bit(i, 3); }
            Session::new(w, o, None, None, "c16").ok()
        };
        let self_mapped: Vec<String> = fpr.p.ac_keys.iter().filter(|k| w.oracle.ac(k).map(|v| v == *k).unwrap_or(false)).cloned().collect();
        let smart = i % 4 < 2;
        let (mut s_on_e, mut s_on, mut s_off) = match (mk(w, true, true, i % 8 >= 4, smart), mk(w, true, false, false, smart), mk(w, false, true, false, smart)) { (Some(a), Some(b), Some(c)) => (a, b, c), _ => return };
        // every emoticon and every auto-correct key that is not plain letters is typed by one of the phonetic sessions
        let n_ph = (sessions / 2).max(1) as usize;
        let specials: Vec<String> = if phonetic {
            fpr.p.emoticons.iter().chain(fpr.p.ac_keys.iter().filter(|k| k.chars().any(|c| !c.is_ascii_alphabetic()))).filter(|t| fpr.p.typeable(t)).enumerate()
                .filter(|(n, _)| n % n_ph == (i / 2) as usize % n_ph).map(|(_, t)| t.clone()).collect()
        } else { vec![] };
        for wn in 0..per.max(specials.len()) {
            let evs: Vec<SEv> = if phonetic {
                let t = if wn < specials.len() { specials[wn].clone() } else { match rng.below(7) { 0 => format!("\"{}\"", rng.pick(&["\\", "`", "k", "ami", "a`"][..])), 1 => rng.pick(&fpr.p.emoticons).clone(), 2 => rng.pick(&fpr.p.emoji_names).clone(),
                    // bundled auto-correct rows that map a text to itself (emoticon-like texts such as o_o, :D, X3)
                    3 if !self_mapped.is_empty() => rng.pick(&self_mapped).clone(),
                    _ => word_pool(&fpr.p, &mut rng, 1).pop().unwrap_or_else(|| "ami".into()) } };
                if !fpr.p.typeable(&t) { continue; }
                fpr.p.key_events(&t, 0)
            } else {
                let base = if rng.chance(1, 5) { rng.pick(&fpr.bn_names).clone() } else { rng.pick(&fpr.words).clone() };
                let prefix: String = base.chars().take(1 + rng.below(base.chars().count().min(5))).collect();
                let t = format!("{}{}{}", rng.pick(&["", "\"", "("][..]), prefix, rng.pick(&["", "\"", ")", "!"][..]));
                let mut k = match fpr.keys_for(&t) { Some(k) => k, None => continue };
                // now and then a letter from the AltGr plane of the layout (rare letters no dictionary word holds)
                // ... or a joiner as the last character of the text (it is part of the text, also of the pre-edit text)
                if rng.chance(1, 6) { if let Some(j) = fpr.keys_for(if rng.chance(1, 2) { "\u{200D}" } else { "\u{200C}" }) { k.extend(j); } }
                // ... or a key the layout has no entry for (keypad Enter / keypad "="), pressed inside the word: the composition
                // stays as it is and is read out again
                if rng.chance(1, 4) && !k.is_empty() { let at = 1 + rng.below(k.len()); k.insert(at, SEv::Key([0x0E1Cu16, 0x0E0D][rng.below(2)], 0, 0)); }
                if rng.chance(1, 5) { let alt: Vec<&(u16, u8, String)> = fpr.km.keys.iter().filter(|x| x.1 != 0).collect(); if !alt.is_empty() { let x = rng.pick(&alt); let at = rng.below(k.len() + 1); k.insert(at, SEv::Key(x.0, x.1, 0)); } }
                k
            };
            let mut raw = String::new();
            let mut shown = 1usize;
            for e in evs.iter().chain(std::iter::once(&SEv::Finish)) {
                if let SEv::Key(k, _, _) = e { if let Some(c) = key_char(*k) { raw.push_str(&c.to_string()); } }
                let raw = raw.clone();
                // every key carries an index that is valid for the list shown before (the same byte in the three contexts)
                let passed = rng.below(shown.max(1)).min(255) as u8;
                let e = &match e { SEv::Key(k, m, _) => SEv::Key(*k, *m, passed), x => x.clone() };
                let a = feed(w, &mut s_on_e, &[e.clone()], rep, "C16").pop().unwrap();
                let b = feed(w, &mut s_on, &[e.clone()], rep, "C16").pop().unwrap();
                let c = feed(w, &mut s_off, &[e.clone()], rep, "C16").pop().unwrap();
                rep.evaluations += 1;
                shown = [&a, &b, &c].iter().map(|st| match &st.out { Out::Full { list, .. } => list.len().max(1), _ => 1 }).min().unwrap_or(1);
                let describe = |s: &Session, what: &str, extra: Value| json!({"what": what, "method": if phonetic { "phonetic" } else { "fixed (Probhat)" }, "details": extra, "session": s.describe()});
                // regardless of the English option
                if a.imp != b.imp { rep.fail(describe(&s_on_e, "with ANSI on the English option changes the suggestion", json!({"english_on": explain(&a.imp), "english_off": explain(&b.imp)}))); }
                let check_pre = |rep: &mut Report, w: &mut Worker2, st: &Step, s: &Session, ansi: bool| {
                    let items: Vec<(String, Result<String, String>)> = match &st.out {
                        Out::Full { list, pre, .. } => list.iter().cloned().zip(pre.iter().cloned()).collect(),
                        Out::Single { text, pre, .. } => vec![(text.clone(), pre.clone())],
                        _ => vec![],
                    };
                    for (cand, pre) in items {
                        if ansi {
                            // (in the fixed method the first candidate is the composed text itself, which a layout may make equal to the raw keys)
                            let composed = match &st.out { Out::Full { aux, .. } => aux.clone(), _ => String::new() };
                            if cand == raw && raw.chars().any(|c| c.is_ascii_alphabetic()) && !(!phonetic && cand == composed) { rep.fail(describe(s, "the raw typed (English / emoticon) text is offered as a candidate although ANSI output is on", json!({"candidate": cand}))); }
                            if is_emoji_str(&cand) { rep.fail(describe(s, "an emoji candidate is offered although ANSI output is on", json!({"candidate": cand}))); }
                            match (w.oracle.bijoy(&cand), pre) {
                                (Some(exp), Ok(got)) => {
                                    if exp != got { rep.fail(describe(s, "the pre-edit text of a candidate is not its Bijoy-2000 encoding", json!({"candidate": cand, "expected": exp, "pre_edit": got}))); }
                                    if has_bengali(&got) { rep.fail(describe(s, "ANSI pre-edit text contains a Bengali-block code point", json!({"candidate": cand, "pre_edit": got}))); }
                                }
                                (None, Err(_)) => rep.known.push(json!({"class": "bijoy-unknown-kar", "candidate": cand})),
                                (e, g) => rep.fail(describe(s, "reading the pre-edit text disagrees with the encoder called directly", json!({"candidate": cand, "encoder": e, "pre_edit": format!("{:?}", g)}))),
                            }
                        } else if pre.as_deref() != Ok(cand.as_str()) {
                            rep.fail(describe(s, "with ANSI off the pre-edit text differs from the candidate", json!({"candidate": cand, "pre_edit": format!("{:?}", pre)})));
                        }
                    }
                };
                check_pre(rep, w, &a, &s_on_e, true);
                check_pre(rep, w, &c, &s_off, false);
                if let (Some((_, la, _)), Some((_, lc, _))) = (full_of(&a), full_of(&c)) {
                    if lc.len() > la.len() { rep.nontrivial_key(&format!("{} {:?}", phonetic, lc)); }
                }
            }
        }
    });
    rep.extra.insert("rule".into(), json!("three contexts fed the same events in both methods: ANSI+English on (the two setters called in either order), ANSI on with English off, ANSI off; phonetic: ALL emoticons and ALL auto-correct keys that are not plain letters (spread over the sessions), word pool, emoji names, self-mapping auto-correct rows, quoted non-letters; fixed: prefixes of dictionary words and Bengali emoji names through Probhat with quotes; every candidate's pre-edit text is compared with poriborton called directly; thorough adds the encoder over all dictionary words; non-trivial = the ANSI-off list is longer than the ANSI list (something was withheld)"));
    rep
}

fn rng_bit(i: u64, k: u32) -> bool { (i >> k) & 1 == 1 }

pub fn c17(tier: &str, seed: u64, meta: &str) -> Report {
    let fp = FixedPools::load(meta, PROBHAT);
    let thorough = tier == "thorough";
    let sessions: u64 = if thorough { 256 } else { 64 };
    let per = if thorough { 200 } else { 70 };
    let fpr = &fp;
    let mut rep = par_items(sessions, |_| Worker2::new(fpr.p.data.clone()), |w, i, rep| {
        let mut rng = Rng::new(seed ^ i.wrapping_mul(0xC17));
        let phonetic = i % 2 == 0;
        let mk = |w: &mut Worker2, smart: bool| -> Option<Session> {
            let home = std::path::PathBuf::from("/nonexistent");
            let mut o = if phonetic { Opts::phonetic(&home) } else { Opts::fixed(PROBHAT, &home) };
            o.smart_quote = smart; o.english = rng_bit(i, 1); o.ansi = rng_bit(i, 2) && rng_bit(i, 3);
            if !phonetic { o.fixed_suggestion = true; o.kar = rng_bit(i, 4); }
            Session::new(w, o, None, None, "c17").ok()
        };
        let (mut s_on, mut s_off) = match (mk(w, true), mk(w, false)) { (Some(a), Some(b)) => (a, b), _ => return };
        let q: Vec<&str> = vec!["'", "\"", "(", ".", ",", ":", "`", ")", "'\"", "\"'", "", "", ""];
        let self_typed: Vec<String> = fpr.km.keys.iter().filter(|(k, m, v)| *m == 0 && key_char(*k).map(|c| c.to_string()) == Some(v.clone()) && !"'\"".contains(v.as_str())).map(|(_, _, v)| v.clone()).collect();
        for n in 0..per {
            let (lead, trail) = (format!("{}{}", rng.pick(&q[..]), if rng.chance(1, 4) { *rng.pick(&q[..]) } else { "" }), format!("{}{}", rng.pick(&q[..]), if rng.chance(1, 4) { *rng.pick(&q[..]) } else { "" }));
            let core: String = if phonetic {
                match rng.below(6) { 0 => rng.pick(&fpr.p.emoji_names).clone(), 1 => String::new(), 2 => rng.pick(&["sesh", "ami", "cool", "chup", "smile"][..]).to_string(), 3 => rng.pick(&["\\", "5", "k\\", "$"][..]).to_string(), _ => word_pool(&fpr.p, &mut rng, 1).pop().unwrap_or_default() }
            } else {
                // now and then characters the layout passes through unchanged (the composed text then equals the raw keys)
                if rng.chance(1, 8) && !self_typed.is_empty() { (0..1 + rng.below(2)).map(|_| rng.pick(&self_typed).clone()).collect::<Vec<_>>().concat() } else {
                let base = if rng.chance(1, 5) { rng.pick(&fpr.bn_names).clone() } else { rng.pick(&fpr.words).clone() };
                base.chars().take(1 + rng.below(base.chars().count().min(5))).collect()
                }
            };
            let t = format!("{}{}{}", lead, core, trail);
            let evs: Vec<SEv> = if phonetic { if !fpr.p.typeable(&t) || t.is_empty() { continue; } fpr.p.key_events(&t, 0) } else { match fpr.keys_for(&t) { Some(k) if !k.is_empty() => k, _ => continue } };
            let mut last: Option<(Step, Step)> = None;
            let mut sel_on = 0u8; let mut sel_off = 0u8;
            for e in &evs {
                let (ea, eb) = match e { SEv::Key(k, m, _) => (SEv::Key(*k, *m, sel_on), SEv::Key(*k, *m, sel_off)), x => (x.clone(), x.clone()) };
                let a = feed(w, &mut s_on, &[ea], rep, "C17").pop().unwrap();
                let b = feed(w, &mut s_off, &[eb], rep, "C17").pop().unwrap();
                if let Out::Full { sel, .. } = &a.out { sel_on = (*sel).min(255) as u8; }
                if let Out::Full { sel, .. } = &b.out { sel_off = (*sel).min(255) as u8; }
                rep.evaluations += 1;
                let describe = |what: &str, extra: Value| json!({"what": what, "method": if phonetic { "phonetic" } else { "fixed (Probhat)" }, "typed": t, "details": extra,
                    "smart_quotes_on": explain(&a.imp), "smart_quotes_off": explain(&b.imp), "session_with_smart_quotes": s_on.describe()});
                match (&a.out, &b.out) {
                    (Out::Full { aux: xa, list: la, sel: sa, .. }, Out::Full { aux: xb, list: lb, sel: sb, .. }) => {
                        if xa != xb { rep.fail(describe("the auxiliary text differs between smart quotes on and off", json!(null))); }
                        if phonetic && la.len() == lb.len() + 1 && lb.contains(xa) && la.iter().filter(|x| uncurl(x) == *xa).count() == 2 {
                            // known finding: the transliteration equals the typed text, so with the option off the raw English item is a duplicate and dropped
                            rep.known.push(json!({"class": "self-transliterating-word-in-quotes", "typed": xa, "on": la, "off": lb}));
                            continue;
                        }
                        if la.len() != lb.len() || sa != sb { rep.fail(describe("length or preselection differs between smart quotes on and off", json!(null))); continue; }
                        let (pa, word, pc) = msplit(w, xa, !phonetic);
                        let (ca, cc) = if phonetic { (w.oracle.conv(&pa), w.oracle.conv(&pc)) } else { (pa.clone(), pc.clone()) };
                        for (x, y) in la.iter().zip(lb.iter()) {
                            if uncurl(x) != *y && uncurl(x) != uncurl(y) { rep.fail(describe("mapping curly quotes back does not give the list obtained with the option off", json!({"on": x, "off": y}))); break; }
                            // exactly the wrapping quotes are curled, and only for a non-empty word
                            let expect = if word.is_empty() { y.clone() }
                                else if let Some(mid) = y.strip_prefix(ca.as_str()).and_then(|m| m.strip_suffix(cc.as_str())) {
                                    if *y == *xa && phonetic { y.clone() } else { format!("{}{}{}", curl(&ca, true), mid, curl(&cc, false)) }
                                } else { y.clone() };
                            // the raw typed text (English / emoticon literal) and unwrapped emoji stay as they are
                            if *x != expect && !(*x == *y && (*y == *xa || is_emoji_str(y) || (!phonetic && y.is_ascii()))) && !(phonetic && *y == *xa && uncurl(x) == *y) {
                                rep.fail(describe("smart quotes changed something other than the quotes directly before / after a non-empty word", json!({"on": x, "off": y, "expected_on": expect}))); break;
                            }
                        }
                        if la.iter().zip(lb.iter()).any(|(x, y)| x != y) { rep.nontrivial_key(&format!("{} {}", phonetic, xa)); }
                    }
                    (Out::Single { text: x, .. }, Out::Single { text: y, .. }) => { if phonetic && x != y { rep.fail(describe("single-string suggestion differs", json!(null))); } }
                    _ => rep.fail(describe("different kinds of suggestion with smart quotes on and off", json!(null))),
                }
                last = Some((a, b));
            }
            // now and then learn a non-default candidate in both contexts (phonetic), so that later preselection is exercised
            let term = if phonetic && n % 5 == 0 { if let Some((a, _)) = &last { match &a.out { Out::Full { list, sel, .. } if list.len() > 1 && list[(sel + 1) % list.len()] != t => SEv::Commit((sel + 1) % list.len()), _ => SEv::Finish } } else { SEv::Finish } } else { SEv::Finish };
            feed(w, &mut s_on, &[term.clone()], rep, "C17");
            feed(w, &mut s_off, &[term], rep, "C17");
            if n % 5 == 0 && phonetic && rng.chance(1, 2) {
                // type the same text again: the preselection must still agree
                for e in &evs {
                    let a = feed(w, &mut s_on, &[e.clone()], rep, "C17").pop().unwrap();
                    let b = feed(w, &mut s_off, &[e.clone()], rep, "C17").pop().unwrap();
                    if let (Out::Full { sel: sa, list: la, .. }, Out::Full { sel: sb, list: lb, .. }) = (&a.out, &b.out) {
                        if la.len() == lb.len() + 1 && la.iter().filter(|x| lb.contains(&uncurl(x))).count() == 2 && lb.len() == 1 { continue; }
                        if sa != sb || la.len() != lb.len() { rep.fail(json!({"what": "after learning a choice, preselection differs between smart quotes on and off", "typed": t, "smart_quotes_on": explain(&a.imp), "smart_quotes_off": explain(&b.imp), "session_with_smart_quotes": s_on.describe()})); break; }
                    }
                }
                feed(w, &mut s_on, &[SEv::Finish], rep, "C17");
                feed(w, &mut s_off, &[SEv::Finish], rep, "C17");
            }
        }
    });
    rep.extra.insert("rule".into(), json!("paired contexts differing only in the smart-quote option, same key history, both methods, English / ANSI / traditional joining varied; texts = up to two quote or punctuation characters on each side of a word (emoji names, learned words, random words, empty word); position-wise comparison after every key; now and then a non-default candidate is committed in both and the text typed again; non-trivial = some candidate actually differs"));
    rep
}
