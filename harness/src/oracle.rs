//! The oracle layer: third-party crates and the bundled data, called DIRECTLY (never through riti),
//! answering the queries of the extracted model.
#![allow(dead_code)]
use crate::ffi::guarded;
use crate::model::{tok, untok};
use emojicon::{BengaliEmoji, Emojicon};
use okkhor::parser::Parser;
use regex::Regex;
use std::collections::HashMap;
use std::sync::Arc;

pub struct Data {
    pub dict: HashMap<String, Vec<String>>,
    pub suffix: HashMap<String, String>,
    pub autocorrect: HashMap<String, String>,
}
impl Data {
    pub fn load() -> Arc<Data> {
        let rd = |f: &str| std::fs::read(format!("/repo/data/{}", f)).expect("data file");
        Arc::new(Data {
            dict: serde_json::from_slice(&rd("dictionary.json")).expect("dictionary.json"),
            suffix: serde_json::from_slice(&rd("suffix.json")).expect("suffix.json"),
            autocorrect: serde_json::from_slice(&rd("autocorrect.json")).expect("autocorrect.json"),
        })
    }
}

pub struct Oracle {
    pub data: Arc<Data>,
    pub with_db: bool,
    phonetic: Parser,
    regex: Parser,
    emojicon: Emojicon,
    bn: BengaliEmoji,
    pub queries: u64,
    pub conv_panics: u64,
    pub bijoy_panics: Vec<String>,
    hits_cache: HashMap<(String, String), Vec<String>>,
}

fn list_tok(l: &[String]) -> String {
    if l.is_empty() { "-".into() } else { l.iter().map(|s| tok(s)).collect::<Vec<_>>().join("+") }
}

impl Oracle {
    pub fn new(data: Arc<Data>) -> Oracle {
        Oracle { data, with_db: true, phonetic: Parser::new_phonetic(), regex: Parser::new_regex(), emojicon: Emojicon::new(), bn: BengaliEmoji::new(),
                 queries: 0, conv_panics: 0, bijoy_panics: vec![], hits_cache: HashMap::new() }
    }
    pub fn conv(&mut self, s: &str) -> String {
        match guarded(|| self.phonetic.convert(s)) {
            Ok(r) => r,
            Err(_) => { self.conv_panics += 1; String::new() }
        }
    }
    pub fn hits(&mut self, table: &str, word: &str) -> Vec<String> {
        if !self.with_db { return vec![]; }
        let key = (table.to_string(), word.to_string());
        if let Some(r) = self.hits_cache.get(&key) { return r.clone(); }
        let pat = self.regex.convert_regex(word);
        let r: Vec<String> = match Regex::new(&pat) {
            Ok(rgx) => self.data.dict.get(table).map(|v| v.iter().filter(|w| rgx.is_match(w)).cloned().collect()).unwrap_or_default(),
            Err(_) => vec![],
        };
        if self.hits_cache.len() < 200_000 { self.hits_cache.insert(key, r.clone()); }
        r
    }
    pub fn edist(&self, a: &str, b: &str) -> usize { edit_distance::edit_distance(a, b) }
    pub fn ac(&self, w: &str) -> Option<&String> { if self.with_db { self.data.autocorrect.get(w) } else { None } }
    pub fn suffix(&self, w: &str) -> Option<&String> { if self.with_db { self.data.suffix.get(w) } else { None } }
    pub fn emoticon(&self, w: &str) -> Option<String> { self.emojicon.get_by_emoticon(w).map(str::to_owned) }
    pub fn emoji_name(&self, w: &str) -> Option<Vec<String>> { self.emojicon.get_by_name(w).map(|i| i.map(str::to_owned).collect()) }
    pub fn emoji_bn(&self, w: &str) -> Option<Vec<String>> { self.bn.get(w).map(|i| i.map(str::to_owned).collect()) }
    pub fn dict_prefix(&self, table: &str, prefix: &str) -> Vec<String> {
        if !self.with_db { return vec![]; }
        self.data.dict.get(table).map(|v| v.iter().filter(|w| w.starts_with(prefix)).cloned().collect()).unwrap_or_default()
    }
    pub fn bijoy(&mut self, s: &str) -> Option<String> {
        match guarded(|| poriborton::bijoy2000::unicode_to_bijoy(s)) {
            Ok(r) => Some(r),
            Err(_) => { if self.bijoy_panics.len() < 5 { self.bijoy_panics.push(s.to_string()); } None }
        }
    }

    /// Answers one "Q ..." line of the model driver.
    pub fn answer(&mut self, q: &str) -> String {
        self.queries += 1;
        let mut it = q.split(' ');
        let kind = it.next().unwrap_or("");
        let a = untok(it.next().unwrap_or("e"));
        let b = untok(it.next().unwrap_or("e"));
        let opt_s = |o: Option<&String>| o.map(|s| format!("s{}", tok(s))).unwrap_or_else(|| "n".into());
        let opt_l = |o: Option<Vec<String>>| o.map(|l| format!("l{}", list_tok(&l))).unwrap_or_else(|| "n".into());
        match kind {
            "conv" => tok(&self.conv(&a)),
            "hits" => list_tok(&self.hits(&a, &b)),
            "ed" => self.edist(&a, &b).to_string(),
            "ac" => opt_s(self.ac(&a)),
            "suf" => opt_s(self.suffix(&a)),
            "emo" => opt_s(self.emoticon(&a).as_ref()),
            "ename" => opt_l(self.emoji_name(&a)),
            "ebn" => opt_l(self.emoji_bn(&a)),
            "dict" => list_tok(&self.dict_prefix(&a, &b)),
            "bijoy" => tok(&self.bijoy(&a).unwrap_or_default()),
            _ => "e".into(),
        }
    }
}
