//! C19: the C interface driven through its exported symbols, with a counting allocator.
#![allow(dead_code)]
use crate::ffi::*;
use crate::fx::par_items;
use crate::ph::*;
use crate::util::*;
use riti::suggestion::Suggestion;
use serde_json::{json, Value};
use std::alloc::{GlobalAlloc, Layout, System};
use std::cell::Cell;
use std::ffi::{CStr, CString};

pub struct Counting;
thread_local! {
    /// only allocations made while the thread is inside an exported C function are counted
    static ON: Cell<bool> = const { Cell::new(false) };
    static LIVE: Cell<i64> = const { Cell::new(0) };
    static BYTES: Cell<i64> = const { Cell::new(0) };
}
unsafe impl GlobalAlloc for Counting {
    unsafe fn alloc(&self, l: Layout) -> *mut u8 {
        let p = System.alloc(l);
        if !p.is_null() && ON.try_with(|c| c.get()).unwrap_or(false) { let _ = LIVE.try_with(|c| c.set(c.get() + 1)); let _ = BYTES.try_with(|c| c.set(c.get() + l.size() as i64)); }
        p
    }
    unsafe fn dealloc(&self, p: *mut u8, l: Layout) {
        if ON.try_with(|c| c.get()).unwrap_or(false) {
            let _ = LIVE.try_with(|c| c.set(c.get() - 1));
            let _ = BYTES.try_with(|c| c.set(c.get() - l.size() as i64));
        }
        System.dealloc(p, l)
    }
    unsafe fn realloc(&self, p: *mut u8, l: Layout, n: usize) -> *mut u8 {
        let q = System.realloc(p, l, n);
        if !q.is_null() && ON.try_with(|c| c.get()).unwrap_or(false) { let _ = BYTES.try_with(|c| c.set(c.get() + n as i64 - l.size() as i64)); }
        q
    }
}
macro_rules! ffi {
    ($e:expr) => {{ ON.with(|c| c.set(true)); let r = $e; ON.with(|c| c.set(false)); r }};
}
pub fn live() -> (i64, i64) { (LIVE.with(|c| c.get()), BYTES.with(|c| c.get())) }

/// what a suggestion handle must keep answering, captured through the Rust API when it was created
#[derive(Clone, Debug, PartialEq)]
struct Snap { lonely: bool, empty: bool, len: usize, sel: usize, aux: String, items: Vec<String>, pre: Vec<String>, single: String }

unsafe fn snap(p: *const Suggestion) -> Snap {
    let s = &*p;
    if s.is_lonely() {
        Snap { lonely: true, empty: s.is_empty(), len: 0, sel: 0, aux: String::new(), items: vec![], pre: vec![guarded(|| s.get_pre_edit_text(0)).unwrap_or_else(|_| "<panic>".into())], single: s.get_lonely_suggestion().to_owned() }
    } else {
        let items: Vec<String> = s.get_suggestions().to_vec();
        let pre = (0..items.len()).map(|i| guarded(|| s.get_pre_edit_text(i)).unwrap_or_else(|_| "<panic>".into())).collect();
        Snap { lonely: false, empty: s.is_empty(), len: s.len(), sel: s.previously_selected_index(), aux: s.get_auxiliary_text().to_owned(), items, pre, single: String::new() }
    }
}

/// reads a C string, checks termination/UTF-8, frees it
unsafe fn cstr(p: *mut std::os::raw::c_char) -> Result<String, String> {
    if p.is_null() { return Err("null pointer returned".into()); }
    let bytes = CStr::from_ptr(p).to_bytes().to_vec();
    ffi!(riti_string_free(p));
    String::from_utf8(bytes).map_err(|_| "returned bytes are not valid UTF-8".to_string())
}

/// every read-out of a handle through the C interface, compared with the snapshot
unsafe fn read_all(p: *const Suggestion, sn: &Snap, rng: &mut Rng) -> Option<String> {
    if ffi!(riti_suggestion_is_lonely(p)) != sn.lonely { return Some("riti_suggestion_is_lonely differs".into()); }
    if ffi!(riti_suggestion_is_empty(p)) != sn.empty { return Some("riti_suggestion_is_empty differs".into()); }
    if sn.lonely {
        match cstr(ffi!(riti_suggestion_get_lonely_suggestion(p))) { Ok(s) if s == sn.single => {} Ok(s) => return Some(format!("riti_suggestion_get_lonely_suggestion returned {:?}, the Rust API reports {:?}", s, sn.single)), Err(e) => return Some(e) }
        if sn.pre[0] != "<panic>" {
            match cstr(ffi!(riti_suggestion_get_pre_edit_text(p, 0))) { Ok(s) if s == sn.pre[0] => {} Ok(s) => return Some(format!("ffi!(riti_suggestion_get_pre_edit_text(0)) returned {:?}, the Rust API reports {:?}", s, sn.pre[0])), Err(e) => return Some(e) }
        }
    } else {
        if ffi!(riti_suggestion_get_length(p)) != sn.len { return Some("riti_suggestion_get_length differs".into()); }
        if ffi!(riti_suggestion_previously_selected_index(p)) != sn.sel { return Some("riti_suggestion_previously_selected_index differs".into()); }
        match cstr(ffi!(riti_suggestion_get_auxiliary_text(p))) { Ok(s) if s == sn.aux => {} Ok(s) => return Some(format!("auxiliary text {:?} vs {:?}", s, sn.aux)), Err(e) => return Some(e) }
        for _ in 0..(1 + rng.below(3)) {
            if sn.len == 0 { break; }
            let i = rng.below(sn.len);
            match cstr(ffi!(riti_suggestion_get_suggestion(p, i))) { Ok(s) if s == sn.items[i] => {} Ok(s) => return Some(format!("candidate {} is {:?}, the Rust API reports {:?}", i, s, sn.items[i])), Err(e) => return Some(e) }
            if sn.pre[i] != "<panic>" {
                match cstr(ffi!(riti_suggestion_get_pre_edit_text(p, i))) { Ok(s) if s == sn.pre[i] => {} Ok(s) => return Some(format!("pre-edit text {} is {:?}, the Rust API reports {:?}", i, s, sn.pre[i])), Err(e) => return Some(e) }
            }
        }
    }
    None
}

pub fn c19(tier: &str, seed: u64, meta: &str) -> Report {
    let fp = FixedPools::load(meta, PROBHAT);
    let thorough = tier == "thorough";
    let total: u64 = if thorough { 20_000 } else { 2_400 };
    let fpr = &fp;
    let mut rep = par_items(total, |_| (), |_, i, rep| {
        let mut rng = Rng::new(seed ^ i.wrapping_mul(0xC19));
        let scratch = Scratch::new("c19");
        let mut phonetic = i % 2 == 0;
        let mut o = if phonetic { Opts::phonetic(scratch.path()) } else { Opts::fixed(PROBHAT, scratch.path()) };
        o.database = i % 5 != 4;
        o.phonetic_suggestion = rng.chance(2, 3);
        o.fixed_suggestion = rng.chance(2, 3);
        o.ansi = rng.chance(1, 3);
        o.english = rng.chance(1, 2);
        o.smart_quote = rng.chance(1, 2);
        o.kar_order = rng.chance(1, 3);
        let mut log: Vec<Value> = vec![json!({"config": format!("{:?}", o)})];
        // warm up the thread (lazy statics of the libraries) before taking the baseline
        { let c = Cfg::new(&o); let mut x = Ctx::new(&c); if let Ok(x) = x.as_mut() { let _ = x.key(0xA096, 0, 0); let _ = x.finish(); } }
        let base = live();
        let mut fail: Option<String> = None;
        unsafe {
            ffi!(riti_string_free(std::ptr::null_mut())); // freeing a null string is a no-op
            let cfg = Cfg::new(&o);
            let ctx = ffi!(riti_context_new_with_config(cfg.0));
            if std::env::var("RV_DEBUG19").is_ok() && i == 0 { eprintln!("base {:?} after context_new {:?}", base, live()); }
            let mut handles: Vec<(*mut Suggestion, Snap)> = Vec::new();
            let mut ctx_alive = true;
            // one case in twelve is a long composition (more than a hundred characters without a commit)
            let long = i % 12 == 5;
            let nev = if long { 110 + rng.below(80) } else { 4 + rng.below(30) };
            let mut last_len = 1usize;
            for n in 0..nev {
                if !ctx_alive { break; }
                let ev = if long && !rng.chance(1, 25) { 0 } else { rng.below(13) };
                let p: *mut Suggestion = match ev {
                    0..=6 => {
                        let (k, m) = if phonetic { (fpr.p.keys[rng.pick(&"abdeghiklmnoprstu`:).\"'".chars().collect::<Vec<_>>())], 0u8) } else { let x = rng.below(fpr.km.keys.len()); (fpr.km.keys[x].0, fpr.km.keys[x].1) };
                        log.push(json!({"riti_get_suggestion_for_key": [k, m]}));
                        let sel = rng.below(last_len.max(1)) as u8;
                        ffi!(riti_get_suggestion_for_key(ctx, k, m, sel))
                    }
                    7 | 8 => { log.push(json!({"riti_context_backspace_event": rng.below(5) == 0})); ffi!(riti_context_backspace_event(ctx, false)) }
                    9 => { log.push(json!("riti_context_candidate_committed")); let ix = rng.below(last_len.max(1)); ffi!(riti_context_candidate_committed(ctx, ix)); last_len = 1; std::ptr::null_mut() }
                    10 => { log.push(json!("riti_context_finish_input_session")); ffi!(riti_context_finish_input_session(ctx)); last_len = 1; std::ptr::null_mut() }
                    12 => {
                        // re-configure the live context (idle): another method / layout, or option flips
                        if ffi!(riti_context_ongoing_input_session(ctx)) { ffi!(riti_context_finish_input_session(ctx)); }
                        if rng.chance(2, 3) { phonetic = !phonetic; }
                        let mut o2 = if phonetic { Opts::phonetic(scratch.path()) } else { Opts::fixed(PROBHAT, scratch.path()) };
                        o2.database = o.database; o2.ansi = rng.chance(1, 3); o2.english = rng.chance(1, 2); o2.smart_quote = rng.chance(1, 2);
                        o2.phonetic_suggestion = rng.chance(2, 3); o2.fixed_suggestion = rng.chance(2, 3); o2.kar_order = o.kar_order;
                        log.push(json!({"riti_context_update_engine": format!("{:?}", o2)}));
                        let cfg2 = Cfg::new(&o2);
                        ffi!(riti_context_update_engine(ctx, cfg2.0));
                        drop(cfg2);
                        last_len = 1;
                        std::ptr::null_mut()
                    }
                    _ => { let _ = ffi!(riti_context_ongoing_input_session(ctx)); std::ptr::null_mut() }
                };
                if std::env::var("RV_DEBUG19").is_ok() && i == 0 { eprintln!("after event {} ({:?}): live {:?}", n, log.last(), live()); }
                if !p.is_null() {
                    let sn = snap(p);
                    if !sn.lonely { last_len = sn.len; } else { last_len = 1; }
                    if let Some(e) = read_all(p, &sn, &mut rng) { fail = Some(format!("fresh handle: {}", e)); }
                    handles.push((p, sn));
                }
                // read an older handle again: it must be unaffected by what happened to the context since
                if !handles.is_empty() && rng.chance(1, 2) {
                    let (hp, hs) = &handles[rng.below(handles.len())];
                    if snap(*hp) != *hs { fail = Some("a suggestion handle changed after later calls on its context".into()); }
                    if let Some(e) = read_all(*hp, hs, &mut rng) { fail = Some(format!("older handle read after later calls: {}", e)); }
                }
                if rng.chance(1, 9) && !handles.is_empty() { let k = rng.below(handles.len()); let (hp, _) = handles.swap_remove(k); ffi!(riti_suggestion_free(hp)); }
                if n + 1 == nev && rng.chance(1, 2) { ffi!(riti_context_free(ctx)); ctx_alive = false; log.push(json!("riti_context_free (suggestion handles still live)")); }
                if fail.is_some() { break; }
            }
            // read-outs after the context is gone, then free everything in random order
            for (hp, hs) in &handles { if fail.is_none() { if let Some(e) = read_all(*hp, hs, &mut rng) { fail = Some(format!("handle read after its context was freed: {}", e)); } } }
            while !handles.is_empty() { let k = rng.below(handles.len()); let (hp, _) = handles.swap_remove(k); ffi!(riti_suggestion_free(hp)); }
            if std::env::var("RV_DEBUG19").is_ok() && i == 0 { eprintln!("before context_free {:?}", live()); }
            if ctx_alive { ffi!(riti_context_free(ctx)); }
            if std::env::var("RV_DEBUG19").is_ok() && i == 0 { eprintln!("after context_free {:?}", live()); }
            drop(cfg);
        }
        rep.evaluations += 1;
        let after = live();
        if fail.is_none() && after.0 != base.0 {
            fail = Some(format!("a full life cycle leaves {} live allocation(s) ({} bytes) behind", after.0 - base.0, after.1 - base.1));
        }
        if let Some(f) = fail {
            rep.fail(json!({"what": f, "calls": log}));
        }
        rep.nontrivial_key(&format!("{}", i));
        if rep.samples.len() < 1 && i % 499 == 3 { rep.sample(json!({"calls": log})); }
    });
    rep.extra.insert("rule".into(), json!("each case is a full life cycle through the exported C symbols only: config (new, setters, free), context (new, key / backspace / commit / finish / ongoing / update_engine with another method or layout, free), suggestion handles kept alive and read out (length, index, auxiliary, candidates, pre-edit, lonely, is_lonely, is_empty) when created (one case in twelve composes 110-190 keys without a commit, so read-outs of several hundred bytes occur), again after later calls on the context and after the context was freed, then freed in random order; every returned string is compared byte-wise with the Rust API value captured at creation and freed; riti_string_free(NULL) is called; a counting global allocator (per thread) must be back at its baseline at the end; non-trivial = every case"));
    rep.extra.insert("memory_safety".into(), json!("observed by allocation counting here; invalid accesses are looked for by the thorough tier under valgrind"));
    rep
}
