//! Access to riti: configuration through the exported C functions (the setters for
//! layout/database/English/phonetic options are `pub(crate)` in riti), everything that
//! may panic through the public Rust API under `catch_unwind`.
#![allow(dead_code)]
use riti::config::Config;
use riti::context::RitiContext;
use riti::suggestion::Suggestion;
use std::ffi::{CStr, CString};
use std::os::raw::c_char;
use std::panic::{catch_unwind, AssertUnwindSafe};
use std::path::PathBuf;
use std::sync::Mutex;

extern "C" {
    pub fn riti_config_new() -> *mut Config;
    pub fn riti_config_free(ptr: *mut Config);
    pub fn riti_config_set_layout_file(ptr: *mut Config, path: *const c_char) -> bool;
    pub fn riti_config_set_database_dir(ptr: *mut Config, path: *const c_char) -> bool;
    pub fn riti_config_set_suggestion_include_english(ptr: *mut Config, option: bool);
    pub fn riti_config_set_phonetic_suggestion(ptr: *mut Config, option: bool);
    pub fn riti_config_set_fixed_suggestion(ptr: *mut Config, option: bool);
    pub fn riti_config_set_fixed_auto_vowel(ptr: *mut Config, option: bool);
    pub fn riti_config_set_fixed_auto_chandra(ptr: *mut Config, option: bool);
    pub fn riti_config_set_fixed_traditional_kar(ptr: *mut Config, option: bool);
    pub fn riti_config_set_fixed_old_reph(ptr: *mut Config, option: bool);
    pub fn riti_config_set_fixed_numpad(ptr: *mut Config, option: bool);
    pub fn riti_config_set_fixed_old_kar_order(ptr: *mut Config, option: bool);
    pub fn riti_config_set_ansi_encoding(ptr: *mut Config, option: bool);
    pub fn riti_config_set_smart_quote(ptr: *mut Config, option: bool);

    pub fn riti_context_new_with_config(ptr: *const Config) -> *mut RitiContext;
    pub fn riti_context_free(ptr: *mut RitiContext);
    pub fn riti_get_suggestion_for_key(ptr: *mut RitiContext, key: u16, modifier: u8, selection: u8) -> *mut Suggestion;
    pub fn riti_context_candidate_committed(ptr: *mut RitiContext, index: usize);
    pub fn riti_context_update_engine(ptr: *mut RitiContext, config: *const Config);
    pub fn riti_context_ongoing_input_session(ptr: *mut RitiContext) -> bool;
    pub fn riti_context_finish_input_session(ptr: *mut RitiContext);
    pub fn riti_context_backspace_event(ptr: *mut RitiContext, ctrl: bool) -> *mut Suggestion;
    pub fn riti_suggestion_free(ptr: *mut Suggestion);
    pub fn riti_suggestion_get_suggestion(ptr: *const Suggestion, index: usize) -> *mut c_char;
    pub fn riti_suggestion_get_lonely_suggestion(ptr: *const Suggestion) -> *mut c_char;
    pub fn riti_suggestion_get_auxiliary_text(ptr: *const Suggestion) -> *mut c_char;
    pub fn riti_suggestion_get_pre_edit_text(ptr: *const Suggestion, index: usize) -> *mut c_char;
    pub fn riti_string_free(ptr: *mut c_char);
    pub fn riti_suggestion_previously_selected_index(ptr: *const Suggestion) -> usize;
    pub fn riti_suggestion_get_length(ptr: *const Suggestion) -> usize;
    pub fn riti_suggestion_is_lonely(ptr: *const Suggestion) -> bool;
    pub fn riti_suggestion_is_empty(ptr: *const Suggestion) -> bool;
}

pub const DATA_DIR: &str = "/repo/data";
pub const PHONETIC: &str = "avro_phonetic";

/// The eleven booleans, the layout and the two directories.
#[derive(Clone, Debug, PartialEq)]
pub struct Opts {
    pub layout: String,
    pub database: bool,
    pub english: bool,
    pub phonetic_suggestion: bool,
    pub fixed_suggestion: bool,
    pub vowel: bool,
    pub chandra: bool,
    pub kar: bool,
    pub old_reph: bool,
    pub numpad: bool,
    pub kar_order: bool,
    pub ansi: bool,
    pub smart_quote: bool,
    /// value given to XDG_DATA_HOME while the Config is created
    pub user_home: PathBuf,
    /// call the ANSI setter before the English setter (the order must not matter)
    pub ansi_first: bool,
}

impl Opts {
    pub fn phonetic(user_home: &std::path::Path) -> Opts {
        Opts {
            layout: PHONETIC.into(),
            database: true,
            english: false,
            phonetic_suggestion: true,
            fixed_suggestion: false,
            vowel: false,
            chandra: false,
            kar: false,
            old_reph: false,
            numpad: false,
            kar_order: false,
            ansi: false,
            smart_quote: true,
            user_home: user_home.into(),
            ansi_first: false,
        }
    }
    pub fn fixed(layout: &str, user_home: &std::path::Path) -> Opts {
        Opts { layout: layout.into(), phonetic_suggestion: false, ..Opts::phonetic(user_home) }
    }
    pub fn is_phonetic(&self) -> bool {
        self.layout == PHONETIC
    }
    /// bits: english, phonetic_suggestion, fixed_suggestion, vowel, chandra, kar, old_reph, numpad, kar_order, ansi, smart_quote
    pub fn bits(&self) -> u32 {
        let b = [
            self.english, self.phonetic_suggestion, self.fixed_suggestion, self.vowel, self.chandra, self.kar,
            self.old_reph, self.numpad, self.kar_order, self.ansi, self.smart_quote,
        ];
        b.iter().enumerate().fold(0, |a, (i, &x)| a | ((x as u32) << i))
    }
    pub fn set_bits(&mut self, bits: u32) {
        let g = |i: u32| (bits >> i) & 1 == 1;
        self.english = g(0);
        self.phonetic_suggestion = g(1);
        self.fixed_suggestion = g(2);
        self.vowel = g(3);
        self.chandra = g(4);
        self.kar = g(5);
        self.old_reph = g(6);
        self.numpad = g(7);
        self.kar_order = g(8);
        self.ansi = g(9);
        self.smart_quote = g(10);
    }
    pub fn user_dir(&self) -> PathBuf {
        self.user_home.join("openbangla-keyboard")
    }
}

static ENV_LOCK: Mutex<()> = Mutex::new(());

/// An owned `Config` created and populated through the C interface.
pub struct Cfg(pub *mut Config);
unsafe impl Send for Cfg {}

impl Cfg {
    pub fn new(o: &Opts) -> Cfg {
        let _g = ENV_LOCK.lock().unwrap_or_else(|e| e.into_inner());
        std::env::set_var("XDG_DATA_HOME", &o.user_home);
        unsafe {
            let c = riti_config_new();
            let l = CString::new(o.layout.as_str()).unwrap();
            assert!(riti_config_set_layout_file(c, l.as_ptr()), "layout {} rejected", o.layout);
            if o.database {
                let d = CString::new(DATA_DIR).unwrap();
                assert!(riti_config_set_database_dir(c, d.as_ptr()));
            }
            if o.ansi_first {
                riti_config_set_ansi_encoding(c, o.ansi);
            }
            riti_config_set_suggestion_include_english(c, o.english);
            riti_config_set_phonetic_suggestion(c, o.phonetic_suggestion);
            riti_config_set_fixed_suggestion(c, o.fixed_suggestion);
            riti_config_set_fixed_auto_vowel(c, o.vowel);
            riti_config_set_fixed_auto_chandra(c, o.chandra);
            riti_config_set_fixed_traditional_kar(c, o.kar);
            riti_config_set_fixed_old_reph(c, o.old_reph);
            riti_config_set_fixed_numpad(c, o.numpad);
            riti_config_set_fixed_old_kar_order(c, o.kar_order);
            if !o.ansi_first {
                riti_config_set_ansi_encoding(c, o.ansi);
            }
            riti_config_set_smart_quote(c, o.smart_quote);
            Cfg(c)
        }
    }
    pub fn get(&self) -> &Config {
        unsafe { &*self.0 }
    }
}
impl Drop for Cfg {
    fn drop(&mut self) {
        unsafe { riti_config_free(self.0) }
    }
}

/// What one event returned, fully read out.
#[derive(Clone, Debug, PartialEq)]
pub enum Out {
    Full { aux: String, list: Vec<String>, sel: usize, pre: Vec<Result<String, String>>, ansi: bool },
    Single { text: String, pre: Result<String, String>, ansi: bool },
    Unit,
    Panic(String),
}

impl Out {
    pub fn is_panic(&self) -> bool {
        matches!(self, Out::Panic(_))
    }
}

thread_local! {
    static LAST_PANIC: std::cell::RefCell<String> = std::cell::RefCell::new(String::new());
}

pub fn install_quiet_panic_hook() {
    std::panic::set_hook(Box::new(|info| {
        let loc = info.location().map(|l| format!("{}:{}", l.file(), l.line())).unwrap_or_default();
        let msg = if let Some(s) = info.payload().downcast_ref::<&str>() {
            s.to_string()
        } else if let Some(s) = info.payload().downcast_ref::<String>() {
            s.clone()
        } else {
            "panic".to_string()
        };
        if loc.starts_with("src/") && !loc.starts_with("src/fixed") && !loc.starts_with("src/phonetic") {
            eprintln!("harness panic: {} @ {}", msg, loc);
        }
        LAST_PANIC.with(|p| *p.borrow_mut() = format!("{} @ {}", msg.lines().next().unwrap_or(""), loc));
    }));
}

pub fn guarded<T>(f: impl FnOnce() -> T) -> Result<T, String> {
    catch_unwind(AssertUnwindSafe(f)).map_err(|_| LAST_PANIC.with(|p| p.borrow().clone()))
}

pub fn read_out(s: &Suggestion) -> Out {
    if s.is_lonely() {
        let text = s.get_lonely_suggestion().to_owned();
        let pre = guarded(|| s.get_pre_edit_text(0));
        let ansi = matches!(s, Suggestion::Single { ansi: true, .. });
        Out::Single { text, pre, ansi }
    } else {
        let list: Vec<String> = s.get_suggestions().to_vec();
        let pre = (0..list.len()).map(|i| guarded(|| s.get_pre_edit_text(i))).collect();
        let ansi = matches!(s, Suggestion::Full { ansi: true, .. });
        Out::Full { aux: s.get_auxiliary_text().to_owned(), list, sel: s.previously_selected_index(), pre, ansi }
    }
}

/// A live context driven through the Rust API under `catch_unwind`.
pub struct Ctx {
    pub ctx: Option<RitiContext>,
    pub dead: bool,
}

impl Ctx {
    pub fn new(cfg: &Cfg) -> Result<Ctx, String> {
        guarded(|| RitiContext::new_with_config(cfg.get())).map(|c| Ctx { ctx: Some(c), dead: false })
    }
    fn run<T>(&mut self, f: impl FnOnce(&mut RitiContext) -> T) -> Result<T, String> {
        let c = self.ctx.as_mut().unwrap();
        let r = guarded(|| f(c));
        if r.is_err() {
            self.dead = true;
        }
        r
    }
    pub fn key(&mut self, key: u16, modifier: u8, selection: u8) -> Out {
        match self.run(|c| c.get_suggestion_for_key(key, modifier, selection)) {
            Ok(s) => read_out(&s),
            Err(e) => Out::Panic(e),
        }
    }
    pub fn backspace(&mut self, ctrl: bool) -> Out {
        match self.run(|c| c.backspace_event(ctrl)) {
            Ok(s) => read_out(&s),
            Err(e) => Out::Panic(e),
        }
    }
    pub fn commit(&mut self, index: usize) -> Out {
        match self.run(|c| c.candidate_committed(index)) {
            Ok(()) => Out::Unit,
            Err(e) => Out::Panic(e),
        }
    }
    pub fn finish(&mut self) -> Out {
        match self.run(|c| c.finish_input_session()) {
            Ok(()) => Out::Unit,
            Err(e) => Out::Panic(e),
        }
    }
    pub fn update(&mut self, cfg: &Cfg) -> Out {
        match self.run(|c| c.update_engine(cfg.get())) {
            Ok(()) => Out::Unit,
            Err(e) => Out::Panic(e),
        }
    }
    pub fn ongoing(&mut self) -> bool {
        self.run(|c| c.ongoing_input_session()).unwrap_or(false)
    }
}

pub unsafe fn take_cstring(p: *mut c_char) -> Vec<u8> {
    let v = CStr::from_ptr(p).to_bytes().to_vec();
    riti_string_free(p);
    v
}
