//! The extracted Coq model (driver/driver), spoken to over a line protocol.
#![allow(dead_code)]
use std::io::{BufRead, BufReader, Write};
use std::process::{Child, ChildStdin, ChildStdout, Command, Stdio};

pub struct Model {
    child: Child,
    stdin: ChildStdin,
    stdout: BufReader<ChildStdout>,
    pub calls: u64,
}

pub fn driver_path() -> String {
    std::env::var("RV_DRIVER").unwrap_or_else(|_| "/verif/driver/driver".into())
}

impl Model {
    pub fn new() -> Model {
        let mut child = Command::new(driver_path()).stdin(Stdio::piped()).stdout(Stdio::piped()).spawn().expect("spawn the extracted model (driver/driver)");
        let stdin = child.stdin.take().unwrap();
        let stdout = BufReader::new(child.stdout.take().unwrap());
        Model { child, stdin, stdout, calls: 0 }
    }
    /// Like `ask`, answering the model's oracle queries ("Q ...") from `oracle` meanwhile.
    pub fn ask_with(&mut self, req: &str, oracle: &mut crate::oracle::Oracle) -> Result<String, String> {
        self.calls += 1;
        self.stdin.write_all(req.as_bytes()).map_err(|e| e.to_string())?;
        self.stdin.write_all(b"\n").map_err(|e| e.to_string())?;
        self.stdin.flush().map_err(|e| e.to_string())?;
        loop {
            let mut line = String::new();
            let n = self.stdout.read_line(&mut line).map_err(|e| e.to_string())?;
            if n == 0 {
                return Err(format!("model driver closed its output while answering {:?}", req));
            }
            let line = line.trim_end();
            if let Some(q) = line.strip_prefix("Q ") {
                let a = oracle.answer(q);
                self.stdin.write_all(b"A ").map_err(|e| e.to_string())?;
                self.stdin.write_all(a.as_bytes()).map_err(|e| e.to_string())?;
                self.stdin.write_all(b"\n").map_err(|e| e.to_string())?;
                self.stdin.flush().map_err(|e| e.to_string())?;
            } else if let Some(r) = line.strip_prefix("R ") {
                return Ok(r.to_string());
            } else if line == "R" {
                return Ok(String::new());
            } else {
                return Err(format!("model driver answered {:?} to {:?}", line, req));
            }
        }
    }
    /// Sends one request line; returns the payload after "R ", or Err with the driver's complaint.
    pub fn ask(&mut self, req: &str) -> Result<String, String> {
        self.calls += 1;
        self.stdin.write_all(req.as_bytes()).map_err(|e| e.to_string())?;
        self.stdin.write_all(b"\n").map_err(|e| e.to_string())?;
        self.stdin.flush().map_err(|e| e.to_string())?;
        let mut line = String::new();
        self.stdout.read_line(&mut line).map_err(|e| e.to_string())?;
        let line = line.trim_end();
        if let Some(r) = line.strip_prefix("R ") {
            Ok(r.to_string())
        } else if line == "R" {
            Ok(String::new())
        } else {
            Err(format!("model driver answered {:?} to {:?}", line, req))
        }
    }
}
impl Drop for Model {
    fn drop(&mut self) {
        let _ = self.child.kill();
        let _ = self.child.wait();
    }
}

/// code points joined by '.', "e" for the empty string
pub fn tok(s: &str) -> String {
    if s.is_empty() {
        "e".into()
    } else {
        s.chars().map(|c| (c as u32).to_string()).collect::<Vec<_>>().join(".")
    }
}
pub fn untok(t: &str) -> String {
    if t == "e" || t.is_empty() {
        String::new()
    } else {
        t.split('.').filter_map(|x| x.parse::<u32>().ok().and_then(char::from_u32)).collect()
    }
}
