//! Fixed-layout composition streams (suggestions off): C12, C13, C14.
//! Every history is run on the implementation (through the API) and on the extracted Coq model,
//! compared event by event, and the implementation's outputs are judged by the extracted
//! specification functions (rule_table, reph_spec).
use crate::c04::{load_layout, Spec};
use crate::ffi::*;
use crate::model::*;
use crate::util::*;
use serde_json::{json, Value};
use std::collections::HashMap;

pub const REPH: &str = "\u{09B0}\u{09CD}";
pub const SYNTHETIC: &str = "/verif/layouts/synthetic.json";

#[derive(Clone, Debug, PartialEq)]
pub enum Ev {
    Key(u16, u8),
    Back(bool),
    Commit,
    Finish,
}
impl Ev {
    pub fn tok(&self) -> String {
        match self {
            Ev::Key(k, m) => format!("k{}.{}", k, m),
            Ev::Back(c) => format!("b{}", *c as u8),
            Ev::Commit => "c".into(),
            Ev::Finish => "f".into(),
        }
    }
}

/// The valued keys of a layout (number pad excluded): (key, modifier, value).
pub struct KeyMap {
    pub keys: Vec<(u16, u8, String)>,
    pub by_value: HashMap<String, usize>,
    pub value_of: HashMap<(u16, bool), String>,
}
impl KeyMap {
    pub fn load(spec: &Spec, layout: &HashMap<String, String>) -> KeyMap {
        let mut keys = Vec::new();
        let mut codes: Vec<(&u64, &usize)> = spec.spec_lookups.iter().collect();
        codes.sort();
        for (&code, &id) in codes {
            if code & 1 == 1 {
                continue; // numpad on
            }
            let name = &spec.entry_names[id];
            if name.starts_with("Num") {
                continue;
            }
            if let Some(v) = layout.get(name) {
                if !v.is_empty() {
                    keys.push(((code / 4) as u16, if code & 2 != 0 { 2u8 } else { 0u8 }, v.clone()));
                }
            }
        }
        let mut by_value = HashMap::new();
        let mut value_of = HashMap::new();
        for (i, (k, m, v)) in keys.iter().enumerate() {
            by_value.entry(v.clone()).or_insert(i);
            value_of.insert((*k, *m != 0), v.clone());
        }
        KeyMap { keys, by_value, value_of }
    }
    pub fn key(&self, value: &str) -> Ev {
        let i = self.find(value).unwrap_or_else(|| panic!("no key for value {:?} in the layout", value));
        Ev::Key(self.keys[i].0, self.keys[i].1)
    }
    /// the key emitting `value`, or a canonically equivalent spelling of it (two-part signs and nukta letters decomposed)
    fn find(&self, value: &str) -> Option<usize> {
        self.by_value.get(value).copied().or_else(|| { let d = decompose(value); self.keys.iter().position(|(_, _, v)| decompose(v) == d) })
    }
    pub fn has(&self, value: &str) -> bool { self.find(value).is_some() }
    pub fn value(&self, ev: &Ev) -> Option<&str> {
        match ev {
            Ev::Key(k, m) => self.value_of.get(&(*k, m & 2 != 0)).map(String::as_str),
            _ => None,
        }
    }
}

/// canonical decomposition of the Bengali characters that have one
pub fn decompose(s: &str) -> String {
    let mut o = String::new();
    for c in s.chars() {
        match c {
            '\u{09CB}' => o.push_str("\u{09C7}\u{09BE}"),
            '\u{09CC}' => o.push_str("\u{09C7}\u{09D7}"),
            '\u{09DC}' => o.push_str("\u{09A1}\u{09BC}"),
            '\u{09DD}' => o.push_str("\u{09A2}\u{09BC}"),
            '\u{09DF}' => o.push_str("\u{09AF}\u{09BC}"),
            c => o.push(c),
        }
    }
    o
}

/// what `rv replay` needs to re-create the context of a fixed-composition case
pub fn fx_initial(bits: u32) -> Value { fx_initial_in(SYNTHETIC, bits) }
pub fn fx_initial_in(layout: &str, bits: u32) -> Value {
    json!({"layout": layout, "database": false, "option_bits": bits & 31, "user_files": {}})
}

pub fn opt_names(bits: u32) -> Value {
    json!({"auto_vowel": bits & 1 != 0, "auto_chandra": bits & 2 != 0, "traditional_kar": bits & 4 != 0,
           "old_reph": bits & 8 != 0, "old_kar_order": bits & 16 != 0})
}

pub fn fixed_opts(layout: &str, bits: u32, home: &std::path::Path) -> Opts {
    let mut o = Opts::fixed(layout, home);
    o.database = false;
    o.fixed_suggestion = false;
    o.vowel = bits & 1 != 0;
    o.chandra = bits & 2 != 0;
    o.kar = bits & 4 != 0;
    o.old_reph = bits & 8 != 0;
    o.kar_order = bits & 16 != 0;
    o
}

/// One worker: a live context per option set (created lazily) and one model process.
pub struct Worker {
    pub ctxs: HashMap<u32, (Cfg, Ctx)>,
    pub model: Model,
    pub scratch: Scratch,
    pub layout_path: String,
    pub cache12: HashMap<(u32, String, String), String>,
    pub cache13: HashMap<String, (bool, String)>,
}
impl Worker {
    pub fn new(layout_path: &str) -> Worker {
        Worker { ctxs: HashMap::new(), model: Model::new(), scratch: Scratch::new("fx"), layout_path: layout_path.into(),
                 cache12: HashMap::new(), cache13: HashMap::new() }
    }
    fn ctx(&mut self, bits: u32) -> &mut Ctx {
        if !self.ctxs.contains_key(&bits) {
            let o = fixed_opts(&self.layout_path, bits, self.scratch.path());
            let cfg = Cfg::new(&o);
            // every other context with old-style reph on is created with the option off and re-configured (the option
            // has to follow update_engine like every other one)
            static N: std::sync::atomic::AtomicU64 = std::sync::atomic::AtomicU64::new(0);
            let ctx = if bits & 8 != 0 && N.fetch_add(1, std::sync::atomic::Ordering::Relaxed) % 2 == 1 {
                let cfg0 = Cfg::new(&fixed_opts(&self.layout_path, bits & !8, self.scratch.path()));
                let mut c = Ctx::new(&cfg0).expect("context");
                let _ = c.update(&cfg);
                c
            } else { Ctx::new(&cfg).expect("context") };
            self.ctxs.insert(bits, (cfg, ctx));
        }
        &mut self.ctxs.get_mut(&bits).unwrap().1
    }
    /// Runs the events on the implementation: (text, ongoing) after each event; the session is finished afterwards.
    pub fn run_impl(&mut self, bits: u32, evs: &[Ev]) -> Vec<(String, bool)> {
        let ctx = self.ctx(bits);
        let mut out = Vec::with_capacity(evs.len());
        for e in evs {
            let o = match e {
                Ev::Key(k, m) => ctx.key(*k, *m, 0),
                Ev::Back(c) => ctx.backspace(*c),
                Ev::Commit => ctx.commit(0),
                Ev::Finish => ctx.finish(),
            };
            let text = match o {
                Out::Single { text, .. } => text,
                Out::Full { aux, .. } => format!("<full:{}>", aux),
                Out::Unit => String::new(),
                Out::Panic(p) => format!("<panic:{}>", p),
            };
            let ongoing = ctx.ongoing();
            out.push((text, ongoing));
        }
        ctx.finish();
        if ctx.dead {
            self.ctxs.remove(&bits);
        }
        out
    }
    pub fn run_model(&mut self, bits: u32, evs: &[Ev]) -> Result<Vec<(String, bool)>, String> {
        let lay = if self.layout_path.ends_with("Probhat.json") { "p" } else { "s" };
        let req = format!("FO {} {} 0 {}", lay, bits, evs.iter().map(Ev::tok).collect::<Vec<_>>().join(" "));
        let r = self.model.ask(&req)?;
        Ok(r.split(' ').filter(|t| !t.is_empty()).map(|t| {
            let (a, b) = t.split_once('/').unwrap_or((t, "0"));
            (untok(a), b == "1")
        }).collect())
    }
    /// rule_table (C12 specification, with the C13 placement for the reph) on reading-order text
    pub fn spec12(&mut self, bits: u32, p: &str, v: &str) -> Result<String, String> {
        let key = (bits, p.to_string(), v.to_string());
        if let Some(r) = self.cache12.get(&key) {
            return Ok(r.clone());
        }
        let r = untok(&self.model.ask(&format!("S12 {} {} {}", bits, tok(p), tok(v)))?);
        if self.cache12.len() < 2_000_000 {
            self.cache12.insert(key, r.clone());
        }
        Ok(r)
    }
    /// (every hasanta follows a consonant, reph_spec p)
    pub fn spec13(&mut self, p: &str) -> Result<(bool, String), String> {
        if let Some(r) = self.cache13.get(p) {
            return Ok(r.clone());
        }
        let r = self.model.ask(&format!("S13 {}", tok(p)))?;
        let (wf, t) = r.split_once(' ').unwrap_or((&r, "e"));
        let r = (wf == "1", untok(t));
        if self.cache13.len() < 2_000_000 {
            self.cache13.insert(p.to_string(), r.clone());
        }
        Ok(r)
    }
}

pub fn describe(km: &KeyMap, evs: &[Ev]) -> Value {
    Value::Array(evs.iter().map(|e| match e {
        Ev::Key(k, m) => json!({"key": k, "modifier": m, "value": km.value(e)}),
        Ev::Back(c) => json!({"backspace": {"ctrl": c}}),
        Ev::Commit => json!("commit"),
        Ev::Finish => json!("finish"),
    }).collect())
}

/// Runs `n` items over all cores; each worker gets its own state and report.
pub fn par_items<W, F, G>(n: u64, mk: G, f: F) -> Report
where
    G: Fn(usize) -> W + Sync,
    F: Fn(&mut W, u64, &mut Report) + Sync,
{
    let nw = std::thread::available_parallelism().map(|x| x.get()).unwrap_or(8).min(16);
    let mut total = Report::default();
    std::thread::scope(|s| {
        let hs: Vec<_> = (0..nw).map(|w| {
            let mk = &mk;
            let f = &f;
            s.spawn(move || {
                crate::ffi::install_quiet_panic_hook();
                let mut st = mk(w);
                let mut rep = Report::default();
                let mut i = w as u64;
                while i < n {
                    f(&mut st, i, &mut rep);
                    i += nw as u64;
                }
                rep
            })
        }).collect();
        for h in hs {
            total.merge(h.join().expect("worker"));
        }
    });
    total
}

pub struct Setup {
    pub spec: Spec,
    pub km: KeyMap,
    pub layout_path: String,
}
pub fn setup(meta: &str, layout_path: &str) -> Setup {
    let spec = Spec::load(meta);
    let layout = load_layout(layout_path);
    let km = KeyMap::load(&spec, &layout);
    Setup { spec, km, layout_path: layout_path.into() }
}

/// Compares implementation and model event by event; records a difference.
pub fn compare(w: &mut Worker, km: &KeyMap, bits: u32, evs: &[Ev], imp: &[(String, bool)], rep: &mut Report, prop: &str) -> bool {
    match w.run_model(bits, evs) {
        Ok(m) => {
            if m.as_slice() != imp {
                let at = (0..imp.len().min(m.len())).find(|&i| m[i] != imp[i]).unwrap_or(imp.len().min(m.len()));
                rep.diff(json!({"what": format!("model and implementation differ ({} correspondence, fixed composition)", prop),
                    "replay_kind": "session", "initial": fx_initial_in(&w.layout_path, bits), "layout_file": w.layout_path, "options": opt_names(bits), "events": describe(km, evs), "first_difference_at_event": at,
                    "implementation": imp.iter().map(|(t, o)| json!([t, o])).collect::<Vec<_>>(),
                    "model": m.iter().map(|(t, o)| json!([t, o])).collect::<Vec<_>>()}));
                return false;
            }
            true
        }
        Err(e) => {
            rep.diff(json!({"what": "the model could not be evaluated", "error": e, "events": describe(km, evs)}));
            false
        }
    }
}

fn rep_values() -> Vec<&'static str> {
    vec!["ক", "র", "য", "্", "া", "ি", "ে", "ু", "ৄ", "ৌ", "ৗ", "অ", "ই", "ঁ", "(", "'", "।", "\u{200c}", "্র", "্য", "র্", "াঁ", "্\u{200c}", "ৗক", "১", "ং"]
}

fn nth_seq(mut idx: u64, base: usize, len: usize) -> Vec<usize> {
    let mut v = vec![0; len];
    for j in (0..len).rev() {
        v[j] = (idx % base as u64) as usize;
        idx /= base as u64;
    }
    v
}

// ------------------------------------------------------------------------------------------------ C12

pub fn c12(tier: &str, seed: u64, meta: &str) -> Report {
    let su = setup(meta, SYNTHETIC);
    let thorough = tier == "thorough";
    let nk = su.km.keys.len();
    let reps: Vec<usize> = rep_values().iter().map(|v| *su.km.by_value.get(*v).unwrap_or_else(|| panic!("no key for {:?}", v))).collect();
    let nr = reps.len();
    let deep = if thorough { 4 } else { 3 };
    let n_pairs = (nk * nk) as u64;
    let n_deep = (nr as u64).pow(deep as u32);
    let n_rand: u64 = if thorough { 60_000 } else { 4_000 };
    let per_bits = n_pairs + n_deep + n_rand;
    let total = 16 * per_bits;
    let km = &su.km;
    let mut rep = par_items(total, |_| Worker::new(SYNTHETIC), |w, i, rep| {
        let bits = (i / per_bits) as u32; // kar order off
        let j = i % per_bits;
        let evs: Vec<Ev> = if j < n_pairs {
            let (a, b) = ((j / nk as u64) as usize, (j % nk as u64) as usize);
            vec![Ev::Key(km.keys[a].0, km.keys[a].1), Ev::Key(km.keys[b].0, km.keys[b].1)]
        } else if j < n_pairs + n_deep {
            nth_seq(j - n_pairs, nr, deep).into_iter().map(|x| Ev::Key(km.keys[reps[x]].0, km.keys[reps[x]].1)).collect()
        } else {
            let mut rng = Rng::new(seed ^ (i.wrapping_mul(0x9E37)));
            let len = 5 + rng.below(26);
            (0..len).map(|_| {
                if rng.chance(1, 6) { Ev::Back(false) }
                else if rng.chance(2, 3) { let x = reps[rng.below(nr)]; Ev::Key(km.keys[x].0, km.keys[x].1) }
                else { let x = rng.below(nk); Ev::Key(km.keys[x].0, km.keys[x].1) }
            }).collect()
        };
        rep.evaluations += 1;
        let imp = w.run_impl(bits, &evs);
        compare(w, km, bits, &evs, &imp, rep, "C12");
        // monitor: the rule table applied to the implementation's own texts
        let mut before = String::new();
        let mut nontrivial = false;
        for (n, e) in evs.iter().enumerate() {
            let after = &imp[n].0;
            match e {
                Ev::Key(..) => {
                    let v = km.value(e).unwrap_or("");
                    let is_reph = v == REPH && bits & 8 != 0;
                    let expected = if is_reph {
                        match w.spec13(&before) { Ok((true, t)) => Some(t), Ok((false, _)) => None, Err(e) => { rep.diff(json!({"what": "specification could not be evaluated", "error": e})); None } }
                    } else {
                        match w.spec12(bits, &before, v) { Ok(t) => Some(t), Err(e) => { rep.diff(json!({"what": "specification could not be evaluated", "error": e})); None } }
                    };
                    if let Some(exp) = expected {
                        if *after != format!("{}{}", before, v) { nontrivial = true; }
                        if exp != *after {
                            rep.fail(json!({"what": if is_reph { "old-style reph placed differently from the rule (C13 clause used by C12)" } else { "a key did not rewrite the text as the documented rule table says" },
                                "layout_file": SYNTHETIC, "replay_kind": "session", "initial": fx_initial(bits), "options": opt_names(bits), "events": describe(km, &evs), "at_event": n,
                                "text_before": before, "key_value": v, "expected_text": exp, "implementation_text": after}));
                        }
                    }
                    if !after.is_empty() && !imp[n].1 {
                        rep.fail(json!({"what": "non-empty pre-edit text but no ongoing session", "options": opt_names(bits), "events": describe(km, &evs), "at_event": n}));
                    }
                }
                Ev::Back(false) => {
                    let mut exp = before.clone();
                    exp.pop();
                    if exp != *after {
                        rep.fail(json!({"what": "backspace did not remove exactly the last code point", "layout_file": SYNTHETIC, "options": opt_names(bits),
                            "events": describe(km, &evs), "at_event": n, "text_before": before, "expected_text": exp, "implementation_text": after}));
                    }
                }
                _ => {}
            }
            before = after.clone();
        }
        if nontrivial {
            rep.nontrivial_key(&format!("{} {:?}", bits, evs));
            if rep.samples.len() < 2 && i % 977 == 3 {
                rep.sample(json!({"options": opt_names(bits), "events": describe(km, &evs), "texts": imp.iter().map(|x| x.0.clone()).collect::<Vec<_>>()}));
            }
        }
    });
    rep.extra.insert("rule".into(), json!(format!("synthetic layout ({} valued keys): ALL ordered pairs of keys (exhaustive), all sequences of length {} over {} class-representative keys (exhaustive), {} random histories of 5-30 events with backspaces - each under all 16 settings of auto vowel / auto chandrabindu / traditional joining / old reph (old vowel-sign order off); non-trivial = some key did more than append its value; distinct by (options, history)", nk, deep, nr, n_rand)));
    rep.extra.insert("exhaustive".into(), json!(true));
    rep.extra.insert("streams".into(), json!({"pairs": 16 * n_pairs, "deep": 16 * n_deep, "random": 16 * n_rand}));
    rep
}

// ------------------------------------------------------------------------------------------------ C13

fn is_reph_insertion(before: &str, after: &str) -> bool {
    let b: Vec<char> = before.chars().collect();
    let a: Vec<char> = after.chars().collect();
    if a.len() != b.len() + 2 {
        return false;
    }
    (0..=b.len()).any(|j| a[..j] == b[..j] && a[j] == '\u{09B0}' && a[j + 1] == '\u{09CD}' && a[j + 2..] == b[j..])
}

pub fn c13(tier: &str, seed: u64, meta: &str) -> Report {
    let su = setup(meta, SYNTHETIC);
    let thorough = tier == "thorough";
    let km = &su.km;
    let alpha: Vec<usize> = ["ক", "ত", "র", "্", "া", "ি", "ই", "ঁ", "(", "।", "\u{200c}", "্র", "্য", "ং", "ক্ষ"].iter().map(|v| km.by_value[*v]).collect();
    let na = alpha.len() as u64;
    let maxlen = if thorough { 6 } else { 4 };
    // counts per length 0..=maxlen
    let mut offs = vec![0u64];
    for l in 0..=maxlen { offs.push(offs[l] + na.pow(l as u32)); }
    let n_exh = offs[maxlen + 1];
    let n_rand: u64 = if thorough { 200_000 } else { 20_000 };
    let per = n_exh + n_rand;
    // option sets: bits with old_reph (8) on; the 16 settings of the other four; plus reph off with the 16 others on a sample
    let total = 32 * per;
    let reph_key = km.key(REPH);
    let nk = km.keys.len();
    let mut rep = par_items(total, |_| Worker::new(SYNTHETIC), |w, i, rep| {
        let oi = (i / per) as u32; // 0..32
        let others = oi & 15;
        let reph_on = oi < 16;
        let bits = (others & 7) | (if reph_on { 8 } else { 0 }) | ((others >> 3) << 4);
        let j = i % per;
        if !reph_on && j % 8 != 0 { return; } // the option-off clause needs fewer cases
        let mut evs: Vec<Ev> = if j < n_exh {
            let l = (0..=maxlen).find(|&l| j < offs[l + 1]).unwrap();
            nth_seq(j - offs[l], na as usize, l).into_iter().map(|x| Ev::Key(km.keys[alpha[x]].0, km.keys[alpha[x]].1)).collect()
        } else {
            let mut rng = Rng::new(seed ^ i.wrapping_mul(0x51ED));
            let len = 3 + rng.below(12);
            (0..len).map(|_| {
                if rng.chance(1, 12) { Ev::Back(false) }
                else if rng.chance(5, 6) { let x = alpha[rng.below(na as usize)]; Ev::Key(km.keys[x].0, km.keys[x].1) }
                else { let x = rng.below(nk); Ev::Key(km.keys[x].0, km.keys[x].1) }
            }).collect()
        };
        evs.push(reph_key.clone());
        rep.evaluations += 1;
        let imp = w.run_impl(bits, &evs);
        compare(w, km, bits, &evs, &imp, rep, "C13");
        let n = evs.len() - 1;
        let before = if n == 0 { String::new() } else { imp[n - 1].0.clone() };
        let after = imp[n].0.clone();
        let info = |what: &str, exp: Option<&str>| json!({"what": what, "layout_file": SYNTHETIC, "replay_kind": "session", "initial": fx_initial(bits), "options": opt_names(bits), "events": describe(km, &evs),
            "text_before_reph_key": before, "implementation_text": after, "expected_text": exp});
        if reph_on {
            if !is_reph_insertion(&before, &after) {
                rep.fail(info("the reph key did not insert exactly the reph at one position (conservation)", None));
            }
            match w.spec13(&before) {
                Ok((true, exp)) => {
                    if exp != after { rep.fail(info("the reph was not placed immediately before the final conjunct / at the end (placement)", Some(&exp))); }
                    if exp != format!("{}{}", before, REPH) {
                        rep.nontrivial_key(&format!("{} {}", bits, before));
                        if rep.samples.len() < 2 && i % 4001 == 7 { rep.sample(info("sample (reph moved)", Some(&exp))); }
                    }
                }
                Ok((false, _)) => {}
                Err(e) => rep.diff(json!({"what": "specification could not be evaluated", "error": e})),
            }
        } else {
            let exp = format!("{}{}", before, REPH);
            if exp != after { rep.fail(info("with old-style reph off the reph key did not simply append its value", Some(&exp))); }
        }
        if !after.is_empty() && !imp[n].1 { rep.fail(info("non-empty pre-edit text but no ongoing session", None)); }
    });
    rep.extra.insert("rule".into(), json!(format!("texts built by ALL key histories of length 0..{} over {} class keys (consonants, ra, hasanta, signs, independent vowel, chandrabindu, ASCII and Bengali punctuation, ZWNJ, ro-/zo-fola, anusvara, a conjunct key) plus {} random histories (with backspaces and arbitrary keys), then the reph key; old-style reph on under all 16 settings of the other four helpers (incl. old vowel-sign order with a waiting sign), and off on an eighth of the cases; non-trivial = the reph was moved in front of a conjunct; distinct by (options, text)", maxlen, na, n_rand)));
    rep.extra.insert("exhaustive".into(), json!(true));
    rep
}

// ------------------------------------------------------------------------------------------------ C14

#[derive(Clone, Debug)]
pub struct Syl {
    pub onset: Vec<&'static str>, // key values of the onset, in order (empty for vowels / punctuation)
    pub sign: Option<&'static str>,
    pub chandra: bool,
    pub other: Option<&'static str>, // independent vowel or punctuation
}

fn onsets() -> Vec<Vec<&'static str>> {
    let c = ["ক", "ত", "র"];
    let mut v: Vec<Vec<&'static str>> = Vec::new();
    for a in c { v.push(vec![a]); }
    for a in c { for b in c { v.push(vec![a, "্", b]); } }
    for a in c { v.push(vec![a, "্র"]); v.push(vec![a, "্য"]); }
    for a in ["ক", "র"] { v.push(vec![a, "্", "ত", "্র"]); v.push(vec![a, "্", "ত", "্য"]); v.push(vec![a, "্র", "্য"]); v.push(vec![a, "্", "ত", "্", "র"]); }
    v.push(vec!["ক্ষ"]);
    v.push(vec!["ক্ষ", "্", "ত"]);
    v
}
const SIGNS: [&str; 11] = ["া", "ি", "ী", "ু", "ৃ", "ে", "ৈ", "ো", "ৌ", "ৌ2", "ৄ"];

pub fn syllables() -> Vec<Syl> {
    let mut v = Vec::new();
    for o in onsets() {
        for ch in [false, true] {
            v.push(Syl { onset: o.clone(), sign: None, chandra: ch, other: None });
            for s in SIGNS { v.push(Syl { onset: o.clone(), sign: Some(s), chandra: ch, other: None }); }
        }
    }
    for x in ["অ", "ই"] { for ch in [false, true] { v.push(Syl { onset: vec![], sign: None, chandra: ch, other: Some(x) }); } }
    for x in ["।", "(", "১"] { v.push(Syl { onset: vec![], sign: None, chandra: false, other: Some(x) }); }
    v
}

impl Syl {
    pub fn unicode(&self) -> Vec<&'static str> {
        let mut k = Vec::new();
        if let Some(x) = self.other { k.push(x); }
        k.extend(self.onset.iter().copied());
        if let Some(s) = self.sign { k.push(if s == "ৌ2" { "ৌ" } else { s }); }
        if self.chandra { k.push("ঁ"); }
        k
    }
    pub fn typewriter(&self) -> Vec<&'static str> {
        let mut k = Vec::new();
        if let Some(x) = self.other { k.push(x); }
        let (pre, post): (Option<&'static str>, Option<&'static str>) = match self.sign {
            Some("ি") => (Some("ি"), None),
            Some("ে") => (Some("ে"), None),
            Some("ৈ") => (Some("ৈ"), None),
            Some("ো") => (Some("ে"), Some("া")),
            Some("ৌ") => (Some("ে"), Some("ৌ")),
            Some("ৌ2") => (Some("ে"), Some("ৗ")),
            Some(s) => (None, Some(s)),
            None => (None, None),
        };
        if let Some(p) = pre { k.push(p); }
        k.extend(self.onset.iter().copied());
        if let Some(p) = post { k.push(p); }
        if self.chandra { k.push("ঁ"); }
        k
    }
    pub fn has_left_sign(&self) -> bool {
        matches!(self.sign, Some("ি") | Some("ে") | Some("ৈ") | Some("ো") | Some("ৌ") | Some("ৌ2"))
    }
}

pub fn c14(tier: &str, seed: u64, meta: &str) -> Report {
    // the synthetic layout has a key for every value of the inventory; the bundled Probhat layout is typed through
    // its own keys with the part of the inventory it can type (no fola / conjunct keys)
    let mut rep = c14_pass(tier, seed, meta, SYNTHETIC);
    let r2 = c14_pass(tier, seed, meta, crate::ph::PROBHAT);
    let rule = format!("{} || bundled Probhat layout: {}", rep.extra.get("rule").and_then(|v| v.as_str()).unwrap_or(""), r2.extra.get("rule").and_then(|v| v.as_str()).unwrap_or(""));
    rep.merge(r2);
    rep.extra.insert("rule".into(), json!(rule));
    rep
}

fn c14_pass(tier: &str, seed: u64, meta: &str, layout: &'static str) -> Report {
    let su = setup(meta, layout);
    let thorough = tier == "thorough";
    let km = &su.km;
    let syl: Vec<Syl> = syllables().into_iter().filter(|s| s.unicode().iter().chain(s.typewriter().iter()).all(|v| km.has(v))).collect();
    let ns = syl.len() as u64;
    // reduced inventory for the second/third syllable
    let small: Vec<usize> = (0..syl.len()).filter(|&i| {
        let s = &syl[i];
        (s.onset.len() <= 3 && matches!(s.onset.first(), Some(&"ক") | Some(&"র") | None) && !s.chandra
            && matches!(s.sign, None | Some("ি") | Some("ে") | Some("ো") | Some("া") | Some("ু")))
            || s.other.is_some()
    }).collect();
    let nsm = small.len() as u64;
    let n1 = ns;
    let n2 = ns * nsm;
    let n3: u64 = if layout != SYNTHETIC { if thorough { 40_000 } else { 4_000 } } else if thorough { 400_000 } else { 30_000 };
    let per = n1 + n2 + n3;
    let total = 16 * per;
    let mut rep = par_items(total, |_| Worker::new(layout), |w, i, rep| {
        let others = (i / per) as u32; // vowel, chandra, kar, old_reph
        let j = i % per;
        let word: Vec<&Syl> = if j < n1 { vec![&syl[j as usize]] }
            else if j < n1 + n2 { let x = j - n1; vec![&syl[(x / nsm) as usize], &syl[small[(x % nsm) as usize]]] }
            else {
                let mut rng = Rng::new(seed ^ i.wrapping_mul(0xC14));
                let len = 3 + rng.below(3);
                (0..len).map(|_| if rng.chance(1, 2) { &syl[small[rng.below(nsm as usize)]] } else { &syl[rng.below(ns as usize)] }).collect()
            };
        let uni: Vec<Ev> = word.iter().flat_map(|s| s.unicode()).map(|v| km.key(v)).collect();
        let typ: Vec<Ev> = word.iter().flat_map(|s| s.typewriter()).map(|v| km.key(v)).collect();
        let bits_off = others;
        let bits_on = others | 16;
        rep.evaluations += 1;
        let imp_u = w.run_impl(bits_off, &uni);
        let imp_t = w.run_impl(bits_on, &typ);
        compare(w, km, bits_off, &uni, &imp_u, rep, "C14");
        compare(w, km, bits_on, &typ, &imp_t, rep, "C14");
        let tu = imp_u.last().map(|x| x.0.clone()).unwrap_or_default();
        let tt = imp_t.last().map(|x| x.0.clone()).unwrap_or_default();
        let wordj = || json!(word.iter().map(|s| s.unicode().concat()).collect::<Vec<_>>());
        if tu != tt {
            rep.fail(json!({"what": "typewriter-order typing with old vowel-sign order on gave a different text than Unicode-order typing with it off",
                "layout_file": layout, "other_options": opt_names(others), "syllables": wordj(),
                "typewriter_events": describe(km, &typ), "unicode_events": describe(km, &uni), "typewriter_text": tt, "unicode_text": tu}));
        }
        if word.iter().any(|s| s.has_left_sign()) {
            rep.nontrivial_key(&format!("{} {:?}", others, typ));
            if rep.samples.len() < 2 && i % 1999 == 5 {
                rep.sample(json!({"other_options": opt_names(others), "syllables": wordj(), "typewriter_values": word.iter().flat_map(|s| s.typewriter()).collect::<Vec<_>>(), "text": tt}));
            }
        }
        // the waiting sign: not shown, ongoing, discarded by one backspace
        if j < n1 + n2 {
            let last = word[word.len() - 1];
            if last.has_left_sign() {
                let prefix: Vec<Ev> = word[..word.len() - 1].iter().flat_map(|s| s.typewriter()).map(|v| km.key(v)).collect();
                let sign_key = km.key(last.typewriter()[0]);
                let mut h = prefix.clone();
                h.push(sign_key);
                h.push(Ev::Back(false));
                let mut nosign = last.clone();
                nosign.sign = None;
                let rest: Vec<Ev> = nosign.typewriter().into_iter().map(|v| km.key(v)).collect();
                h.extend(rest.iter().cloned());
                let imp = w.run_impl(bits_on, &h);
                compare(w, km, bits_on, &h, &imp, rep, "C14");
                let np = prefix.len();
                let before = if np == 0 { String::new() } else { imp[np - 1].0.clone() };
                let mut expect_word: Vec<Syl> = word[..word.len() - 1].iter().map(|s| (*s).clone()).collect();
                expect_word.push(nosign);
                let uni2: Vec<Ev> = expect_word.iter().flat_map(|s| s.unicode()).map(|v| km.key(v)).collect();
                let imp2 = w.run_impl(bits_off, &uni2);
                let want = imp2.last().map(|x| x.0.clone()).unwrap_or_default();
                let got = imp.last().map(|x| x.0.clone()).unwrap_or_default();
                let bad = if imp[np].0 != before { Some("a sign waiting for its consonant is shown in (or changes) the pre-edit text") }
                    else if !imp[np].1 { Some("a sign waiting for its consonant does not count as an ongoing session") }
                    else if imp[np + 1].0 != before || imp[np + 1].1 != !before.is_empty() { Some("one backspace did not discard the waiting sign (text or session flag differs from before the sign)") }
                    else if got != want { Some("after discarding the waiting sign by backspace the rest of the word composes differently") }
                    else { None };
                if let Some(what) = bad {
                    rep.fail(json!({"what": what, "layout_file": layout, "other_options": opt_names(others), "events": describe(km, &h),
                        "observed": imp.iter().map(|(t, o)| json!([t, o])).collect::<Vec<_>>(), "expected_final_text": want}));
                }
                // the sign waits again after "consonant + hasanta" (it belongs to the whole conjunct): one backspace there
                // discards it as well, the text stays, and the rest composes like the syllable without a sign
                if last.onset.len() >= 3 && last.onset[1] == "্" {
                    let mut h2 = prefix.clone();
                    h2.push(km.key(last.typewriter()[0]));
                    h2.push(km.key(last.onset[0]));
                    h2.push(km.key("্"));
                    let nb = h2.len();
                    h2.push(Ev::Back(false));
                    for v in &last.onset[2..] { h2.push(km.key(v)); }
                    if last.chandra { h2.push(km.key("ঁ")); }
                    let imp3 = w.run_impl(bits_on, &h2);
                    compare(w, km, bits_on, &h2, &imp3, rep, "C14");
                    let got3 = imp3.last().map(|x| x.0.clone()).unwrap_or_default();
                    let bad3 = if !imp3[nb - 1].1 { Some("a sign waiting for the rest of its conjunct does not count as an ongoing session") }
                        else if imp3[nb].0 != imp3[nb - 1].0 || !imp3[nb].1 { Some("one backspace did not discard the sign waiting after consonant + hasanta (the text changed or the session ended)") }
                        else if got3 != want { Some("after discarding the sign waiting after consonant + hasanta the rest of the word composes differently") }
                        else { None };
                    if let Some(what) = bad3 {
                        rep.fail(json!({"what": what, "layout_file": layout, "other_options": opt_names(others), "events": describe(km, &h2),
                            "observed": imp3.iter().map(|(t, o)| json!([t, o])).collect::<Vec<_>>(), "expected_final_text": want}));
                    }
                }
            }
        }
    });
    rep.extra.insert("rule".into(), json!(format!("words over {} syllables (onsets: consonant, conjunct via hasanta, ro-fola, zo-fola up to depth 3, a conjunct key; 11 signs incl. both spellings of the AU sign; chandrabindu; independent vowels; punctuation): all 1-syllable words, all 2-syllable words with the second from a reduced inventory of {} (exhaustive), {} random words of 3-5 syllables; each under all 16 settings of the other helpers, typed in typewriter order with the option on and in Unicode order with it off; non-trivial = the word has a left-standing or two-part sign", ns, nsm, n3)));
    rep.extra.insert("exhaustive".into(), json!(true));
    rep
}
