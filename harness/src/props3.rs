//! Property streams C10, C11, C01.
#![allow(dead_code)]
use crate::ffi::*;
use crate::fx::par_items;
use crate::model::*;
use crate::ph::*;
use crate::props::*;
use crate::sess::*;
use crate::util::*;
use serde_json::{json, Value};
use std::collections::HashMap;

// ------------------------------------------------------------------------------------------------ C10

fn malformed_corpus() -> Vec<Vec<u8>> {
    let mut v: Vec<Vec<u8>> = vec![
        b"".to_vec(), b"{".to_vec(), b"{\"".to_vec(), b"{}".to_vec(), b"[]".to_vec(), b"null".to_vec(), b"\"text\"".to_vec(), b"42".to_vec(),
        b"[1,2,3]".to_vec(), b"{\"a\":1}".to_vec(), b"{\"a\":null}".to_vec(), b"{\"a\":{\"b\":\"c\"}}".to_vec(), b"{\"a\":[\"b\"]}".to_vec(),
        b"{\"ami\":\"\"}".to_vec(), b"{\"\":\"x\"}".to_vec(), b"{\"ami\":\"\",\"tumi\":\"\xe0\xa6\xa4\xe0\xa7\x81\xe0\xa6\xae\xe0\xa6\xbf\"}".to_vec(),
        b"{\"ami\":\"x\",}".to_vec(), b"{\"ami\" \"x\"}".to_vec(), b"{'ami':'x'}".to_vec(), b"\xef\xbb\xbf{}".to_vec(), b"\xff\xfe\x00".to_vec(), b"{\"ami\":\"\\ud800\"}".to_vec(),
        b"{\"ami\":\"x\"}{\"b\":\"y\"}".to_vec(), b"   ".to_vec(), b"\n".to_vec(), b"{\"a\":\"b\"".to_vec(), b"{\"a\":\"b".to_vec(), b"{\"a\":".to_vec(), b"{\"a\"".to_vec(),
        b"{\"ami\":\"a\\u0000mi\"}".to_vec(), b"{\"ami\":\"\\u0000\",\"desh\":\"d\\u0000\"}".to_vec(),
        b"{\"ami\":\"\",\"desh\":\"\",\"sesh\":\"\"}".to_vec(), b"true".to_vec(), b"{\"a\":true}".to_vec(), b"{\"a\":\"b\",\"a\":\"c\"}".to_vec(),
    ];
    let big = format!("{{{}}}", (0..300).map(|i| format!("\"k{}\":\"v{}\"", i, i)).collect::<Vec<_>>().join(","));
    v.push(big.into_bytes());
    v
}

pub fn c10(tier: &str, seed: u64, meta: &str) -> Report {
    let p = Pools::load(meta);
    let thorough = tier == "thorough";
    let pr = &p;
    // a store the engine itself writes, for the crash-point prefixes
    let store: Map = vec![("ami".into(), "আমই".into()), ("desh".into(), "দেস".into()), ("sesh".into(), "শেষ".into()), ("kotha".into(), "কোথা".into())];
    // ... and two stores with long Bengali values behind keys of other lengths: whatever byte offset a reader
    // might pick falls inside a three-byte character in at least one of the three alignments
    let long: String = "আমাদেরসকলেরজন্যএকটিদীর্ঘশব্দ".into();
    let store2: Map = vec![("am".into(), long.clone()), ("tumi".into(), "তুমই".into())];
    let store3: Map = vec![("a".into(), long.clone()), ("amader".into(), "আমাদের".into()), ("tumi".into(), "তুমি".into())];
    let stores: Vec<Vec<u8>> = vec![map_json(&store).into_bytes(), map_json(&store2).into_bytes(), map_json(&store3).into_bytes()];
    let prefixes: Vec<Vec<u8>> = stores.iter().flat_map(|b| (0..=b.len()).map(move |j| b[..j].to_vec())).collect();
    let store_bytes = map_json(&store).into_bytes();
    let corpus = malformed_corpus();
    let n_prefix = prefixes.len() as u64;
    let prefixes = &prefixes;
    let n_corpus = corpus.len() as u64;
    // cases: which file x content ; plus directory faults
    let total0 = 2 * (n_prefix + n_corpus) + if thorough { 400 } else { 60 };
    let total = total0 + 8;
    let (store_bytes, corpus) = (&store_bytes, &corpus);
    let mut rep = par_items(total, |_| Worker2::new(pr.data.clone()), |w, i, rep| {
        let mut rng = Rng::new(seed ^ i.wrapping_mul(0xC10));
        if i >= total0 {
            // the user-data directory is there (with an auto-correct list) when the context is built and cannot be
            // opened later (a regular file sits at its path / it is gone): update_engine treats the list as absent
            let bits = [2u32, 3, 10, 11][(i % 4) as usize];
            let mut o = Opts::phonetic(&std::path::PathBuf::from("/nonexistent"));
            set_pbits(&mut o, bits);
            let uac: Map = vec![("ami".into(), "tumi".into()), ("jhal".into(), "bhalO".into())];
            let mut s = match Session::new(w, o.clone(), Some(&uac), None, "c10d") { Ok(s) => s, Err(e) => { rep.fail(json!({"what": "creating a context panicked", "panic": e})); return; } };
            let mut reference = match Session::new(w, o, None, None, "c10e") { Ok(s) => s, Err(_) => return };
            let mut evs = pr.key_events("ami", 0); evs.push(SEv::Finish);
            feed(w, &mut s, &evs, rep, "C10");
            let dir = s.opts.user_dir();
            let _ = std::fs::remove_dir_all(&dir);
            if (i - total0) / 4 == 0 { let _ = std::fs::write(&dir, b"not a directory"); }
            feed(w, &mut s, &[SEv::Update(bits, UacEdit::Keep)], rep, "C10");
            rep.evaluations += 1;
            for t in ["ami", "jhal", "amir"] {
                let mut evs = pr.key_events(t, 0); evs.push(SEv::Finish);
                let a = feed(w, &mut s, &evs, rep, "C10");
                let b = feed(w, &mut reference, &evs, rep, "C10");
                if let Some((x, y)) = a.iter().zip(b.iter()).find(|(x, y)| x.imp != y.imp) {
                    rep.fail(json!({"what": "the user-data directory became unreadable after the context was built; after update_engine the old auto-correct entries are still in force (not treated as absent)",
                        "directory_now": if (i - total0) / 4 == 0 { "a regular file" } else { "removed" }, "typed": t, "option_bits": bits,
                        "with_unreadable_directory": explain(&x.imp), "without_the_file": explain(&y.imp), "session": s.describe()}));
                    break;
                }
            }
            return;
        }
        let k = 2 * (n_prefix + n_corpus);
        let (which, content, dir_fault): (&str, Option<Vec<u8>>, &str) = if i < k {
            let j = i / 2;
            let bytes = if j < n_prefix { prefixes[j as usize].clone() } else { corpus[(j - n_prefix) as usize].clone() };
            (if i % 2 == 0 { "selections" } else { "autocorrect" }, Some(bytes), "ok")
        } else {
            ("none", None, ["missing", "file", "blocked"][(i % 3) as usize])
        };
        let bits = [2u32, 3, 10, 0][rng.below(4)];
        let home = std::path::PathBuf::from("/nonexistent");
        let mut o = Opts::phonetic(&home);
        set_pbits(&mut o, bits);
        let (uacb, selb): (Option<&[u8]>, Option<&[u8]>) = match which { "selections" => (None, content.as_deref()), "autocorrect" => (content.as_deref(), None), _ => (None, None) };
        let describe = |what: &str, extra: Value| json!({"what": what, "faulty_file": which, "content": content.as_ref().map(|b| String::from_utf8_lossy(b).to_string()), "directory": dir_fault, "option_bits": bits, "details": extra});
        rep.evaluations += 1;
        let mut s = match Session::new_faulty(w, o.clone(), uacb, selb, dir_fault, "c10") {
            Ok(s) => s,
            Err(e) => { rep.fail(describe("creating a context panicked with a damaged or missing user file", json!({"panic": e}))); return; }
        };
        // the same odd entries seen through the exported C functions (a front-end reads every candidate and its pre-edit
        // text there; a panic inside an extern "C" function aborts the process, which the check reports as a crash)
        if which == "autocorrect" && dir_fault == "ok" {
            unsafe {
                use crate::ffi::*;
                let cx = riti_context_new_with_config(s.cfg.0);
                for t in ["ami", "desh"] {
                    for e in pr.key_events(t, 0) {
                        if let SEv::Key(k, _, _) = e {
                            let sg = riti_get_suggestion_for_key(cx, k, 0, 0);
                            if !riti_suggestion_is_lonely(sg) {
                                for ix in 0..riti_suggestion_get_length(sg) {
                                    riti_string_free(riti_suggestion_get_suggestion(sg, ix));
                                    riti_string_free(riti_suggestion_get_pre_edit_text(sg, ix));
                                }
                            } else { riti_string_free(riti_suggestion_get_pre_edit_text(sg, 0)); }
                            riti_suggestion_free(sg);
                        }
                    }
                    riti_context_finish_input_session(cx);
                }
                riti_context_free(cx);
            }
        }
        // reference: the same file absent (only when the content cannot be parsed)
        let unparsable = content.as_ref().map(|b| parse_map(b).is_none()).unwrap_or(false);
        let mut reference = if unparsable && dir_fault == "ok" { Session::new_faulty(w, o.clone(), None, None, "ok", "c10r").ok() } else { None };
        let mut words: Vec<String> = vec!["amir".into(), "ami".into(), "deshe".into(), "sesh".into(), "kothagulo".into(), "tumi".into(), "k0r".into()];
        words.extend(word_pool(pr, &mut rng, 4));
        let mut evs: Vec<SEv> = Vec::new();
        for (n, t) in words.iter().enumerate() {
            if !pr.typeable(t) { continue; }
            evs.extend(pr.key_events(t, 0));
            evs.push(match n % 4 { 0 => SEv::Commit(1), 1 => SEv::Commit(0), 2 => SEv::Finish, _ => SEv::Commit(2) });
            if n == 2 { evs.push(SEv::Update(bits, UacEdit::Raw(if rng.chance(1, 2) { b"{".to_vec() } else { corpus[rng.below(corpus.len())].clone() }))); }
            if n == 4 { evs.push(SEv::Restart); }
            if n == 5 { evs.push(SEv::Update(bits ^ 1, UacEdit::Write(vec![("tumi".into(), "tomi".into())]))); }
        }
        // commit indices must be inside the list: clamp while feeding
        let mut last_len = 1usize;
        for e in evs {
            let e = match e { SEv::Commit(ix) => SEv::Commit(ix.min(last_len.saturating_sub(1))), x => x };
            let st = feed(w, &mut s, &[e.clone()], rep, "C10").pop().unwrap();
            if let Out::Panic(pn) = &st.out { rep.fail(describe("an event panicked in a context created over a damaged or missing user file", json!({"panic": pn, "session": s.describe()}))); return; }
            if let Out::Full { list, .. } = &st.out { last_len = list.len(); } else if !matches!(e, SEv::Key(..) | SEv::Back(_)) { last_len = 1; }
            if let Some(r) = reference.as_mut() {
                let sr = feed(w, r, &[e.clone()], rep, "C10").pop().unwrap();
                if sr.imp != st.imp && !matches!(e, SEv::Update(..)) {
                    rep.fail(describe("unreadable content is not treated as if the file were absent (outputs differ from a context without that file)", json!({"with_damaged_file": explain(&st.imp), "without_file": explain(&sr.imp), "session": s.describe()})));
                    reference = None;
                }
            }
        }
        // a failed save loses at most that one choice: in a context that cannot save, the choice is kept in memory
        if dir_fault != "ok" {
            let st = feed(w, &mut s, &pr.key_events("bhasha", 0), rep, "C10");
            if let Some((_, list, sel)) = last_full(&st) {
                if list.len() > 1 {
                    let c = (sel + 1) % list.len();
                    let chosen = list[c].clone();
                    feed(w, &mut s, &[SEv::Commit(c)], rep, "C10");
                    let st2 = feed(w, &mut s, &pr.key_events("bhasha", 0), rep, "C10");
                    if let Some((_, l2, s2)) = last_full(&st2) { if l2.get(s2) != Some(&chosen) { rep.fail(describe("after a failed save the learned choice is not even kept in memory", json!({"chosen": chosen, "candidates": l2, "preselected": s2}))); } }
                    feed(w, &mut s, &[SEv::Finish], rep, "C10");
                    // a second failed save (another word) costs that choice at most: the first one is still known
                    let st3 = feed(w, &mut s, &pr.key_events("sesh", 0), rep, "C10");
                    if let Some((_, l3, s3)) = last_full(&st3) {
                        if l3.len() > 1 {
                            feed(w, &mut s, &[SEv::Commit((s3 + 1) % l3.len())], rep, "C10");
                            let st4 = feed(w, &mut s, &pr.key_events("bhasha", 0), rep, "C10");
                            if let Some((_, l4, s4)) = last_full(&st4) {
                                if l4.get(s4) != Some(&chosen) { rep.fail(describe("a second failed save (for another word) made the context forget the first learned choice", json!({"first_word": "bhasha", "chosen": chosen, "second_word": "sesh", "candidates": l4, "preselected": s4, "session": s.describe()}))); }
                            }
                            feed(w, &mut s, &[SEv::Finish], rep, "C10");
                        } else { feed(w, &mut s, &[SEv::Finish], rep, "C10"); }
                    }
                    // re-configuring the idle context (an option flip, same method) does not cost the unsaved choice either
                    // (the flip is relative to the options in force now - earlier updates of this case changed them; the smart-quote
                    // bit does not decide which candidates exist)
                    let now = pbits(&s.opts);
                    feed(w, &mut s, &[SEv::Update(now ^ 8, UacEdit::Keep)], rep, "C10");
                    let st5 = feed(w, &mut s, &pr.key_events("bhasha", 0), rep, "C10");
                    if let Some((_, l5, s5)) = last_full(&st5) {
                        if l5.get(s5).map(|x| crate::props::uncurl(x)) != Some(crate::props::uncurl(&chosen)) { rep.fail(describe("update_engine (an option flip) made the context forget a learned choice that could not be saved", json!({"word": "bhasha", "chosen": chosen, "candidates": l5, "preselected": s5, "session": s.describe()}))); }
                    }
                    feed(w, &mut s, &[SEv::Finish, SEv::Update(now, UacEdit::Keep)], rep, "C10");
                }
            }
            // the directory appears later (the front-end or the user makes it): the next learning commit is saved, and
            // a context started afterwards knows that choice - one failed save costs at most the choice it was about
            if dir_fault == "missing" {
                let _ = std::fs::create_dir_all(s.opts.user_dir());
                let st = feed(w, &mut s, &pr.key_events("kotha", 0), rep, "C10");
                if let Some((_, list, sel)) = last_full(&st) {
                    if list.len() > 1 {
                        let c = (sel + 1) % list.len();
                        let chosen = list[c].clone();
                        feed(w, &mut s, &[SEv::Commit(c), SEv::Restart], rep, "C10");
                        let st2 = feed(w, &mut s, &pr.key_events("kotha", 0), rep, "C10");
                        if let Some((_, l2, s2)) = last_full(&st2) {
                            if l2.get(s2) != Some(&chosen) {
                                rep.fail(describe("a save failed once (directory missing); after the directory was made, a later learned choice is still not saved (lost at restart)",
                                    json!({"chosen": chosen, "candidates_after_restart": l2, "preselected_after_restart": s2, "store_file": std::fs::read(s.sel_path()).ok().map(|b| String::from_utf8_lossy(&b).to_string()), "session": s.describe()})));
                            }
                        }
                        feed(w, &mut s, &[SEv::Finish], rep, "C10");
                    }
                }
            }
        }
        rep.nontrivial_key(&format!("{} {:?} {}", which, content, dir_fault));
        if rep.samples.len() < 2 && i % 37 == 5 { rep.sample(describe("sample (no panic, behaves as if absent)", json!({"events": s.history.len()}))); }
    });
    rep.extra.insert("rule".into(), json!(format!("fault states of the two optional user files: EVERY prefix of three stores the engine writes ({} bytes the first; keys of three lengths and long Bengali values, so that every byte offset falls inside a character in one of them; all crash points of the non-atomic save), a corpus of {} malformed / wrong-shape / empty-string documents (incl. files of 0, 1 and 2 bytes, BOM, duplicate keys, 300 entries, escaped NUL characters in values), each as the selection store and as the user auto-correct list; a user-data directory that is missing, occupied by a regular file, or missing below a regular file so that it cannot be made (the sandbox runs as root, so permission bits cannot make a directory read-only); a directory that is there when the context is built and unreadable at the next update_engine; for the missing directory also: the directory is made later, another choice is learned, the context restarted; each followed by typing (incl. stored key + known suffix), commits, a reload with a damaged auto-correct file, a restart and an option change; reference = the same events with the file absent", store_bytes.len(), n_corpus)));
    rep.extra.insert("exhaustive".into(), json!(true));
    rep
}

// ------------------------------------------------------------------------------------------------ C11

pub fn c11(tier: &str, seed: u64, meta: &str) -> Report {
    let fp = FixedPools::load(meta, PROBHAT);
    let thorough = tier == "thorough";
    let total: u64 = if thorough { 6000 } else { 900 };
    let fpr = &fp;
    let mut rep = par_items(total, |_| Worker2::new(fpr.p.data.clone()), |w, i, rep| {
        let mut rng = Rng::new(seed ^ i.wrapping_mul(0xC11));
        let kind = i % 6; // 0,1: phonetic option flips + user auto-correct edits; 2: phonetic -> fixed; 3: fixed -> phonetic; 4: fixed -> fixed (other layout); 5: fixed option flips
        let uac0: Map = vec![("jhal".into(), "bhalO".into()), ("kkk".into(), "kaka".into()), ("tst".into(), "TesT".into())];
        let home = std::path::PathBuf::from("/nonexistent");
        let start_phonetic = matches!(kind, 0 | 1 | 2);
        let mut o = if start_phonetic { Opts::phonetic(&home) } else { Opts::fixed(if kind == 4 && rng.chance(1, 2) { crate::fx::SYNTHETIC } else { PROBHAT }, &home) };
        if start_phonetic { set_pbits(&mut o, [2u32, 3, 10, 11, 0][rng.below(5)]); } else { set_xbits(&mut o, 64 | (rng.below(32) as u32) | ((rng.below(2) as u32) << 7) | ((rng.below(2) as u32) << 9)); }
        let mut s = match Session::new(w, o, Some(&uac0), None, "c11") { Ok(s) => s, Err(e) => { rep.diff(json!({"what": "context creation failed", "error": e})); return; } };
        let pword = |rng: &mut Rng| -> String { match rng.below(4) { 0 => "jhal".into(), 1 => format!("{}{}", rng.pick(&["jhal", "kkk", "tst"][..]), rng.pick(&["", "e", "ta", "gulo"][..])), 2 => rng.pick(&["ami", "desh", "sesh", "form"][..]).to_string(), _ => word_pool(&fpr.p, rng, 1).pop().unwrap_or_else(|| "ami".into()) } };
        let xword = |rng: &mut Rng, layout: &str| -> Vec<SEv> {
            let _ = layout;
            let base = rng.pick(&fpr.words).clone();
            let prefix: String = base.chars().take(1 + rng.below(base.chars().count().min(4))).collect();
            let mut k = fpr.keys_for(&prefix).unwrap_or_default();
            if rng.chance(1, 4) { k.push(SEv::Key(0x004C, 0, 0)); } // keypad 5
            k
        };
        // history before the update, ending idle
        for _ in 0..(1 + rng.below(4)) {
            let mut evs = if s.phonetic { let t = pword(&mut rng); if !fpr.p.typeable(&t) { continue; } fpr.p.key_events(&t, 0) } else { xword(&mut rng, &s.opts.layout) };
            evs.push(if rng.chance(1, 2) { SEv::Finish } else { SEv::Commit(0) });
            feed(w, &mut s, &evs, rep, "C11");
        }
        // (fixed method) a word whose dictionary completions depend on an option, typed before the update as well
        if !s.phonetic { if let Some(mut k) = fpr.keys_for("গর") { k.push(SEv::Finish); feed(w, &mut s, &k, rep, "C11"); } }
        // the update
        let upd: SEv = match kind {
            0 | 1 => {
                let edit = match rng.below(7) {
                    0 => UacEdit::Keep,
                    1 => UacEdit::Delete,
                    2 => UacEdit::Write(vec![("kkk".into(), "kaka".into()), ("tst".into(), "TesT".into())]), // entry removed
                    3 => UacEdit::Write(vec![("jhal".into(), "jhaal".into()), ("kkk".into(), "kaka".into()), ("ami".into(), "amra".into())]), // changed + added
                    5 => UacEdit::Replace(vec![("jhal".into(), "jhola".into()), ("tst".into(), "TesT".into())]), // saved as a new file and renamed over the old one
                    4 => UacEdit::Raw(b"{\"jhal\": \"jha".to_vec()), // cut off in the middle of a save: an empty list for a new context
                    _ => UacEdit::Write(vec![]),
                };
                // now and then the edit is met by an update that has the candidate list off, and the list is switched on by a
                // second update without a further edit (the edit has to be honoured then, not marked as seen and dropped)
                if rng.chance(1, 4) && !matches!(edit, UacEdit::Keep) {
                    feed(w, &mut s, &[SEv::Update([0u32, 1, 8][rng.below(3)], edit)], rep, "C11");
                    SEv::Update([2u32, 3, 10, 11][rng.below(4)], UacEdit::Keep)
                } else {
                SEv::Update([2u32, 3, 10, 11, 6, 0][rng.below(6)], edit)
                }
            }
            2 if rng.chance(1, 2) => {
                // a round trip: phonetic -> fixed, the user's auto-correct file edited while the fixed layout is active,
                // then back to phonetic (a method object kept from before must not come back stale)
                let pb = pbits(&s.opts);
                feed(w, &mut s, &[SEv::UpdateLayout(PROBHAT.into(), 64 | 128)], rep, "C11");
                if let Some(k) = fpr.keys_for("কা") { let mut k = k; k.push(SEv::Finish); feed(w, &mut s, &k, rep, "C11"); }
                feed(w, &mut s, &[SEv::Update(64 | 128, UacEdit::Write(vec![("jhal".into(), "jhaal".into()), ("hlp".into(), "help".into())]))], rep, "C11");
                SEv::UpdateLayout(PHONETIC.into(), pb | 2)
            }
            2 => SEv::UpdateLayout(if rng.chance(1, 2) { PROBHAT.into() } else { crate::fx::SYNTHETIC.into() }, 64 | (rng.below(32) as u32) | ((rng.below(2) as u32) << 7)),
            3 => SEv::UpdateLayout(PHONETIC.into(), [2u32, 3, 10][rng.below(3)]),
            4 => {
                if rng.chance(1, 4) {
                    // two layout files in one directory whose names differ in letter case only
                    let d = s.opts.user_home.join("layouts2");
                    let _ = std::fs::create_dir_all(&d);
                    let src = std::fs::read_to_string(PROBHAT).unwrap_or_default();
                    let first = d.join("Probhat.json");
                    let _ = std::fs::write(&first, &src);
                    let mut v: Value = serde_json::from_str(&src).unwrap_or(json!({}));
                    v["layout"]["Key_k_Normal"] = json!("ঘ");
                    v["layout"]["Key_a_Normal"] = json!("ৌ");
                    let second = d.join("probhat.json");
                    let _ = std::fs::write(&second, v.to_string());
                    let b = xbits(&s.opts);
                    feed(w, &mut s, &[SEv::UpdateLayout(first.to_string_lossy().to_string(), b)], rep, "C11");
                    SEv::UpdateLayout(second.to_string_lossy().to_string(), b)
                } else if rng.chance(1, 3) {
                    // a different layout file with the same file name in another directory
                    let d = s.opts.user_home.join("layouts");
                    let _ = std::fs::create_dir_all(&d);
                    let src = std::fs::read_to_string(PROBHAT).unwrap_or_default();
                    let mut v: Value = serde_json::from_str(&src).unwrap_or(json!({}));
                    v["layout"]["Key_k_Normal"] = json!("থ");
                    v["layout"]["Key_a_Normal"] = json!("ো");
                    let path = d.join("Probhat.json");
                    let _ = std::fs::write(&path, v.to_string());
                    SEv::UpdateLayout(path.to_string_lossy().to_string(), xbits(&s.opts))
                } else {
                    let other = if s.opts.layout == PROBHAT { crate::fx::SYNTHETIC } else { PROBHAT };
                    SEv::UpdateLayout(other.into(), 64 | (rng.below(32) as u32) | ((rng.below(2) as u32) << 7))
                }
            }
            _ => SEv::Update(((xbits(&s.opts) ^ (1 << rng.below(10))) | 64) & !0, UacEdit::Keep),
        };
        if let SEv::UpdateLayout(l, _) = &upd { if *l == s.opts.layout { return; } }
        feed(w, &mut s, &[upd.clone()], rep, "C11");
        rep.evaluations += 1;
        // fresh context with the new configuration over the same user files
        let mut fresh = match Session::new_beside(w, &s, "c11f") { Ok(f) => f, Err(e) => { rep.fail(json!({"what": "a fresh context cannot be created with the new configuration", "error": e, "session": s.describe()})); return; } };
        if s.layout_tag == "?" { fresh.model_dead = true; }
        for n in 0..(2 + rng.below(3)) {
            let mut evs = if s.phonetic { let t = if n == 0 { "jhal".to_string() } else { pword(&mut rng) }; if !fpr.p.typeable(&t) { continue; } fpr.p.key_events(&t, 0) }
                else { let mut k = xword(&mut rng, &s.opts.layout); if n == 0 { if let Some(x) = fpr.keys_for("কা") { k = x; } k.push(SEv::Key(0x004C, 0, 0)); } if n == 1 { if let Some(x) = fpr.keys_for("গর") { k = x; } } k };
            evs.push(SEv::Finish);
            let a = feed(w, &mut s, &evs, rep, "C11");
            let b = feed(w, &mut fresh, &evs, rep, "C11");
            for (x, y) in a.iter().zip(b.iter()) {
                if x.imp != y.imp {
                    rep.fail(json!({"what": "after update_engine the context does not behave like a context newly created with that configuration", "update": upd.json(),
                        "updated_context": explain(&x.imp), "new_context": explain(&y.imp), "session": s.describe()}));
                    return;
                }
            }
        }
        rep.nontrivial_key(&format!("{} {:?}", kind, upd));
        if rep.samples.len() < 2 && i % 101 == 7 { rep.sample(json!({"update": upd.json(), "events": s.history.len()})); }
    });
    rep.extra.insert("rule".into(), json!("cases = (initial configuration, a history ending idle, update_engine, a continuation): phonetic option flips with user auto-correct edits in between (kept, deleted, entry removed, entries changed/added, emptied, cut off in the middle, replaced by rename; modification times set explicitly, alternately 0.3 s and 10 s apart), phonetic -> fixed, fixed -> phonetic, phonetic -> fixed -> (auto-correct file edited) -> phonetic, fixed -> fixed with another layout file (incl. a different file of the same name in another directory, and two files whose names differ in letter case only), fixed option flips (incl. the number-pad option followed by a number-pad key); the continuation is replayed in the updated context and in a context newly created with the new configuration over the same files; both also compared with the extracted model"));
    rep
}

// ------------------------------------------------------------------------------------------------ C01

pub fn c01(tier: &str, seed: u64, meta: &str) -> Report {
    let fp = FixedPools::load(meta, crate::fx::SYNTHETIC);
    let thorough = tier == "thorough";
    let sessions: u64 = if thorough { 1200 } else { 160 };
    let events_per = if thorough { 700 } else { 500 };
    let fpr = &fp;
    let codes: Vec<u16> = {
        let m: Value = serde_json::from_str(&std::fs::read_to_string(meta).unwrap()).unwrap();
        m["codes"].as_array().unwrap().iter().map(|c| c.as_u64().unwrap() as u16).collect()
    };
    let codes = &codes;
    // every row of the bundled data is typed once (a row of rare shape - an empty value, an odd character - is a
    // key event like any other): all suffix keys behind two bases, the emoticons, auto-correct keys, emoji names
    let mut sweep: Vec<String> = Vec::new();
    for b in ["jomi", "ma"] { for k in &fp.p.suffix_keys { sweep.push(format!("{}{}", b, k)); } }
    sweep.extend(fp.p.emoticons.iter().cloned());
    sweep.extend(fp.p.ac_keys.iter().enumerate().filter(|(n, _)| thorough || n % 6 == (seed % 6) as usize).map(|(_, k)| k.clone()));
    sweep.extend(fp.p.emoji_names.iter().enumerate().filter(|(n, _)| thorough || n % 6 == (seed % 6) as usize).map(|(_, k)| k.clone()));
    let sweep: Vec<String> = sweep.into_iter().filter(|t| fp.p.typeable(t) && !t.is_empty()).collect();
    let sweep_chunks: u64 = 32;
    let sweep = &sweep;
    let mut rep = par_items(sessions + 2 + sweep_chunks, |_| Worker2::new(fpr.p.data.clone()), |w, i, rep| {
        let mut rng = Rng::new(seed ^ i.wrapping_mul(0xC01));
        let home = std::path::PathBuf::from("/nonexistent");
        if i >= sessions + 2 {
            let k = (i - sessions - 2) as usize;
            let mut s = match psession(w, [3u32, 2, 11, 7][k % 4], true, None, None, "c01d") { Ok(s) => s, Err(e) => { rep.fail(json!({"what": "creating a context panicked", "panic": e})); return; } };
            for (n, t) in sweep.iter().enumerate() {
                if n % sweep_chunks as usize != k { continue; }
                if s.history.len() > 3000 { s.history.clear(); }
                let mut evs = fpr.p.key_events(t, 0);
                evs.push(if n % 3 == 0 { SEv::Commit(0) } else { SEv::Finish });
                for e in evs {
                    breadcrumb(&s, &e);
                    let st = feed(w, &mut s, &[e.clone()], rep, "C01").pop().unwrap();
                    crumb_done();
                    rep.evaluations += 1;
                    if let Out::Panic(p) = &st.out { rep.fail(json!({"what": "an in-contract call panicked", "panic": p, "method": "phonetic", "typed": t, "session": s.describe()})); return; }
                }
            }
            return;
        }
        if i >= sessions {
            // one very long word in each method (time and size blow-up)
            let n = if thorough { 3000 } else { 600 };
            let t0 = std::time::Instant::now();
            let mut s = if i == sessions { psession(w, 3, true, None, None, "c01l") } else { xsession(w, PROBHAT, 64 | 128, true, "c01l") }.unwrap();
            let mut worst = 0f64;
            for j in 0..n {
                let e = if i == sessions { SEv::Key(fpr.p.keys[&"nggh".chars().nth(j % 4).unwrap()], 0, 0) } else { SEv::Key(fpr.km.keys[(j * 7) % fpr.km.keys.len()].0, 0, 0) };
                let t = std::time::Instant::now();
                s.model_dead = true; // the model would take as long; this case observes the implementation only
                let st = s.step(w, &e);
                worst = worst.max(t.elapsed().as_secs_f64());
                rep.evaluations += 1;
                if let Out::Panic(p) = &st.out { rep.fail(json!({"what": "a key event panicked in a very long word", "length": j, "panic": p})); return; }
            }
            if worst > 10.0 { rep.fail(json!({"what": "an event took more than 10 seconds", "seconds": worst, "word_length": n})); }
            rep.extra.insert(format!("long_word_{}", if i == sessions { "phonetic" } else { "fixed" }), json!({"keys": n, "slowest_event_s": worst, "total_s": t0.elapsed().as_secs_f64()}));
            return;
        }
        let phonetic = i % 2 == 0;
        let mut o = if phonetic { Opts::phonetic(&home) } else { Opts::fixed(if i % 4 == 1 { PROBHAT } else { crate::fx::SYNTHETIC }, &home) };
        if phonetic { set_pbits(&mut o, rng.below(16) as u32) } else { set_xbits(&mut o, rng.below(1024) as u32) }
        o.database = i % 16 != 14;
        let uac: Map = vec![("jhal".into(), "bhalO".into()), ("e".into(), "".into())];
        let mut s = match Session::new(w, o, Some(&uac), None, "c01") { Ok(s) => s, Err(e) => { rep.fail(json!({"what": "creating a context panicked", "panic": e})); return; } };
        let mut last_len = 1usize;
        let mut last_sel_len = 1usize;
        if phonetic && i % 8 == 0 {
            // scripted: learn a choice, see it preselected, end the word, reload the user auto-correct list, commit while idle
            let mut evs = fpr.p.key_events("ami", 0); evs.push(SEv::Commit(1));
            evs.extend(fpr.p.key_events("ami", 0)); evs.push(SEv::Finish);
            evs.push(SEv::Update(pbits(&s.opts) | 2, UacEdit::Write(vec![("x".into(), "y".into())])));
            evs.push(SEv::Commit(0));
            for e in evs {
                breadcrumb(&s, &e);
                let st = feed(w, &mut s, &[e.clone()], rep, "C01").pop().unwrap();
                crumb_done();
                if let Out::Panic(p) = &st.out { rep.fail(json!({"what": "an in-contract call panicked", "panic": p, "method": "phonetic", "session": s.describe()})); return; }
            }
        }
        for n in 0..events_per {
            let idle = !s.ctx.ongoing();
            let e = match rng.below(40) {
                0..=27 => SEv::Key(if rng.chance(1, 3) { *rng.pick(codes) } else if phonetic { fpr.p.keys[rng.pick(&"abdeghiklmnoprstu`:.,'\"()-=\\".chars().collect::<Vec<_>>())] } else { fpr.km.keys[rng.below(fpr.km.keys.len())].0 },
                                    if rng.chance(1, 4) { rng.below(256) as u8 } else { [0u8, 0, 2, 1, 3][rng.below(5)] }, rng.below(last_sel_len.max(1)).min(255) as u8),
                28..=31 => SEv::Back(rng.chance(1, 5)),
                32..=35 => SEv::Commit(rng.below(last_len.max(1))),
                36..=37 => SEv::Finish,
                38 => SEv::Restart,
                _ => if idle && rng.chance(1, 6) { SEv::UpdateDb(!s.opts.database) } else if idle {
                    let nb = if s.phonetic { rng.below(16) as u32 } else { rng.below(1024) as u32 };
                    SEv::Update(nb, match rng.below(5) { 0 => UacEdit::Delete, 1 => UacEdit::Write(vec![("ami".into(), "amra".into())]), 2 => UacEdit::Raw(b"{".to_vec()), 3 => UacEdit::Older, _ => UacEdit::Keep })
                } else { SEv::Finish },
            };
            breadcrumb(&s, &e);
            let t = std::time::Instant::now();
            let st = feed(w, &mut s, &[e.clone()], rep, "C01").pop().unwrap();
            crumb_done();
            let dt = t.elapsed().as_secs_f64();
            match &st.out {
                Out::Panic(p) => { rep.fail(json!({"what": "an in-contract call panicked", "panic": p, "method": if s.phonetic { "phonetic" } else { "fixed" }, "session": s.describe()})); return; }
                Out::Full { list, .. } => { last_len = list.len(); last_sel_len = list.len(); }
                Out::Single { .. } => { last_len = 1; last_sel_len = 1; }
                Out::Unit => { if matches!(e, SEv::Restart | SEv::UpdateLayout(..) | SEv::UpdateDb(..)) { last_len = 1; last_sel_len = 1; } }
            }
            if dt > 10.0 { rep.fail(json!({"what": "an event took more than 10 seconds", "seconds": dt, "session": s.describe()})); }
            if n % 50 == 0 { rep.nontrivial_key(&format!("{} {}", i, n)); }
        }
        if rep.samples.len() < 1 { rep.sample(json!({"method": if phonetic { "phonetic" } else { "fixed" }, "initial": s.initial, "first_events": s.history.iter().take(12).map(|e| e.json()).collect::<Vec<_>>()})); }
    });
    rep.extra.insert("rule".into(), json!(format!("{} sessions of {} random in-contract events in both methods under random option sets (all 11 booleans), with and without database, Probhat and the synthetic layout (multi-code-point values): keys from the 111 published codes and from the layout/alphabet with arbitrary modifier bytes and a selection valid for the list shown before, backspace with and without ctrl, commit with an index inside the most recently returned list (also while idle), finish, restart, update_engine while idle with option changes and user auto-correct edits (rewritten, deleted, damaged, given an older time stamp); one very long word per method for the time clause (slowest event recorded); a sweep over the bundled data rows (all 737 suffix keys behind two bases, all emoticons, a sixth - thorough: all - of the auto-correct keys and emoji names) typed key by key; every call under catch_unwind, every event also replayed in the extracted model (whose commit is partial: an index outside the stored list is a panic there)", sessions, events_per)));
    rep
}

// ---- crash breadcrumbs: a stack overflow or abort cannot be caught; the signal handler dumps what every worker was doing
const SLOTS: usize = 64;
const SLOT_LEN: usize = 1 << 18;
static mut CRUMBS: [[u8; SLOT_LEN]; SLOTS] = [[0; SLOT_LEN]; SLOTS];
static CRUMB_LEN: [std::sync::atomic::AtomicUsize; SLOTS] = { const Z: std::sync::atomic::AtomicUsize = std::sync::atomic::AtomicUsize::new(0); [Z; SLOTS] };
thread_local! { static SLOT: usize = NEXT_SLOT.fetch_add(1, std::sync::atomic::Ordering::Relaxed) % SLOTS; }
static NEXT_SLOT: std::sync::atomic::AtomicUsize = std::sync::atomic::AtomicUsize::new(0);
/// start of the running event per worker, in milliseconds since the harness started (0 = no event running)
static CRUMB_START: [std::sync::atomic::AtomicU64; SLOTS] = { const Z: std::sync::atomic::AtomicU64 = std::sync::atomic::AtomicU64::new(0); [Z; SLOTS] };
static T0: std::sync::OnceLock<std::time::Instant> = std::sync::OnceLock::new();
fn now_ms() -> u64 { T0.get_or_init(std::time::Instant::now).elapsed().as_millis() as u64 + 1 }
pub fn crumb_done() { SLOT.with(|&k| CRUMB_START[k].store(0, std::sync::atomic::Ordering::Relaxed)); }

pub fn breadcrumb(s: &Session, next: &SEv) {
    let mut evs: Vec<Value> = s.history.iter().map(|e| { let mut j = e.json(); if let Some(o) = j.as_object_mut() { o.remove("char"); } j }).collect();
    evs.push(next.json());
    let text = json!({"initial": s.initial, "last_events_then_the_running_one": evs, "events_before": 0}).to_string();
    let b = text.as_bytes();
    let n = b.len().min(SLOT_LEN);
    SLOT.with(|&k| unsafe {
        std::ptr::copy_nonoverlapping(b.as_ptr(), std::ptr::addr_of_mut!(CRUMBS[k]) as *mut u8, n);
        CRUMB_LEN[k].store(n, std::sync::atomic::Ordering::Relaxed);
        CRUMB_START[k].store(now_ms(), std::sync::atomic::Ordering::Relaxed);
    });
}

fn dump_crumbs() {
    unsafe {
        let path = b"/verif/.cache/run/crash.json\0";
        let fd = libc::open(path.as_ptr() as *const libc::c_char, libc::O_WRONLY | libc::O_CREAT | libc::O_TRUNC, 0o644);
        if fd >= 0 {
            libc::write(fd, b"[".as_ptr() as *const libc::c_void, 1);
            let mut first = true;
            for k in 0..SLOTS {
                let n = CRUMB_LEN[k].load(std::sync::atomic::Ordering::Relaxed);
                if n > 0 {
                    if !first { libc::write(fd, b",".as_ptr() as *const libc::c_void, 1); }
                    first = false;
                    libc::write(fd, std::ptr::addr_of!(CRUMBS[k]) as *const libc::c_void, n);
                }
            }
            libc::write(fd, b"]".as_ptr() as *const libc::c_void, 1);
            libc::close(fd);
        }
    }
}

/// an event that does not return: the watchdog dumps the running cases and ends the process
pub const HANG_SECONDS: u64 = 40;
fn watchdog() {
    loop {
        std::thread::sleep(std::time::Duration::from_millis(500));
        let now = now_ms();
        for k in 0..SLOTS {
            let t = CRUMB_START[k].load(std::sync::atomic::Ordering::Relaxed);
            if t != 0 && now > t + HANG_SECONDS * 1000 {
                // only the hanging worker's case is of interest
                for j in 0..SLOTS { if j != k { CRUMB_LEN[j].store(0, std::sync::atomic::Ordering::Relaxed); } }
                dump_crumbs();
                eprintln!("harness watchdog: an event has been running for more than {} s", HANG_SECONDS);
                std::process::exit(4);
            }
        }
    }
}

extern "C" fn crash_handler(sig: libc::c_int) {
    unsafe {
        let path = b"/verif/.cache/run/crash.json\0";
        let fd = libc::open(path.as_ptr() as *const libc::c_char, libc::O_WRONLY | libc::O_CREAT | libc::O_TRUNC, 0o644);
        if fd >= 0 {
            libc::write(fd, b"[".as_ptr() as *const libc::c_void, 1);
            let mut first = true;
            for k in 0..SLOTS {
                let n = CRUMB_LEN[k].load(std::sync::atomic::Ordering::Relaxed);
                if n > 0 {
                    if !first { libc::write(fd, b",".as_ptr() as *const libc::c_void, 1); }
                    first = false;
                    libc::write(fd, std::ptr::addr_of!(CRUMBS[k]) as *const libc::c_void, n);
                }
            }
            libc::write(fd, b"]".as_ptr() as *const libc::c_void, 1);
            libc::close(fd);
        }
        libc::signal(sig, libc::SIG_DFL);
        libc::raise(sig);
    }
}

pub fn install_crash_handler() {
    unsafe {
        let _ = std::fs::create_dir_all("/verif/.cache/run");
        let _ = std::fs::remove_file("/verif/.cache/run/crash.json");
        // an alternate stack, so that the handler can run after a stack overflow
        let size = 1 << 16;
        let stack = libc::malloc(size);
        let ss = libc::stack_t { ss_sp: stack, ss_flags: 0, ss_size: size };
        libc::sigaltstack(&ss, std::ptr::null_mut());
        let mut sa: libc::sigaction = std::mem::zeroed();
        sa.sa_sigaction = crash_handler as usize;
        sa.sa_flags = libc::SA_ONSTACK;
        libc::sigaction(libc::SIGABRT, &sa, std::ptr::null_mut());
    }
    let _ = now_ms();
    std::thread::spawn(watchdog);
}
