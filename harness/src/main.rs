mod c04;
mod c19;
#[global_allocator]
static ALLOC: c19::Counting = c19::Counting;
mod fx;
mod model;
mod oracle;
mod ph;
mod props;
mod props2;
mod props3;
mod sess;
mod ffi;
mod tables;
mod util;

use std::collections::HashMap;

fn args_map(args: &[String]) -> HashMap<String, String> {
    let mut m = HashMap::new();
    let mut i = 0;
    while i < args.len() {
        if let Some(k) = args[i].strip_prefix("--") {
            let v = args.get(i + 1).cloned().unwrap_or_default();
            m.insert(k.to_string(), v);
            i += 2;
        } else {
            i += 1;
        }
    }
    m
}

fn main() {
    ffi::install_quiet_panic_hook();
    let args: Vec<String> = std::env::args().collect();
    let cmd = args.get(1).map(String::as_str).unwrap_or("");
    let a = args_map(&args[2.min(args.len())..]);
    let _ = &a;
    match cmd {
        "tables" => {
            let probe = std::fs::read_to_string(&a["probe-layout"]).expect("read probe layout");
            let t = tables::dump(&probe);
            std::fs::write(&a["out"], serde_json::to_string(&t).unwrap()).unwrap();
        }
        "replay" => {
            let v: serde_json::Value = serde_json::from_str(&std::fs::read_to_string(&a["file"]).expect("replay file")).expect("json");
            let _ = sess::load_keychars(&a["meta"]);
            // accepts a replay file of ./check (the case sits under "replay"), a failure record, or a bare session
            let case = if v.get("replay").is_some() { v["replay"].clone() } else { v };
            let idx: Option<usize> = a.get("index").and_then(|s| s.parse().ok());
            let case = match (case.as_array(), idx) { (Some(arr), Some(i)) => arr[i].clone(), _ => case };
            let case = if case.get("last_events_then_the_running_one").is_some() { serde_json::json!({"initial": case["initial"], "events": case["last_events_then_the_running_one"]}) } else { case };
            // records that keep the events of one case of a long-lived context under another name
            let case = if case.get("events").is_none() && case.get("session").is_none() && case.get("events_of_this_case").is_some() { serde_json::json!({"initial": case["initial"], "events": case["events_of_this_case"]}) } else { case };
            std::process::exit(sess::replay(oracle::Data::load(), &case));
        }
        "stream" => {
            let name = args.get(2).map(String::as_str).unwrap_or("");
            let tier = a.get("tier").cloned().unwrap_or_else(|| "quick".into());
            let seed: u64 = a.get("seed").and_then(|s| s.parse().ok()).unwrap_or(1);
            let layouts: Vec<(String, String)> = vec![
                ("probhat".into(), "/repo/data/Probhat.json".into()),
                ("synthetic".into(), a.get("synthetic").cloned().unwrap_or_else(|| "/verif/layouts/synthetic.json".into())),
            ];
            let rep = match name {
                "c04" => c04::run(&tier, seed, &a["meta"], &layouts),
                "ph0" => ph::ph0(&tier, seed, &a["meta"]),
                "fs0" => ph::fs0(&tier, seed, &a["meta"]),
                "c18" => ph::c18(&tier, seed, &a["meta"]),
                "c05" => props::c05(&tier, seed, &a["meta"]),
                "c06" => props::c06(&tier, seed, &a["meta"]),
                "c08" => props::c08(&tier, seed, &a["meta"]),
                "c09" => props::c09(&tier, seed, &a["meta"]),
                "c07" => props2::c07(&tier, seed, &a["meta"]),
                "c15" => props2::c15(&tier, seed, &a["meta"]),
                "c16" => props2::c16(&tier, seed, &a["meta"]),
                "c17" => props2::c17(&tier, seed, &a["meta"]),
                "c10" => props3::c10(&tier, seed, &a["meta"]),
                "c11" => props3::c11(&tier, seed, &a["meta"]),
                "c01" => { props3::install_crash_handler(); props3::c01(&tier, seed, &a["meta"]) }
                "c19" => c19::c19(&tier, seed, &a["meta"]),
                "c02" => props::c02(&tier, seed, &a["meta"]),
                "c03" => props::c03(&tier, seed, &a["meta"]),
                "c12" => fx::c12(&tier, seed, &a["meta"]),
                "c13" => fx::c13(&tier, seed, &a["meta"]),
                "c14" => fx::c14(&tier, seed, &a["meta"]),
                _ => {
                    eprintln!("unknown stream {}", name);
                    std::process::exit(2);
                }
            };
            std::fs::write(&a["out"], serde_json::to_string(&rep.to_json()).unwrap()).unwrap();
        }
        _ => {
            eprintln!("usage: rv tables --probe-layout F --out F | rv stream NAME --tier T --seed N --meta F --out F");
            std::process::exit(2);
        }
    }
}
