
(** val negb : bool -> bool **)

let negb = function
| true -> false
| false -> true

type nat =
| O
| S of nat

(** val app : 'a1 list -> 'a1 list -> 'a1 list **)

let rec app l m =
  match l with
  | [] -> m
  | a :: l1 -> a :: (app l1 m)

(** val eqb : nat -> nat -> bool **)

let rec eqb n0 m =
  match n0 with
  | O -> (match m with
          | O -> true
          | S _ -> false)
  | S n' -> (match m with
             | O -> false
             | S m' -> eqb n' m')

(** val hd : 'a1 -> 'a1 list -> 'a1 **)

let hd default = function
| [] -> default
| x :: _ -> x

(** val tl : 'a1 list -> 'a1 list **)

let tl = function
| [] -> []
| _ :: m -> m

(** val nth : nat -> 'a1 list -> 'a1 -> 'a1 **)

let rec nth n0 l default =
  match n0 with
  | O -> (match l with
          | [] -> default
          | x :: _ -> x)
  | S m -> (match l with
            | [] -> default
            | _ :: t -> nth m t default)

(** val last : 'a1 list -> 'a1 -> 'a1 **)

let rec last l d =
  match l with
  | [] -> d
  | a :: l0 -> (match l0 with
                | [] -> a
                | _ :: _ -> last l0 d)

(** val rev : 'a1 list -> 'a1 list **)

let rec rev = function
| [] -> []
| x :: l' -> app (rev l') (x :: [])

(** val fold_left : ('a1 -> 'a2 -> 'a1) -> 'a2 list -> 'a1 -> 'a1 **)

let rec fold_left f l a0 =
  match l with
  | [] -> a0
  | b :: t -> fold_left f t (f a0 b)

(** val existsb : ('a1 -> bool) -> 'a1 list -> bool **)

let rec existsb f = function
| [] -> false
| a :: l0 -> (||) (f a) (existsb f l0)

(** val firstn : nat -> 'a1 list -> 'a1 list **)

let rec firstn n0 l =
  match n0 with
  | O -> []
  | S n1 -> (match l with
             | [] -> []
             | a :: l0 -> a :: (firstn n1 l0))

(** val skipn : nat -> 'a1 list -> 'a1 list **)

let rec skipn n0 l =
  match n0 with
  | O -> l
  | S n1 -> (match l with
             | [] -> []
             | _ :: l0 -> skipn n1 l0)

type positive =
| XI of positive
| XO of positive
| XH

type n =
| N0
| Npos of positive

module Pos =
 struct
  (** val succ : positive -> positive **)

  let rec succ = function
  | XI p -> XO (succ p)
  | XO p -> XI p
  | XH -> XO XH

  (** val add : positive -> positive -> positive **)

  let rec add x y =
    match x with
    | XI p ->
      (match y with
       | XI q -> XO (add_carry p q)
       | XO q -> XI (add p q)
       | XH -> XO (succ p))
    | XO p ->
      (match y with
       | XI q -> XI (add p q)
       | XO q -> XO (add p q)
       | XH -> XI p)
    | XH -> (match y with
             | XI q -> XO (succ q)
             | XO q -> XI q
             | XH -> XO XH)

  (** val add_carry : positive -> positive -> positive **)

  and add_carry x y =
    match x with
    | XI p ->
      (match y with
       | XI q -> XI (add_carry p q)
       | XO q -> XO (add_carry p q)
       | XH -> XI (succ p))
    | XO p ->
      (match y with
       | XI q -> XO (add_carry p q)
       | XO q -> XI (add p q)
       | XH -> XO (succ p))
    | XH ->
      (match y with
       | XI q -> XI (succ q)
       | XO q -> XO (succ q)
       | XH -> XI XH)

  (** val pred_double : positive -> positive **)

  let rec pred_double = function
  | XI p -> XI (XO p)
  | XO p -> XI (pred_double p)
  | XH -> XH

  (** val pred_N : positive -> n **)

  let pred_N = function
  | XI p -> Npos (XO p)
  | XO p -> Npos (pred_double p)
  | XH -> N0

  (** val mul : positive -> positive -> positive **)

  let rec mul x y =
    match x with
    | XI p -> add y (XO (mul p y))
    | XO p -> XO (mul p y)
    | XH -> y

  (** val eqb : positive -> positive -> bool **)

  let rec eqb p q =
    match p with
    | XI p0 -> (match q with
                | XI q0 -> eqb p0 q0
                | _ -> false)
    | XO p0 -> (match q with
                | XO q0 -> eqb p0 q0
                | _ -> false)
    | XH -> (match q with
             | XH -> true
             | _ -> false)

  (** val testbit : positive -> n -> bool **)

  let rec testbit p n0 =
    match p with
    | XI p0 -> (match n0 with
                | N0 -> true
                | Npos n1 -> testbit p0 (pred_N n1))
    | XO p0 -> (match n0 with
                | N0 -> false
                | Npos n1 -> testbit p0 (pred_N n1))
    | XH -> (match n0 with
             | N0 -> true
             | Npos _ -> false)
 end

module N =
 struct
  (** val add : n -> n -> n **)

  let add n0 m =
    match n0 with
    | N0 -> m
    | Npos p -> (match m with
                 | N0 -> n0
                 | Npos q -> Npos (Pos.add p q))

  (** val mul : n -> n -> n **)

  let mul n0 m =
    match n0 with
    | N0 -> N0
    | Npos p -> (match m with
                 | N0 -> N0
                 | Npos q -> Npos (Pos.mul p q))

  (** val eqb : n -> n -> bool **)

  let eqb n0 m =
    match n0 with
    | N0 -> (match m with
             | N0 -> true
             | Npos _ -> false)
    | Npos p -> (match m with
                 | N0 -> false
                 | Npos q -> Pos.eqb p q)

  (** val testbit : n -> n -> bool **)

  let testbit a n0 =
    match a with
    | N0 -> false
    | Npos p -> Pos.testbit p n0
 end

type str = n list

(** val str_eqb : str -> str -> bool **)

let rec str_eqb a b =
  match a with
  | [] -> (match b with
           | [] -> true
           | _ :: _ -> false)
  | x :: a' ->
    (match b with
     | [] -> false
     | y :: b' -> (&&) (N.eqb x y) (str_eqb a' b'))

(** val mem : n -> n list -> bool **)

let mem c l =
  existsb (N.eqb c) l

(** val assocN : n -> (n * 'a1) list -> 'a1 option **)

let rec assocN k = function
| [] -> None
| p :: t -> let (k', v) = p in if N.eqb k k' then Some v else assocN k t

(** val b_CHANDRA : n **)

let b_CHANDRA =
  Npos (XI (XO (XO (XO (XO (XO (XO (XI (XI (XO (XO XH)))))))))))

(** val b_AA : n **)

let b_AA =
  Npos (XO (XI (XI (XO (XO (XO (XO (XI (XI (XO (XO XH)))))))))))

(** val b_I : n **)

let b_I =
  Npos (XI (XI (XI (XO (XO (XO (XO (XI (XI (XO (XO XH)))))))))))

(** val b_II : n **)

let b_II =
  Npos (XO (XO (XO (XI (XO (XO (XO (XI (XI (XO (XO XH)))))))))))

(** val b_U : n **)

let b_U =
  Npos (XI (XO (XO (XI (XO (XO (XO (XI (XI (XO (XO XH)))))))))))

(** val b_UUU : n **)

let b_UUU =
  Npos (XO (XI (XO (XI (XO (XO (XO (XI (XI (XO (XO XH)))))))))))

(** val b_RRI : n **)

let b_RRI =
  Npos (XI (XI (XO (XI (XO (XO (XO (XI (XI (XO (XO XH)))))))))))

(** val b_E : n **)

let b_E =
  Npos (XI (XI (XI (XI (XO (XO (XO (XI (XI (XO (XO XH)))))))))))

(** val b_OI : n **)

let b_OI =
  Npos (XO (XO (XO (XO (XI (XO (XO (XI (XI (XO (XO XH)))))))))))

(** val b_O : n **)

let b_O =
  Npos (XI (XI (XO (XO (XI (XO (XO (XI (XI (XO (XO XH)))))))))))

(** val b_OU : n **)

let b_OU =
  Npos (XO (XO (XI (XO (XI (XO (XO (XI (XI (XO (XO XH)))))))))))

(** val b_Z : n **)

let b_Z =
  Npos (XI (XI (XI (XI (XO (XI (XO (XI (XI (XO (XO XH)))))))))))

(** val b_R : n **)

let b_R =
  Npos (XO (XO (XO (XO (XI (XI (XO (XI (XI (XO (XO XH)))))))))))

(** val b_AA_KAR : n **)

let b_AA_KAR =
  Npos (XO (XI (XI (XI (XI (XI (XO (XI (XI (XO (XO XH)))))))))))

(** val b_I_KAR : n **)

let b_I_KAR =
  Npos (XI (XI (XI (XI (XI (XI (XO (XI (XI (XO (XO XH)))))))))))

(** val b_II_KAR : n **)

let b_II_KAR =
  Npos (XO (XO (XO (XO (XO (XO (XI (XI (XI (XO (XO XH)))))))))))

(** val b_U_KAR : n **)

let b_U_KAR =
  Npos (XI (XO (XO (XO (XO (XO (XI (XI (XI (XO (XO XH)))))))))))

(** val b_UUU_KAR : n **)

let b_UUU_KAR =
  Npos (XO (XI (XO (XO (XO (XO (XI (XI (XI (XO (XO XH)))))))))))

(** val b_RRI_KAR : n **)

let b_RRI_KAR =
  Npos (XI (XI (XO (XO (XO (XO (XI (XI (XI (XO (XO XH)))))))))))

(** val b_VOCALIC_RR : n **)

let b_VOCALIC_RR =
  Npos (XO (XO (XI (XO (XO (XO (XI (XI (XI (XO (XO XH)))))))))))

(** val b_E_KAR : n **)

let b_E_KAR =
  Npos (XI (XI (XI (XO (XO (XO (XI (XI (XI (XO (XO XH)))))))))))

(** val b_OI_KAR : n **)

let b_OI_KAR =
  Npos (XO (XO (XO (XI (XO (XO (XI (XI (XI (XO (XO XH)))))))))))

(** val b_O_KAR : n **)

let b_O_KAR =
  Npos (XI (XI (XO (XI (XO (XO (XI (XI (XI (XO (XO XH)))))))))))

(** val b_OU_KAR : n **)

let b_OU_KAR =
  Npos (XO (XO (XI (XI (XO (XO (XI (XI (XI (XO (XO XH)))))))))))

(** val b_HASANTA : n **)

let b_HASANTA =
  Npos (XI (XO (XI (XI (XO (XO (XI (XI (XI (XO (XO XH)))))))))))

(** val b_LENGTH_MARK : n **)

let b_LENGTH_MARK =
  Npos (XI (XI (XI (XO (XI (XO (XI (XI (XI (XO (XO XH)))))))))))

(** val b_SANSKRIT_RR : n **)

let b_SANSKRIT_RR =
  Npos (XO (XO (XO (XO (XO (XI (XI (XI (XI (XO (XO XH)))))))))))

(** val zWJ : n **)

let zWJ =
  Npos (XI (XO (XI (XI (XO (XO (XO (XO (XO (XO (XO (XO (XO XH)))))))))))))

(** val zWNJ : n **)

let zWNJ =
  Npos (XO (XO (XI (XI (XO (XO (XO (XO (XO (XO (XO (XO (XO XH)))))))))))))

(** val vowels : n list **)

let vowels =
  (Npos (XI (XO (XI (XO (XO (XO (XO (XI (XI (XO (XO XH)))))))))))) :: ((Npos
    (XO (XI (XI (XO (XO (XO (XO (XI (XI (XO (XO XH)))))))))))) :: ((Npos (XI
    (XI (XI (XO (XO (XO (XO (XI (XI (XO (XO XH)))))))))))) :: ((Npos (XO (XO
    (XO (XI (XO (XO (XO (XI (XI (XO (XO XH)))))))))))) :: ((Npos (XI (XO (XO
    (XI (XO (XO (XO (XI (XI (XO (XO XH)))))))))))) :: ((Npos (XO (XI (XO (XI
    (XO (XO (XO (XI (XI (XO (XO XH)))))))))))) :: ((Npos (XI (XI (XO (XI (XO
    (XO (XO (XI (XI (XO (XO XH)))))))))))) :: ((Npos (XO (XO (XI (XI (XO (XO
    (XO (XI (XI (XO (XO XH)))))))))))) :: ((Npos (XI (XI (XI (XI (XO (XO (XO
    (XI (XI (XO (XO XH)))))))))))) :: ((Npos (XO (XO (XO (XO (XI (XO (XO (XI
    (XI (XO (XO XH)))))))))))) :: ((Npos (XI (XI (XO (XO (XI (XO (XO (XI (XI
    (XO (XO XH)))))))))))) :: ((Npos (XO (XO (XI (XO (XI (XO (XO (XI (XI (XO
    (XO XH)))))))))))) :: ((Npos (XO (XI (XI (XI (XI (XI (XO (XI (XI (XO (XO
    XH)))))))))))) :: ((Npos (XI (XI (XI (XI (XI (XI (XO (XI (XI (XO (XO
    XH)))))))))))) :: ((Npos (XO (XO (XO (XO (XO (XO (XI (XI (XI (XO (XO
    XH)))))))))))) :: ((Npos (XI (XO (XO (XO (XO (XO (XI (XI (XI (XO (XO
    XH)))))))))))) :: ((Npos (XO (XI (XO (XO (XO (XO (XI (XI (XI (XO (XO
    XH)))))))))))) :: ((Npos (XI (XI (XO (XO (XO (XO (XI (XI (XI (XO (XO
    XH)))))))))))) :: ((Npos (XI (XI (XI (XO (XO (XO (XI (XI (XI (XO (XO
    XH)))))))))))) :: ((Npos (XO (XO (XO (XI (XO (XO (XI (XI (XI (XO (XO
    XH)))))))))))) :: ((Npos (XI (XI (XO (XI (XO (XO (XI (XI (XI (XO (XO
    XH)))))))))))) :: ((Npos (XO (XO (XI (XI (XO (XO (XI (XI (XI (XO (XO
    XH)))))))))))) :: ((Npos (XI (XO (XO (XO (XO (XI (XI (XI (XI (XO (XO
    XH)))))))))))) :: []))))))))))))))))))))))

(** val kars : n list **)

let kars =
  (Npos (XO (XI (XI (XI (XI (XI (XO (XI (XI (XO (XO XH)))))))))))) :: ((Npos
    (XI (XI (XI (XI (XI (XI (XO (XI (XI (XO (XO XH)))))))))))) :: ((Npos (XO
    (XO (XO (XO (XO (XO (XI (XI (XI (XO (XO XH)))))))))))) :: ((Npos (XI (XO
    (XO (XO (XO (XO (XI (XI (XI (XO (XO XH)))))))))))) :: ((Npos (XO (XI (XO
    (XO (XO (XO (XI (XI (XI (XO (XO XH)))))))))))) :: ((Npos (XI (XI (XO (XO
    (XO (XO (XI (XI (XI (XO (XO XH)))))))))))) :: ((Npos (XO (XO (XI (XO (XO
    (XO (XI (XI (XI (XO (XO XH)))))))))))) :: ((Npos (XI (XI (XI (XO (XO (XO
    (XI (XI (XI (XO (XO XH)))))))))))) :: ((Npos (XO (XO (XO (XI (XO (XO (XI
    (XI (XI (XO (XO XH)))))))))))) :: ((Npos (XI (XI (XO (XI (XO (XO (XI (XI
    (XI (XO (XO XH)))))))))))) :: ((Npos (XO (XO (XI (XI (XO (XO (XI (XI (XI
    (XO (XO XH)))))))))))) :: []))))))))))

(** val pure_consonants : n list **)

let pure_consonants =
  (Npos (XI (XO (XI (XO (XI (XO (XO (XI (XI (XO (XO XH)))))))))))) :: ((Npos
    (XO (XI (XI (XO (XI (XO (XO (XI (XI (XO (XO XH)))))))))))) :: ((Npos (XI
    (XI (XI (XO (XI (XO (XO (XI (XI (XO (XO XH)))))))))))) :: ((Npos (XO (XO
    (XO (XI (XI (XO (XO (XI (XI (XO (XO XH)))))))))))) :: ((Npos (XI (XO (XO
    (XI (XI (XO (XO (XI (XI (XO (XO XH)))))))))))) :: ((Npos (XO (XI (XO (XI
    (XI (XO (XO (XI (XI (XO (XO XH)))))))))))) :: ((Npos (XI (XI (XO (XI (XI
    (XO (XO (XI (XI (XO (XO XH)))))))))))) :: ((Npos (XO (XO (XI (XI (XI (XO
    (XO (XI (XI (XO (XO XH)))))))))))) :: ((Npos (XI (XO (XI (XI (XI (XO (XO
    (XI (XI (XO (XO XH)))))))))))) :: ((Npos (XO (XI (XI (XI (XI (XO (XO (XI
    (XI (XO (XO XH)))))))))))) :: ((Npos (XI (XI (XI (XI (XI (XO (XO (XI (XI
    (XO (XO XH)))))))))))) :: ((Npos (XO (XO (XO (XO (XO (XI (XO (XI (XI (XO
    (XO XH)))))))))))) :: ((Npos (XI (XO (XO (XO (XO (XI (XO (XI (XI (XO (XO
    XH)))))))))))) :: ((Npos (XO (XI (XO (XO (XO (XI (XO (XI (XI (XO (XO
    XH)))))))))))) :: ((Npos (XI (XI (XO (XO (XO (XI (XO (XI (XI (XO (XO
    XH)))))))))))) :: ((Npos (XO (XO (XI (XO (XO (XI (XO (XI (XI (XO (XO
    XH)))))))))))) :: ((Npos (XI (XO (XI (XO (XO (XI (XO (XI (XI (XO (XO
    XH)))))))))))) :: ((Npos (XO (XI (XI (XO (XO (XI (XO (XI (XI (XO (XO
    XH)))))))))))) :: ((Npos (XI (XI (XI (XO (XO (XI (XO (XI (XI (XO (XO
    XH)))))))))))) :: ((Npos (XO (XO (XO (XI (XO (XI (XO (XI (XI (XO (XO
    XH)))))))))))) :: ((Npos (XO (XI (XO (XI (XO (XI (XO (XI (XI (XO (XO
    XH)))))))))))) :: ((Npos (XI (XI (XO (XI (XO (XI (XO (XI (XI (XO (XO
    XH)))))))))))) :: ((Npos (XO (XO (XI (XI (XO (XI (XO (XI (XI (XO (XO
    XH)))))))))))) :: ((Npos (XI (XO (XI (XI (XO (XI (XO (XI (XI (XO (XO
    XH)))))))))))) :: ((Npos (XO (XI (XI (XI (XO (XI (XO (XI (XI (XO (XO
    XH)))))))))))) :: ((Npos (XI (XI (XI (XI (XO (XI (XO (XI (XI (XO (XO
    XH)))))))))))) :: ((Npos (XO (XO (XO (XO (XI (XI (XO (XI (XI (XO (XO
    XH)))))))))))) :: ((Npos (XO (XI (XO (XO (XI (XI (XO (XI (XI (XO (XO
    XH)))))))))))) :: ((Npos (XO (XI (XI (XO (XI (XI (XO (XI (XI (XO (XO
    XH)))))))))))) :: ((Npos (XI (XI (XI (XO (XI (XI (XO (XI (XI (XO (XO
    XH)))))))))))) :: ((Npos (XO (XO (XO (XI (XI (XI (XO (XI (XI (XO (XO
    XH)))))))))))) :: ((Npos (XI (XO (XO (XI (XI (XI (XO (XI (XI (XO (XO
    XH)))))))))))) :: ((Npos (XO (XI (XI (XI (XO (XO (XI (XI (XI (XO (XO
    XH)))))))))))) :: ((Npos (XO (XO (XI (XI (XI (XO (XI (XI (XI (XO (XO
    XH)))))))))))) :: ((Npos (XI (XO (XI (XI (XI (XO (XI (XI (XI (XO (XO
    XH)))))))))))) :: ((Npos (XI (XI (XI (XI (XI (XO (XI (XI (XI (XO (XO
    XH)))))))))))) :: [])))))))))))))))))))))))))))))))))))

(** val ligature_making_kars : n list **)

let ligature_making_kars =
  (Npos (XI (XO (XO (XO (XO (XO (XI (XI (XI (XO (XO XH)))))))))))) :: ((Npos
    (XO (XI (XO (XO (XO (XO (XI (XI (XI (XO (XO XH)))))))))))) :: ((Npos (XI
    (XI (XO (XO (XO (XO (XI (XI (XI (XO (XO XH)))))))))))) :: []))

(** val left_standing_kars : n list **)

let left_standing_kars =
  (Npos (XI (XI (XI (XI (XI (XI (XO (XI (XI (XO (XO XH)))))))))))) :: ((Npos
    (XI (XI (XI (XO (XO (XO (XI (XI (XI (XO (XO XH)))))))))))) :: ((Npos (XO
    (XO (XO (XI (XO (XO (XI (XI (XI (XO (XO XH)))))))))))) :: []))

(** val is_vowel : n -> bool **)

let is_vowel c =
  mem c vowels

(** val is_kar : n -> bool **)

let is_kar c =
  mem c kars

(** val is_pure_consonant : n -> bool **)

let is_pure_consonant c =
  mem c pure_consonants

(** val is_ligature_making_kar : n -> bool **)

let is_ligature_making_kar c =
  mem c ligature_making_kars

(** val is_left_standing_kar : n -> bool **)

let is_left_standing_kar c =
  mem c left_standing_kars

(** val marks : n list **)

let marks =
  (Npos (XO (XO (XO (XO (XO (XI XH))))))) :: ((Npos (XO (XI (XI (XI (XI (XI
    XH))))))) :: ((Npos (XI (XO (XO (XO (XO XH)))))) :: ((Npos (XO (XO (XO
    (XO (XO (XO XH))))))) :: ((Npos (XI (XI (XO (XO (XO XH)))))) :: ((Npos
    (XO (XO (XI (XO (XO XH)))))) :: ((Npos (XI (XO (XI (XO (XO
    XH)))))) :: ((Npos (XO (XI (XI (XI (XI (XO XH))))))) :: ((Npos (XI (XI
    (XO (XI (XO XH)))))) :: ((Npos (XO (XI (XO (XI (XO XH)))))) :: ((Npos (XI
    (XO (XI (XI (XO XH)))))) :: ((Npos (XI (XI (XI (XI (XI (XO
    XH))))))) :: ((Npos (XI (XO (XI (XI (XI XH)))))) :: ((Npos (XI (XI (XO
    (XI (XO XH)))))) :: ((Npos (XO (XO (XI (XI (XI (XO XH))))))) :: ((Npos
    (XO (XO (XI (XI (XI (XI XH))))))) :: ((Npos (XO (XI (XO (XO (XO
    XH)))))) :: ((Npos (XI (XI (XI (XI (XO XH)))))) :: ((Npos (XI (XI (XO (XI
    (XI XH)))))) :: ((Npos (XO (XI (XO (XI (XI XH)))))) :: ((Npos (XO (XO (XI
    (XI (XO XH)))))) :: ((Npos (XO (XI (XI (XI (XO XH)))))) :: ((Npos (XI (XI
    (XI (XI (XO XH)))))) :: ((Npos (XI (XI (XI (XI (XI XH)))))) :: ((Npos (XO
    (XI (XI (XI (XI XH)))))) :: ((Npos (XO (XO (XI (XI (XI XH)))))) :: ((Npos
    (XO (XO (XO (XI (XO XH)))))) :: ((Npos (XI (XO (XO (XI (XO
    XH)))))) :: ((Npos (XI (XI (XO (XI (XI (XO XH))))))) :: ((Npos (XI (XO
    (XI (XI (XI (XO XH))))))) :: ((Npos (XI (XI (XO (XI (XI (XI
    XH))))))) :: ((Npos (XI (XO (XI (XI (XI (XI
    XH))))))) :: [])))))))))))))))))))))))))))))))

(** val is_mark : n -> bool **)

let is_mark c =
  mem c marks

(** val vowel_of_kar : n -> n option **)

let vowel_of_kar c =
  if N.eqb c b_AA_KAR
  then Some b_AA
  else if N.eqb c b_I_KAR
       then Some b_I
       else if N.eqb c b_II_KAR
            then Some b_II
            else if N.eqb c b_U_KAR
                 then Some b_U
                 else if N.eqb c b_UUU_KAR
                      then Some b_UUU
                      else if N.eqb c b_RRI_KAR
                           then Some b_RRI
                           else if N.eqb c b_E_KAR
                                then Some b_E
                                else if N.eqb c b_OI_KAR
                                     then Some b_OI
                                     else if N.eqb c b_O_KAR
                                          then Some b_O
                                          else if N.eqb c b_OU_KAR
                                               then Some b_OU
                                               else if N.eqb c b_VOCALIC_RR
                                                    then Some b_SANSKRIT_RR
                                                    else None

type fopts = { o_vowel : bool; o_chandra : bool; o_kar : bool;
               o_old_reph : bool; o_kar_order : bool }

(** val rmc_of : n list -> n **)

let rmc_of rb =
  hd N0 rb

(** val push_str : n list -> str -> n list **)

let push_str rb v =
  app (rev v) rb

(** val zofola : str **)

let zofola =
  b_HASANTA :: (b_Z :: [])

(** val reph : str **)

let reph =
  b_R :: (b_HASANTA :: [])

(** val is_reph_moveable : n list -> bool **)

let is_reph_moveable rb =
  let right_most = hd N0 rb in
  let rest = tl rb in
  let right_most' =
    if N.eqb right_most b_CHANDRA then hd N0 rest else right_most
  in
  let rest' = if N.eqb right_most b_CHANDRA then tl rest else rest in
  let before = hd N0 rest' in
  (||) (is_pure_consonant right_most')
    ((&&) (is_vowel right_most') (is_pure_consonant before))

(** val reph_scan :
    n list -> nat -> bool -> bool -> bool -> bool -> nat -> nat **)

let rec reph_scan l index constant vowel hasanta chandra step =
  match l with
  | [] -> step
  | c :: t ->
    if is_pure_consonant c
    then if (&&) constant (negb hasanta)
         then step
         else reph_scan t (S index) true vowel false chandra (S step)
    else if N.eqb c b_HASANTA
         then reph_scan t (S index) constant vowel true chandra (S step)
         else if is_vowel c
              then if vowel
                   then step
                   else if (||) (eqb index O) ((&&) chandra (eqb index (S O)))
                        then reph_scan t (S index) constant true hasanta
                               chandra (S step)
                        else step
              else if N.eqb c b_CHANDRA
                   then if eqb index O
                        then reph_scan t (S index) constant vowel hasanta
                               true (S step)
                        else step
                   else step

(** val insert_old_style_reph : n list -> n list **)

let insert_old_style_reph rb =
  if is_reph_moveable rb
  then let step = reph_scan rb O false false false false O in
       app (firstn step rb) (app (b_HASANTA :: (b_R :: [])) (skipn step rb))
  else b_HASANTA :: (b_R :: rb)

(** val kar_chain : fopts -> n -> n list -> n -> n list **)

let kar_chain o rmc rb character =
  if (&&) o.o_vowel
       ((||)
         ((||) (match rb with
                | [] -> true
                | _ :: _ -> false) (is_vowel rmc)) (is_mark rmc))
  then (match vowel_of_kar character with
        | Some v -> v :: rb
        | None -> rb)
  else if (&&) o.o_chandra (N.eqb rmc b_CHANDRA)
       then b_CHANDRA :: (character :: (tl rb))
       else if N.eqb rmc b_HASANTA
            then (match vowel_of_kar character with
                  | Some v -> v :: (tl rb)
                  | None -> rb)
            else if (&&) o.o_kar (is_pure_consonant rmc)
                 then if is_ligature_making_kar character
                      then character :: (zWNJ :: rb)
                      else character :: rb
                 else character :: rb

(** val pkv_tail : fopts -> n list -> n option -> str -> n list * n option **)

let pkv_tail o rb pend v =
  match if o.o_kar_order then pend else None with
  | Some lsk ->
    let rb' = push_str rb v in
    if N.eqb (last v N0) b_HASANTA then (rb', pend) else ((lsk :: rb'), None)
  | None -> ((push_str rb v), pend)

(** val independent_of_pending : n -> n **)

let independent_of_pending lsk =
  if N.eqb lsk b_E_KAR then b_E else if N.eqb lsk b_I_KAR then b_I else b_OI

(** val pkv_gen :
    (n list -> n option -> str -> n list * n option) -> fopts -> n list -> n
    option -> str -> n list * n option **)

let pkv_gen self o rb pend v =
  let rmc = rmc_of rb in
  if str_eqb v zofola
  then let take = (&&) o.o_kar_order (is_left_standing_kar rmc) in
       let rb1 = if take then tl rb else rb in
       let rb2 =
         if (&&) (N.eqb (hd N0 rb1) b_R)
              (negb (N.eqb (nth (S O) rb1 N0) b_HASANTA))
         then zWJ :: rb1
         else rb1
       in
       let rb3 = push_str rb2 v in ((if take then rmc :: rb3 else rb3), pend)
  else if (&&) (str_eqb v reph) o.o_old_reph
       then ((insert_old_style_reph rb), pend)
       else (match v with
             | [] -> pkv_tail o rb pend v
             | character :: rest ->
               if is_kar character
               then if (&&) ((&&) o.o_kar_order (negb (N.eqb rmc b_HASANTA)))
                         (is_left_standing_kar character)
                    then (rb, (Some character))
                    else if (&&) ((&&) o.o_kar_order (N.eqb rmc b_E_KAR))
                              ((||) (N.eqb character b_AA_KAR)
                                (N.eqb character b_OU_KAR))
                         then (((if N.eqb character b_AA_KAR
                                 then b_O_KAR
                                 else b_OU_KAR) :: (tl rb)), pend)
                         else (match if o.o_kar_order then pend else None with
                               | Some lsk ->
                                 if N.eqb rmc b_HASANTA
                                 then let rb' = b_HASANTA :: (lsk :: (tl rb))
                                      in
                                      ((push_str
                                         (kar_chain o rmc rb' character) rest),
                                      None)
                                 else let rb' =
                                        if (&&) o.o_vowel
                                             ((||)
                                               ((||)
                                                 (match rb with
                                                  | [] -> true
                                                  | _ :: _ -> false)
                                                 (is_vowel rmc))
                                               (is_mark rmc))
                                        then (independent_of_pending lsk) :: rb
                                        else rb
                                      in
                                      self rb' None v
                               | None ->
                                 ((push_str (kar_chain o rmc rb character)
                                    rest), pend))
               else if (&&) (N.eqb character b_HASANTA) (N.eqb rmc b_HASANTA)
                    then ((push_str (zWNJ :: rb) rest), pend)
                    else if (&&) (N.eqb character b_LENGTH_MARK)
                              (N.eqb rmc b_HASANTA)
                         then ((push_str (b_OU :: (tl rb)) rest), pend)
                         else if (&&)
                                   ((&&) o.o_kar_order
                                     (N.eqb character b_HASANTA))
                                   (is_left_standing_kar rmc)
                              then (match rest with
                                    | [] ->
                                      ((character :: (tl rb)), (Some rmc))
                                    | _ :: _ ->
                                      ((rmc :: (push_str (tl rb) v)), pend))
                              else if (&&)
                                        ((&&) o.o_kar_order
                                          (N.eqb rmc b_E_KAR))
                                        (N.eqb character b_LENGTH_MARK)
                                   then ((b_OU_KAR :: (tl rb)), pend)
                                   else pkv_tail o rb pend v)

(** val pkv0 : fopts -> n list -> n option -> str -> n list * n option **)

let pkv0 o =
  pkv_gen (fun rb p _ -> (rb, p)) o

(** val process_key_value :
    fopts -> n list -> n option -> str -> n list * n option **)

let process_key_value o =
  pkv_gen (pkv0 o) o

type fstate = { f_rb : n list; f_pend : n option }

(** val f_init : fstate **)

let f_init =
  { f_rb = []; f_pend = None }

(** val f_text : fstate -> str **)

let f_text s =
  rev s.f_rb

(** val f_ongoing : fstate -> bool **)

let f_ongoing s =
  (||) (negb (match s.f_rb with
              | [] -> true
              | _ :: _ -> false))
    (match s.f_pend with
     | Some _ -> true
     | None -> false)

(** val f_key : fopts -> fstate -> str -> fstate **)

let f_key o s v =
  let (rb, p) = process_key_value o s.f_rb s.f_pend v in
  { f_rb = rb; f_pend = p }

(** val f_backspace : bool -> fstate -> fstate * bool **)

let f_backspace ctrl s =
  match s.f_rb with
  | [] ->
    (match s.f_pend with
     | Some _ -> ({ f_rb = []; f_pend = None }, true)
     | None -> (s, true))
  | _ :: _ ->
    if ctrl
    then (f_init, true)
    else (match s.f_pend with
          | Some _ -> ({ f_rb = s.f_rb; f_pend = None }, false)
          | None ->
            let rb = tl s.f_rb in
            ({ f_rb = rb; f_pend = None },
            (match rb with
             | [] -> true
             | _ :: _ -> false)))

(** val gen_keychar : (n * n) list **)

let gen_keychar =
  ((Npos XH), (Npos (XO (XI (XI (XI (XI (XI XH)))))))) :: (((Npos (XO XH)),
    (Npos (XI (XO (XO (XO (XI XH))))))) :: (((Npos (XI XH)), (Npos (XO (XI
    (XO (XO (XI XH))))))) :: (((Npos (XO (XO XH))), (Npos (XI (XI (XO (XO (XI
    XH))))))) :: (((Npos (XI (XO XH))), (Npos (XO (XO (XI (XO (XI
    XH))))))) :: (((Npos (XO (XI XH))), (Npos (XI (XO (XI (XO (XI
    XH))))))) :: (((Npos (XI (XI XH))), (Npos (XO (XI (XI (XO (XI
    XH))))))) :: (((Npos (XO (XO (XO XH)))), (Npos (XI (XI (XI (XO (XI
    XH))))))) :: (((Npos (XI (XO (XO XH)))), (Npos (XO (XO (XO (XI (XI
    XH))))))) :: (((Npos (XO (XI (XO XH)))), (Npos (XI (XO (XO (XI (XI
    XH))))))) :: (((Npos (XI (XI (XO XH)))), (Npos (XO (XO (XO (XO (XI
    XH))))))) :: (((Npos (XO (XO (XI XH)))), (Npos (XI (XO (XI (XI (XO
    XH))))))) :: (((Npos (XI (XO (XI XH)))), (Npos (XI (XO (XI (XI (XI
    XH))))))) :: (((Npos (XO (XI (XO (XI XH))))), (Npos (XI (XI (XO (XI (XI
    (XO XH)))))))) :: (((Npos (XI (XI (XO (XI XH))))), (Npos (XI (XO (XI (XI
    (XI (XO XH)))))))) :: (((Npos (XI (XI (XI (XO (XO XH)))))), (Npos (XI (XI
    (XO (XI (XI XH))))))) :: (((Npos (XO (XO (XO (XI (XO XH)))))), (Npos (XI
    (XI (XI (XO (XO XH))))))) :: (((Npos (XI (XO (XO (XI (XO XH)))))), (Npos
    (XO (XO (XO (XO (XO (XI XH)))))))) :: (((Npos (XI (XI (XO (XI (XO
    XH)))))), (Npos (XO (XO (XI (XI (XI (XO XH)))))))) :: (((Npos (XI (XI (XO
    (XO (XI XH)))))), (Npos (XO (XO (XI (XI (XO XH))))))) :: (((Npos (XO (XO
    (XI (XO (XI XH)))))), (Npos (XO (XI (XI (XI (XO XH))))))) :: (((Npos (XI
    (XO (XI (XO (XI XH)))))), (Npos (XI (XI (XI (XI (XO XH))))))) :: (((Npos
    (XI (XI (XI (XO (XI XH)))))), (Npos (XO (XI (XO (XI (XO
    XH))))))) :: (((Npos (XI (XI (XO (XI (XI XH)))))), (Npos (XI (XO (XO (XO
    (XO XH))))))) :: (((Npos (XO (XO (XI (XI (XI XH)))))), (Npos (XO (XO (XO
    (XO (XO (XO XH)))))))) :: (((Npos (XI (XO (XI (XI (XI XH)))))), (Npos (XI
    (XI (XO (XO (XO XH))))))) :: (((Npos (XO (XI (XI (XI (XI XH)))))), (Npos
    (XO (XO (XI (XO (XO XH))))))) :: (((Npos (XI (XI (XI (XI (XI XH)))))),
    (Npos (XI (XO (XI (XO (XO XH))))))) :: (((Npos (XO (XO (XO (XO (XO (XO
    XH))))))), (Npos (XO (XI (XI (XI (XI (XO XH)))))))) :: (((Npos (XI (XO
    (XO (XO (XO (XO XH))))))), (Npos (XO (XI (XI (XO (XO XH))))))) :: (((Npos
    (XO (XI (XO (XO (XO (XO XH))))))), (Npos (XO (XI (XO (XI (XO
    XH))))))) :: (((Npos (XI (XI (XO (XO (XO (XO XH))))))), (Npos (XO (XO (XO
    (XI (XO XH))))))) :: (((Npos (XO (XO (XI (XO (XO (XO XH))))))), (Npos (XI
    (XO (XO (XI (XO XH))))))) :: (((Npos (XI (XI (XI (XO (XO (XO XH))))))),
    (Npos (XI (XI (XI (XO (XI XH))))))) :: (((Npos (XO (XO (XO (XI (XO (XO
    XH))))))), (Npos (XO (XO (XO (XI (XI XH))))))) :: (((Npos (XI (XO (XO (XI
    (XO (XO XH))))))), (Npos (XI (XO (XO (XI (XI XH))))))) :: (((Npos (XO (XI
    (XO (XI (XO (XO XH))))))), (Npos (XI (XO (XI (XI (XO XH))))))) :: (((Npos
    (XI (XI (XO (XI (XO (XO XH))))))), (Npos (XO (XO (XI (XO (XI
    XH))))))) :: (((Npos (XO (XO (XI (XI (XO (XO XH))))))), (Npos (XI (XO (XI
    (XO (XI XH))))))) :: (((Npos (XI (XO (XI (XI (XO (XO XH))))))), (Npos (XO
    (XI (XI (XO (XI XH))))))) :: (((Npos (XO (XI (XI (XI (XO (XO XH))))))),
    (Npos (XI (XI (XO (XI (XO XH))))))) :: (((Npos (XI (XI (XI (XI (XO (XO
    XH))))))), (Npos (XI (XO (XO (XO (XI XH))))))) :: (((Npos (XO (XO (XO (XO
    (XI (XO XH))))))), (Npos (XO (XI (XO (XO (XI XH))))))) :: (((Npos (XI (XO
    (XO (XO (XI (XO XH))))))), (Npos (XI (XI (XO (XO (XI XH))))))) :: (((Npos
    (XO (XI (XO (XO (XI (XO XH))))))), (Npos (XO (XO (XO (XO (XI
    XH))))))) :: (((Npos (XI (XI (XO (XO (XI (XO XH))))))), (Npos (XO (XI (XI
    (XI (XO XH))))))) :: (((Npos (XI (XI (XI (XO (XI (XO XH))))))), (Npos (XI
    (XI (XI (XI (XI (XO XH)))))))) :: (((Npos (XO (XO (XO (XI (XI (XO
    XH))))))), (Npos (XI (XI (XO (XI (XO XH))))))) :: (((Npos (XI (XI (XO (XI
    (XI (XO XH))))))), (Npos (XI (XI (XO (XI (XI (XI XH)))))))) :: (((Npos
    (XO (XO (XI (XI (XI (XO XH))))))), (Npos (XI (XO (XI (XI (XI (XI
    XH)))))))) :: (((Npos (XI (XO (XI (XI (XI (XO XH))))))), (Npos (XO (XO
    (XI (XI (XI (XI XH)))))))) :: (((Npos (XI (XI (XO (XO (XO (XI XH))))))),
    (Npos (XO (XI (XO (XI (XI XH))))))) :: (((Npos (XO (XO (XI (XO (XO (XI
    XH))))))), (Npos (XO (XI (XO (XO (XO XH))))))) :: (((Npos (XI (XO (XI (XO
    (XO (XI XH))))))), (Npos (XO (XO (XI (XI (XI XH))))))) :: (((Npos (XO (XI
    (XI (XO (XO (XI XH))))))), (Npos (XO (XI (XI (XI (XI XH))))))) :: (((Npos
    (XI (XI (XI (XO (XO (XI XH))))))), (Npos (XI (XI (XI (XI (XI
    XH))))))) :: (((Npos (XI (XO (XI (XI (XO (XO (XO (XO (XO (XI (XI
    XH)))))))))))), (Npos (XI (XO (XI (XI (XI XH))))))) :: (((Npos (XI (XO
    (XI (XO (XI (XI (XO (XO (XO (XI (XI XH)))))))))))), (Npos (XI (XI (XI (XI
    (XO XH))))))) :: (((Npos (XO (XI (XI (XO (XI (XO (XO (XI (XO (XO (XO (XO
    (XO (XI (XO XH)))))))))))))))), (Npos (XI (XO (XO (XO (XO (XI
    XH)))))))) :: (((Npos (XI (XI (XI (XO (XI (XO (XO (XI (XO (XO (XO (XO (XO
    (XI (XO XH)))))))))))))))), (Npos (XO (XI (XO (XO (XO (XI
    XH)))))))) :: (((Npos (XO (XO (XO (XI (XI (XO (XO (XI (XO (XO (XO (XO (XO
    (XI (XO XH)))))))))))))))), (Npos (XI (XI (XO (XO (XO (XI
    XH)))))))) :: (((Npos (XI (XO (XO (XI (XI (XO (XO (XI (XO (XO (XO (XO (XO
    (XI (XO XH)))))))))))))))), (Npos (XO (XO (XI (XO (XO (XI
    XH)))))))) :: (((Npos (XO (XI (XO (XI (XI (XO (XO (XI (XO (XO (XO (XO (XO
    (XI (XO XH)))))))))))))))), (Npos (XI (XO (XI (XO (XO (XI
    XH)))))))) :: (((Npos (XI (XI (XO (XI (XI (XO (XO (XI (XO (XO (XO (XO (XO
    (XI (XO XH)))))))))))))))), (Npos (XO (XI (XI (XO (XO (XI
    XH)))))))) :: (((Npos (XO (XO (XI (XI (XI (XO (XO (XI (XO (XO (XO (XO (XO
    (XI (XO XH)))))))))))))))), (Npos (XI (XI (XI (XO (XO (XI
    XH)))))))) :: (((Npos (XI (XO (XI (XI (XI (XO (XO (XI (XO (XO (XO (XO (XO
    (XI (XO XH)))))))))))))))), (Npos (XO (XO (XO (XI (XO (XI
    XH)))))))) :: (((Npos (XO (XI (XI (XI (XI (XO (XO (XI (XO (XO (XO (XO (XO
    (XI (XO XH)))))))))))))))), (Npos (XI (XO (XO (XI (XO (XI
    XH)))))))) :: (((Npos (XI (XI (XI (XI (XI (XO (XO (XI (XO (XO (XO (XO (XO
    (XI (XO XH)))))))))))))))), (Npos (XO (XI (XO (XI (XO (XI
    XH)))))))) :: (((Npos (XO (XO (XO (XO (XO (XI (XO (XI (XO (XO (XO (XO (XO
    (XI (XO XH)))))))))))))))), (Npos (XI (XI (XO (XI (XO (XI
    XH)))))))) :: (((Npos (XI (XO (XO (XO (XO (XI (XO (XI (XO (XO (XO (XO (XO
    (XI (XO XH)))))))))))))))), (Npos (XO (XO (XI (XI (XO (XI
    XH)))))))) :: (((Npos (XO (XI (XO (XO (XO (XI (XO (XI (XO (XO (XO (XO (XO
    (XI (XO XH)))))))))))))))), (Npos (XI (XO (XI (XI (XO (XI
    XH)))))))) :: (((Npos (XI (XI (XO (XO (XO (XI (XO (XI (XO (XO (XO (XO (XO
    (XI (XO XH)))))))))))))))), (Npos (XO (XI (XI (XI (XO (XI
    XH)))))))) :: (((Npos (XO (XO (XI (XO (XO (XI (XO (XI (XO (XO (XO (XO (XO
    (XI (XO XH)))))))))))))))), (Npos (XI (XI (XI (XI (XO (XI
    XH)))))))) :: (((Npos (XI (XO (XI (XO (XO (XI (XO (XI (XO (XO (XO (XO (XO
    (XI (XO XH)))))))))))))))), (Npos (XO (XO (XO (XO (XI (XI
    XH)))))))) :: (((Npos (XO (XI (XI (XO (XO (XI (XO (XI (XO (XO (XO (XO (XO
    (XI (XO XH)))))))))))))))), (Npos (XI (XO (XO (XO (XI (XI
    XH)))))))) :: (((Npos (XI (XI (XI (XO (XO (XI (XO (XI (XO (XO (XO (XO (XO
    (XI (XO XH)))))))))))))))), (Npos (XO (XI (XO (XO (XI (XI
    XH)))))))) :: (((Npos (XO (XO (XO (XI (XO (XI (XO (XI (XO (XO (XO (XO (XO
    (XI (XO XH)))))))))))))))), (Npos (XI (XI (XO (XO (XI (XI
    XH)))))))) :: (((Npos (XI (XO (XO (XI (XO (XI (XO (XI (XO (XO (XO (XO (XO
    (XI (XO XH)))))))))))))))), (Npos (XO (XO (XI (XO (XI (XI
    XH)))))))) :: (((Npos (XO (XI (XO (XI (XO (XI (XO (XI (XO (XO (XO (XO (XO
    (XI (XO XH)))))))))))))))), (Npos (XI (XO (XI (XO (XI (XI
    XH)))))))) :: (((Npos (XI (XI (XO (XI (XO (XI (XO (XI (XO (XO (XO (XO (XO
    (XI (XO XH)))))))))))))))), (Npos (XO (XI (XI (XO (XI (XI
    XH)))))))) :: (((Npos (XO (XO (XI (XI (XO (XI (XO (XI (XO (XO (XO (XO (XO
    (XI (XO XH)))))))))))))))), (Npos (XI (XI (XI (XO (XI (XI
    XH)))))))) :: (((Npos (XI (XO (XI (XI (XO (XI (XO (XI (XO (XO (XO (XO (XO
    (XI (XO XH)))))))))))))))), (Npos (XO (XO (XO (XI (XI (XI
    XH)))))))) :: (((Npos (XO (XI (XI (XI (XO (XI (XO (XI (XO (XO (XO (XO (XO
    (XI (XO XH)))))))))))))))), (Npos (XI (XO (XO (XI (XI (XI
    XH)))))))) :: (((Npos (XI (XI (XI (XI (XO (XI (XO (XI (XO (XO (XO (XO (XO
    (XI (XO XH)))))))))))))))), (Npos (XO (XI (XO (XI (XI (XI
    XH)))))))) :: (((Npos (XO (XO (XI (XO (XI (XI (XO (XI (XO (XO (XO (XO (XO
    (XI (XO XH)))))))))))))))), (Npos (XI (XO (XO (XO (XO (XO
    XH)))))))) :: (((Npos (XI (XO (XI (XO (XI (XI (XO (XI (XO (XO (XO (XO (XO
    (XI (XO XH)))))))))))))))), (Npos (XO (XI (XO (XO (XO (XO
    XH)))))))) :: (((Npos (XO (XI (XI (XO (XI (XI (XO (XI (XO (XO (XO (XO (XO
    (XI (XO XH)))))))))))))))), (Npos (XI (XI (XO (XO (XO (XO
    XH)))))))) :: (((Npos (XI (XI (XI (XO (XI (XI (XO (XI (XO (XO (XO (XO (XO
    (XI (XO XH)))))))))))))))), (Npos (XO (XO (XI (XO (XO (XO
    XH)))))))) :: (((Npos (XO (XO (XO (XI (XI (XI (XO (XI (XO (XO (XO (XO (XO
    (XI (XO XH)))))))))))))))), (Npos (XI (XO (XI (XO (XO (XO
    XH)))))))) :: (((Npos (XI (XO (XO (XI (XI (XI (XO (XI (XO (XO (XO (XO (XO
    (XI (XO XH)))))))))))))))), (Npos (XO (XI (XI (XO (XO (XO
    XH)))))))) :: (((Npos (XO (XI (XO (XI (XI (XI (XO (XI (XO (XO (XO (XO (XO
    (XI (XO XH)))))))))))))))), (Npos (XI (XI (XI (XO (XO (XO
    XH)))))))) :: (((Npos (XI (XI (XO (XI (XI (XI (XO (XI (XO (XO (XO (XO (XO
    (XI (XO XH)))))))))))))))), (Npos (XO (XO (XO (XI (XO (XO
    XH)))))))) :: (((Npos (XO (XO (XI (XI (XI (XI (XO (XI (XO (XO (XO (XO (XO
    (XI (XO XH)))))))))))))))), (Npos (XI (XO (XO (XI (XO (XO
    XH)))))))) :: (((Npos (XI (XO (XI (XI (XI (XI (XO (XI (XO (XO (XO (XO (XO
    (XI (XO XH)))))))))))))))), (Npos (XO (XI (XO (XI (XO (XO
    XH)))))))) :: (((Npos (XO (XI (XI (XI (XI (XI (XO (XI (XO (XO (XO (XO (XO
    (XI (XO XH)))))))))))))))), (Npos (XI (XI (XO (XI (XO (XO
    XH)))))))) :: (((Npos (XI (XI (XI (XI (XI (XI (XO (XI (XO (XO (XO (XO (XO
    (XI (XO XH)))))))))))))))), (Npos (XO (XO (XI (XI (XO (XO
    XH)))))))) :: (((Npos (XO (XO (XO (XO (XO (XO (XI (XI (XO (XO (XO (XO (XO
    (XI (XO XH)))))))))))))))), (Npos (XI (XO (XI (XI (XO (XO
    XH)))))))) :: (((Npos (XI (XO (XO (XO (XO (XO (XI (XI (XO (XO (XO (XO (XO
    (XI (XO XH)))))))))))))))), (Npos (XO (XI (XI (XI (XO (XO
    XH)))))))) :: (((Npos (XO (XI (XO (XO (XO (XO (XI (XI (XO (XO (XO (XO (XO
    (XI (XO XH)))))))))))))))), (Npos (XI (XI (XI (XI (XO (XO
    XH)))))))) :: (((Npos (XI (XI (XO (XO (XO (XO (XI (XI (XO (XO (XO (XO (XO
    (XI (XO XH)))))))))))))))), (Npos (XO (XO (XO (XO (XI (XO
    XH)))))))) :: (((Npos (XO (XO (XI (XO (XO (XO (XI (XI (XO (XO (XO (XO (XO
    (XI (XO XH)))))))))))))))), (Npos (XI (XO (XO (XO (XI (XO
    XH)))))))) :: (((Npos (XI (XO (XI (XO (XO (XO (XI (XI (XO (XO (XO (XO (XO
    (XI (XO XH)))))))))))))))), (Npos (XO (XI (XO (XO (XI (XO
    XH)))))))) :: (((Npos (XO (XI (XI (XO (XO (XO (XI (XI (XO (XO (XO (XO (XO
    (XI (XO XH)))))))))))))))), (Npos (XI (XI (XO (XO (XI (XO
    XH)))))))) :: (((Npos (XI (XI (XI (XO (XO (XO (XI (XI (XO (XO (XO (XO (XO
    (XI (XO XH)))))))))))))))), (Npos (XO (XO (XI (XO (XI (XO
    XH)))))))) :: (((Npos (XO (XO (XO (XI (XO (XO (XI (XI (XO (XO (XO (XO (XO
    (XI (XO XH)))))))))))))))), (Npos (XI (XO (XI (XO (XI (XO
    XH)))))))) :: (((Npos (XI (XO (XO (XI (XO (XO (XI (XI (XO (XO (XO (XO (XO
    (XI (XO XH)))))))))))))))), (Npos (XO (XI (XI (XO (XI (XO
    XH)))))))) :: (((Npos (XO (XI (XO (XI (XO (XO (XI (XI (XO (XO (XO (XO (XO
    (XI (XO XH)))))))))))))))), (Npos (XI (XI (XI (XO (XI (XO
    XH)))))))) :: (((Npos (XI (XI (XO (XI (XO (XO (XI (XI (XO (XO (XO (XO (XO
    (XI (XO XH)))))))))))))))), (Npos (XO (XO (XO (XI (XI (XO
    XH)))))))) :: (((Npos (XO (XO (XI (XI (XO (XO (XI (XI (XO (XO (XO (XO (XO
    (XI (XO XH)))))))))))))))), (Npos (XI (XO (XO (XI (XI (XO
    XH)))))))) :: (((Npos (XI (XO (XI (XI (XO (XO (XI (XI (XO (XO (XO (XO (XO
    (XI (XO XH)))))))))))))))), (Npos (XO (XI (XO (XI (XI (XO
    XH)))))))) :: [])))))))))))))))))))))))))))))))))))))))))))))))))))))))))))))))))))))))))))))))))))))))))))))))))))))))))))))

(** val gen_lookups : (n * n) list **)

let gen_lookups =
  ((Npos (XO (XO XH))), (Npos (XI (XO (XO (XI (XI (XI XH)))))))) :: (((Npos
    (XI (XO XH))), (Npos (XI (XO (XO (XI (XI (XI XH)))))))) :: (((Npos (XO
    (XI XH))), (Npos (XO (XO (XO (XI (XI (XI XH)))))))) :: (((Npos (XI (XI
    XH))), (Npos (XO (XO (XO (XI (XI (XI XH)))))))) :: (((Npos (XO (XO (XO
    XH)))), (Npos (XI XH))) :: (((Npos (XI (XO (XO XH)))), (Npos (XI
    XH))) :: (((Npos (XO (XI (XO XH)))), (Npos (XO XH))) :: (((Npos (XI (XI
    (XO XH)))), (Npos (XO XH))) :: (((Npos (XO (XO (XI XH)))), (Npos (XI (XO
    XH)))) :: (((Npos (XI (XO (XI XH)))), (Npos (XI (XO XH)))) :: (((Npos (XO
    (XI (XI XH)))), (Npos (XO (XO XH)))) :: (((Npos (XI (XI (XI XH)))), (Npos
    (XO (XO XH)))) :: (((Npos (XO (XO (XO (XO XH))))), (Npos (XI (XI
    XH)))) :: (((Npos (XI (XO (XO (XO XH))))), (Npos (XI (XI
    XH)))) :: (((Npos (XO (XI (XO (XO XH))))), (Npos (XO (XI
    XH)))) :: (((Npos (XI (XI (XO (XO XH))))), (Npos (XO (XI
    XH)))) :: (((Npos (XO (XO (XI (XO XH))))), (Npos (XI (XO (XO
    XH))))) :: (((Npos (XI (XO (XI (XO XH))))), (Npos (XI (XO (XO
    XH))))) :: (((Npos (XO (XI (XI (XO XH))))), (Npos (XO (XO (XO
    XH))))) :: (((Npos (XI (XI (XI (XO XH))))), (Npos (XO (XO (XO
    XH))))) :: (((Npos (XO (XO (XO (XI XH))))), (Npos (XI (XI (XO
    XH))))) :: (((Npos (XI (XO (XO (XI XH))))), (Npos (XI (XI (XO
    XH))))) :: (((Npos (XO (XI (XO (XI XH))))), (Npos (XO (XI (XO
    XH))))) :: (((Npos (XI (XI (XO (XI XH))))), (Npos (XO (XI (XO
    XH))))) :: (((Npos (XO (XO (XI (XI XH))))), (Npos (XI (XO (XI
    XH))))) :: (((Npos (XI (XO (XI (XI XH))))), (Npos (XI (XO (XI
    XH))))) :: (((Npos (XO (XI (XI (XI XH))))), (Npos (XO (XO (XI
    XH))))) :: (((Npos (XI (XI (XI (XI XH))))), (Npos (XO (XO (XI
    XH))))) :: (((Npos (XO (XO (XO (XO (XO XH)))))), (Npos (XI (XI (XI
    XH))))) :: (((Npos (XI (XO (XO (XO (XO XH)))))), (Npos (XI (XI (XI
    XH))))) :: (((Npos (XO (XI (XO (XO (XO XH)))))), (Npos (XO (XI (XI
    XH))))) :: (((Npos (XI (XI (XO (XO (XO XH)))))), (Npos (XO (XI (XI
    XH))))) :: (((Npos (XO (XO (XI (XO (XO XH)))))), (Npos (XI (XO (XO (XO
    XH)))))) :: (((Npos (XI (XO (XI (XO (XO XH)))))), (Npos (XI (XO (XO (XO
    XH)))))) :: (((Npos (XO (XI (XI (XO (XO XH)))))), (Npos (XO (XO (XO (XO
    XH)))))) :: (((Npos (XI (XI (XI (XO (XO XH)))))), (Npos (XO (XO (XO (XO
    XH)))))) :: (((Npos (XO (XO (XO (XI (XO XH)))))), (Npos (XI (XI (XO (XO
    XH)))))) :: (((Npos (XI (XO (XO (XI (XO XH)))))), (Npos (XI (XI (XO (XO
    XH)))))) :: (((Npos (XO (XI (XO (XI (XO XH)))))), (Npos (XO (XI (XO (XO
    XH)))))) :: (((Npos (XI (XI (XO (XI (XO XH)))))), (Npos (XO (XI (XO (XO
    XH)))))) :: (((Npos (XO (XO (XI (XI (XO XH)))))), (Npos XH)) :: (((Npos
    (XI (XO (XI (XI (XO XH)))))), (Npos XH)) :: (((Npos (XO (XI (XI (XI (XO
    XH)))))), N0) :: (((Npos (XI (XI (XI (XI (XO XH)))))), N0) :: (((Npos (XO
    (XO (XO (XO (XI XH)))))), (Npos (XI (XI (XI (XO (XI (XO
    XH)))))))) :: (((Npos (XI (XO (XO (XO (XI XH)))))), (Npos (XI (XI (XI (XO
    (XI (XO XH)))))))) :: (((Npos (XO (XI (XO (XO (XI XH)))))), (Npos (XO (XI
    (XI (XO (XI (XO XH)))))))) :: (((Npos (XI (XI (XO (XO (XI XH)))))), (Npos
    (XO (XI (XI (XO (XI (XO XH)))))))) :: (((Npos (XO (XO (XI (XO (XI
    XH)))))), (Npos (XI (XI (XO (XI (XI XH))))))) :: (((Npos (XI (XO (XI (XO
    (XI XH)))))), (Npos (XI (XI (XO (XI (XI XH))))))) :: (((Npos (XO (XI (XI
    (XO (XI XH)))))), (Npos (XO (XI (XO (XI (XI XH))))))) :: (((Npos (XI (XI
    (XI (XO (XI XH)))))), (Npos (XO (XI (XO (XI (XI XH))))))) :: (((Npos (XO
    (XO (XO (XI (XO (XI XH))))))), (Npos (XI (XO (XO (XI (XO
    XH))))))) :: (((Npos (XI (XO (XO (XI (XO (XI XH))))))), (Npos (XI (XO (XO
    (XI (XO XH))))))) :: (((Npos (XO (XI (XO (XI (XO (XI XH))))))), (Npos (XO
    (XO (XO (XI (XO XH))))))) :: (((Npos (XI (XI (XO (XI (XO (XI XH))))))),
    (Npos (XO (XO (XO (XI (XO XH))))))) :: (((Npos (XO (XO (XI (XI (XO (XI
    XH))))))), (Npos (XI (XI (XO (XI (XO XH))))))) :: (((Npos (XI (XO (XI (XI
    (XO (XI XH))))))), (Npos (XI (XI (XO (XI (XO XH))))))) :: (((Npos (XO (XI
    (XI (XI (XO (XI XH))))))), (Npos (XO (XI (XO (XI (XO XH))))))) :: (((Npos
    (XI (XI (XI (XI (XO (XI XH))))))), (Npos (XO (XI (XO (XI (XO
    XH))))))) :: (((Npos (XO (XO (XI (XI (XI (XO (XO XH)))))))), (Npos (XI
    (XI (XO (XO (XI (XI XH)))))))) :: (((Npos (XI (XO (XI (XI (XI (XO (XO
    XH)))))))), (Npos (XI (XI (XO (XO (XI (XI XH)))))))) :: (((Npos (XO (XI
    (XI (XI (XI (XO (XO XH)))))))), (Npos (XO (XI (XO (XO (XI (XI
    XH)))))))) :: (((Npos (XI (XI (XI (XI (XI (XO (XO XH)))))))), (Npos (XO
    (XI (XO (XO (XI (XI XH)))))))) :: (((Npos (XO (XO (XO (XO (XO (XI (XO
    XH)))))))), (Npos (XI (XO (XO (XI XH)))))) :: (((Npos (XI (XO (XO (XO (XO
    (XI (XO XH)))))))), (Npos (XI (XO (XO (XI XH)))))) :: (((Npos (XO (XI (XO
    (XO (XO (XI (XO XH)))))))), (Npos (XO (XO (XO (XI XH)))))) :: (((Npos (XI
    (XI (XO (XO (XO (XI (XO XH)))))))), (Npos (XO (XO (XO (XI
    XH)))))) :: (((Npos (XO (XO (XI (XO (XO (XI (XO XH)))))))), (Npos (XI (XI
    (XO (XO (XO (XO XH)))))))) :: (((Npos (XI (XO (XI (XO (XO (XI (XO
    XH)))))))), (Npos (XI (XI (XO (XO (XO (XO XH)))))))) :: (((Npos (XO (XI
    (XI (XO (XO (XI (XO XH)))))))), (Npos (XO (XI (XO (XO (XO (XO
    XH)))))))) :: (((Npos (XI (XI (XI (XO (XO (XI (XO XH)))))))), (Npos (XO
    (XI (XO (XO (XO (XO XH)))))))) :: (((Npos (XO (XO (XI (XI (XO (XI (XO
    XH)))))))), (Npos (XI (XO (XO (XO (XO XH))))))) :: (((Npos (XI (XO (XI
    (XI (XO (XI (XO XH)))))))), (Npos (XI (XO (XO (XO (XO
    XH))))))) :: (((Npos (XO (XI (XI (XI (XO (XI (XO XH)))))))), (Npos (XO
    (XO (XO (XO (XO XH))))))) :: (((Npos (XI (XI (XI (XI (XO (XI (XO
    XH)))))))), (Npos (XO (XO (XO (XO (XO XH))))))) :: (((Npos (XO (XO (XI
    (XI (XO (XO (XI XH)))))))), (Npos (XI (XI (XO (XO (XI
    XH))))))) :: (((Npos (XI (XO (XI (XI (XO (XO (XI XH)))))))), (Npos (XI
    (XI (XO (XO (XI XH))))))) :: (((Npos (XO (XI (XI (XI (XO (XO (XI
    XH)))))))), (Npos (XO (XI (XO (XO (XI XH))))))) :: (((Npos (XI (XI (XI
    (XI (XO (XO (XI XH)))))))), (Npos (XO (XI (XO (XO (XI
    XH))))))) :: (((Npos (XO (XO (XO (XO (XI (XO (XI XH)))))))), (Npos (XI
    (XO (XI (XO (XO (XI XH)))))))) :: (((Npos (XI (XO (XO (XO (XI (XO (XI
    XH)))))))), (Npos (XI (XO (XI (XO (XO (XI XH)))))))) :: (((Npos (XO (XI
    (XO (XO (XI (XO (XI XH)))))))), (Npos (XO (XO (XI (XO (XO (XI
    XH)))))))) :: (((Npos (XI (XI (XO (XO (XI (XO (XI XH)))))))), (Npos (XO
    (XO (XI (XO (XO (XI XH)))))))) :: (((Npos (XO (XO (XI (XO (XI (XO (XI
    XH)))))))), (Npos (XI (XO (XI (XO (XI (XI XH)))))))) :: (((Npos (XI (XO
    (XI (XO (XI (XO (XI XH)))))))), (Npos (XI (XO (XI (XO (XI (XI
    XH)))))))) :: (((Npos (XO (XI (XI (XO (XI (XO (XI XH)))))))), (Npos (XO
    (XO (XI (XO (XI (XI XH)))))))) :: (((Npos (XI (XI (XI (XO (XI (XO (XI
    XH)))))))), (Npos (XO (XO (XI (XO (XI (XI XH)))))))) :: (((Npos (XI (XO
    (XI (XI (XI (XO (XI XH)))))))), (Npos (XI (XO (XO (XI (XO (XO (XI
    XH))))))))) :: (((Npos (XI (XI (XI (XI (XI (XO (XI XH)))))))), (Npos (XI
    (XO (XO (XI (XO (XO (XI XH))))))))) :: (((Npos (XO (XO (XI (XI (XO (XI
    (XI XH)))))))), (Npos (XI (XO (XI (XI (XI XH))))))) :: (((Npos (XI (XO
    (XI (XI (XO (XI (XI XH)))))))), (Npos (XI (XO (XI (XI (XI
    XH))))))) :: (((Npos (XO (XI (XI (XI (XO (XI (XI XH)))))))), (Npos (XO
    (XO (XI (XI (XI XH))))))) :: (((Npos (XI (XI (XI (XI (XO (XI (XI
    XH)))))))), (Npos (XO (XO (XI (XI (XI XH))))))) :: (((Npos (XO (XO (XO
    (XO (XI (XI (XI XH)))))))), (Npos (XI (XO (XI (XI XH)))))) :: (((Npos (XI
    (XO (XO (XO (XI (XI (XI XH)))))))), (Npos (XI (XO (XI (XI
    XH)))))) :: (((Npos (XO (XI (XO (XO (XI (XI (XI XH)))))))), (Npos (XO (XO
    (XI (XI XH)))))) :: (((Npos (XI (XI (XO (XO (XI (XI (XI XH)))))))), (Npos
    (XO (XO (XI (XI XH)))))) :: (((Npos (XO (XO (XI (XO (XI (XI (XI
    XH)))))))), (Npos (XI (XO (XO (XI (XO (XO XH)))))))) :: (((Npos (XI (XO
    (XI (XO (XI (XI (XI XH)))))))), (Npos (XI (XO (XO (XI (XO (XO
    XH)))))))) :: (((Npos (XO (XI (XI (XO (XI (XI (XI XH)))))))), (Npos (XO
    (XO (XO (XI (XO (XO XH)))))))) :: (((Npos (XI (XI (XI (XO (XI (XI (XI
    XH)))))))), (Npos (XO (XO (XO (XI (XO (XO XH)))))))) :: (((Npos (XO (XO
    (XO (XI (XI (XI (XI XH)))))))), (Npos (XI (XI (XI (XO (XI
    XH))))))) :: (((Npos (XI (XO (XO (XI (XI (XI (XI XH)))))))), (Npos (XI
    (XI (XI (XO (XI XH))))))) :: (((Npos (XO (XI (XO (XI (XI (XI (XI
    XH)))))))), (Npos (XO (XI (XI (XO (XI XH))))))) :: (((Npos (XI (XI (XO
    (XI (XI (XI (XI XH)))))))), (Npos (XO (XI (XI (XO (XI
    XH))))))) :: (((Npos (XO (XO (XI (XI (XI (XI (XI XH)))))))), (Npos (XI
    (XI (XO (XO (XO (XI XH)))))))) :: (((Npos (XI (XO (XI (XI (XI (XI (XI
    XH)))))))), (Npos (XI (XI (XO (XO (XO (XI XH)))))))) :: (((Npos (XO (XI
    (XI (XI (XI (XI (XI XH)))))))), (Npos (XO (XI (XO (XO (XO (XI
    XH)))))))) :: (((Npos (XI (XI (XI (XI (XI (XI (XI XH)))))))), (Npos (XO
    (XI (XO (XO (XO (XI XH)))))))) :: (((Npos (XO (XO (XO (XO (XO (XO (XO (XO
    XH))))))))), (Npos (XI (XI (XI (XI (XO XH))))))) :: (((Npos (XI (XO (XO
    (XO (XO (XO (XO (XO XH))))))))), (Npos (XI (XI (XI (XI (XO
    XH))))))) :: (((Npos (XO (XI (XO (XO (XO (XO (XO (XO XH))))))))), (Npos
    (XO (XI (XI (XI (XO XH))))))) :: (((Npos (XI (XI (XO (XO (XO (XO (XO (XO
    XH))))))))), (Npos (XO (XI (XI (XI (XO XH))))))) :: (((Npos (XO (XO (XI
    (XO (XO (XO (XO (XO XH))))))))), (Npos (XI (XI (XI (XO
    XH)))))) :: (((Npos (XI (XO (XI (XO (XO (XO (XO (XO XH))))))))), (Npos
    (XI (XI (XI (XO XH)))))) :: (((Npos (XO (XI (XI (XO (XO (XO (XO (XO
    XH))))))))), (Npos (XO (XI (XI (XO XH)))))) :: (((Npos (XI (XI (XI (XO
    (XO (XO (XO (XO XH))))))))), (Npos (XO (XI (XI (XO XH)))))) :: (((Npos
    (XO (XO (XO (XI (XO (XO (XO (XO XH))))))))), (Npos (XI (XI (XO (XI
    XH)))))) :: (((Npos (XI (XO (XO (XI (XO (XO (XO (XO XH))))))))), (Npos
    (XI (XI (XO (XI XH)))))) :: (((Npos (XO (XI (XO (XI (XO (XO (XO (XO
    XH))))))))), (Npos (XO (XI (XO (XI XH)))))) :: (((Npos (XI (XI (XO (XI
    (XO (XO (XO (XO XH))))))))), (Npos (XO (XI (XO (XI XH)))))) :: (((Npos
    (XO (XO (XI (XI (XO (XO (XO (XO XH))))))))), (Npos (XI (XI (XI (XI (XI
    (XO XH)))))))) :: (((Npos (XI (XO (XI (XI (XO (XO (XO (XO XH))))))))),
    (Npos (XI (XI (XI (XI (XI (XO XH)))))))) :: (((Npos (XO (XI (XI (XI (XO
    (XO (XO (XO XH))))))))), (Npos (XO (XI (XI (XI (XI (XO
    XH)))))))) :: (((Npos (XI (XI (XI (XI (XO (XO (XO (XO XH))))))))), (Npos
    (XO (XI (XI (XI (XI (XO XH)))))))) :: (((Npos (XO (XO (XO (XO (XI (XO (XO
    (XO XH))))))))), (Npos (XI (XO (XO (XO (XO (XI XH)))))))) :: (((Npos (XI
    (XO (XO (XO (XI (XO (XO (XO XH))))))))), (Npos (XI (XO (XO (XO (XO (XI
    XH)))))))) :: (((Npos (XO (XI (XO (XO (XI (XO (XO (XO XH))))))))), (Npos
    (XO (XO (XO (XO (XO (XI XH)))))))) :: (((Npos (XI (XI (XO (XO (XI (XO (XO
    (XO XH))))))))), (Npos (XO (XO (XO (XO (XO (XI XH)))))))) :: (((Npos (XI
    (XO (XI (XI (XI (XO (XO (XO XH))))))))), (Npos (XI (XI (XO (XO (XO (XO
    (XI XH))))))))) :: (((Npos (XI (XI (XI (XI (XI (XO (XO (XO XH))))))))),
    (Npos (XI (XI (XO (XO (XO (XO (XI XH))))))))) :: (((Npos (XI (XO (XO (XO
    (XO (XI (XO (XO XH))))))))), (Npos (XO (XO (XI (XO (XO (XO (XI
    XH))))))))) :: (((Npos (XI (XI (XO (XO (XO (XI (XO (XO XH))))))))), (Npos
    (XO (XO (XI (XO (XO (XO (XI XH))))))))) :: (((Npos (XI (XO (XI (XO (XO
    (XI (XO (XO XH))))))))), (Npos (XI (XO (XI (XO (XO (XO (XI
    XH))))))))) :: (((Npos (XI (XI (XI (XO (XO (XI (XO (XO XH))))))))), (Npos
    (XI (XO (XI (XO (XO (XO (XI XH))))))))) :: (((Npos (XI (XO (XO (XI (XO
    (XI (XO (XO XH))))))))), (Npos (XO (XI (XO (XI (XO (XO (XI
    XH))))))))) :: (((Npos (XI (XI (XO (XI (XO (XI (XO (XO XH))))))))), (Npos
    (XO (XI (XO (XI (XO (XO (XI XH))))))))) :: (((Npos (XI (XO (XI (XI (XO
    (XI (XO (XO XH))))))))), (Npos (XO (XO (XO (XO (XO (XO (XI
    XH))))))))) :: (((Npos (XI (XI (XI (XI (XO (XI (XO (XO XH))))))))), (Npos
    (XO (XO (XO (XO (XO (XO (XI XH))))))))) :: (((Npos (XI (XO (XO (XO (XI
    (XI (XO (XO XH))))))))), (Npos (XI (XO (XO (XO (XO (XO (XI
    XH))))))))) :: (((Npos (XI (XI (XO (XO (XI (XI (XO (XO XH))))))))), (Npos
    (XI (XO (XO (XO (XO (XO (XI XH))))))))) :: (((Npos (XI (XO (XI (XO (XI
    (XI (XO (XO XH))))))))), (Npos (XO (XI (XO (XO (XO (XO (XI
    XH))))))))) :: (((Npos (XI (XI (XI (XO (XI (XI (XO (XO XH))))))))), (Npos
    (XO (XI (XO (XO (XO (XO (XI XH))))))))) :: (((Npos (XI (XO (XO (XI (XI
    (XI (XO (XO XH))))))))), (Npos (XO (XI (XI (XO (XO (XO (XI
    XH))))))))) :: (((Npos (XI (XI (XO (XI (XI (XI (XO (XO XH))))))))), (Npos
    (XO (XI (XI (XO (XO (XO (XI XH))))))))) :: (((Npos (XI (XO (XI (XI (XI
    (XI (XO (XO XH))))))))), (Npos (XI (XO (XI (XI (XI (XI (XO
    XH))))))))) :: (((Npos (XI (XI (XI (XI (XI (XI (XO (XO XH))))))))), (Npos
    (XI (XO (XI (XI (XI (XI (XO XH))))))))) :: (((Npos (XI (XO (XO (XO (XO
    (XO (XI (XO XH))))))))), (Npos (XO (XI (XI (XI (XI (XI (XO
    XH))))))))) :: (((Npos (XI (XI (XO (XO (XO (XO (XI (XO XH))))))))), (Npos
    (XO (XI (XI (XI (XI (XI (XO XH))))))))) :: (((Npos (XI (XO (XI (XO (XO
    (XO (XI (XO XH))))))))), (Npos (XI (XI (XI (XI (XI (XI (XO
    XH))))))))) :: (((Npos (XI (XI (XI (XO (XO (XO (XI (XO XH))))))))), (Npos
    (XI (XI (XI (XI (XI (XI (XO XH))))))))) :: (((Npos (XI (XO (XO (XI (XO
    (XO (XI (XO XH))))))))), (Npos (XO (XO (XI (XI (XI (XI (XO
    XH))))))))) :: (((Npos (XI (XI (XO (XI (XO (XO (XI (XO XH))))))))), (Npos
    (XO (XO (XI (XI (XI (XI (XO XH))))))))) :: (((Npos (XI (XO (XI (XI (XO
    (XO (XI (XO XH))))))))), (Npos (XI (XI (XI (XO (XO (XO (XI
    XH))))))))) :: (((Npos (XI (XI (XI (XI (XO (XO (XI (XO XH))))))))), (Npos
    (XI (XI (XI (XO (XO (XO (XI XH))))))))) :: (((Npos (XO (XO (XI (XI (XI
    (XO (XI (XO XH))))))))), (Npos (XI (XO (XI (XI (XI (XI
    XH)))))))) :: (((Npos (XI (XO (XI (XI (XI (XO (XI (XO XH))))))))), (Npos
    (XI (XO (XI (XI (XI (XI XH)))))))) :: (((Npos (XO (XI (XI (XI (XI (XO (XI
    (XO XH))))))))), (Npos (XO (XO (XI (XI (XI (XI XH)))))))) :: (((Npos (XI
    (XI (XI (XI (XI (XO (XI (XO XH))))))))), (Npos (XO (XO (XI (XI (XI (XI
    XH)))))))) :: (((Npos (XO (XO (XO (XO (XO (XI (XI (XO XH))))))))), (Npos
    (XI (XI (XI (XO (XO (XI XH)))))))) :: (((Npos (XI (XO (XO (XO (XO (XI (XI
    (XO XH))))))))), (Npos (XI (XI (XI (XO (XO (XI XH)))))))) :: (((Npos (XO
    (XI (XO (XO (XO (XI (XI (XO XH))))))))), (Npos (XO (XI (XI (XO (XO (XI
    XH)))))))) :: (((Npos (XI (XI (XO (XO (XO (XI (XI (XO XH))))))))), (Npos
    (XO (XI (XI (XO (XO (XI XH)))))))) :: (((Npos (XO (XO (XI (XI (XO (XI (XI
    (XO XH))))))))), (Npos (XI (XO (XI (XO (XO XH))))))) :: (((Npos (XI (XO
    (XI (XI (XO (XI (XI (XO XH))))))))), (Npos (XI (XO (XI (XO (XO
    XH))))))) :: (((Npos (XO (XI (XI (XI (XO (XI (XI (XO XH))))))))), (Npos
    (XO (XO (XI (XO (XO XH))))))) :: (((Npos (XI (XI (XI (XI (XO (XI (XI (XO
    XH))))))))), (Npos (XO (XO (XI (XO (XO XH))))))) :: (((Npos (XO (XO (XO
    (XO (XI (XI (XI (XO XH))))))))), (Npos (XI (XI (XI (XO (XO
    XH))))))) :: (((Npos (XI (XO (XO (XO (XI (XI (XI (XO XH))))))))), (Npos
    (XI (XI (XI (XO (XO XH))))))) :: (((Npos (XO (XI (XO (XO (XI (XI (XI (XO
    XH))))))))), (Npos (XO (XI (XI (XO (XO XH))))))) :: (((Npos (XI (XI (XO
    (XO (XI (XI (XI (XO XH))))))))), (Npos (XO (XI (XI (XO (XO
    XH))))))) :: (((Npos (XO (XO (XI (XO (XI (XI (XI (XO XH))))))))), (Npos
    (XI (XI (XO (XO (XO XH))))))) :: (((Npos (XI (XO (XI (XO (XI (XI (XI (XO
    XH))))))))), (Npos (XI (XI (XO (XO (XO XH))))))) :: (((Npos (XO (XI (XI
    (XO (XI (XI (XI (XO XH))))))))), (Npos (XO (XI (XO (XO (XO
    XH))))))) :: (((Npos (XI (XI (XI (XO (XI (XI (XI (XO XH))))))))), (Npos
    (XO (XI (XO (XO (XO XH))))))) :: (((Npos (XO (XO (XI (XI (XO (XO (XO (XI
    XH))))))))), (Npos (XI (XO (XO (XO (XI XH))))))) :: (((Npos (XI (XO (XI
    (XI (XO (XO (XO (XI XH))))))))), (Npos (XI (XO (XO (XO (XI
    XH))))))) :: (((Npos (XO (XI (XI (XI (XO (XO (XO (XI XH))))))))), (Npos
    (XO (XO (XO (XO (XI XH))))))) :: (((Npos (XI (XI (XI (XI (XO (XO (XO (XI
    XH))))))))), (Npos (XO (XO (XO (XO (XI XH))))))) :: (((Npos (XO (XO (XO
    (XO (XI (XO (XO (XI XH))))))))), (Npos (XI (XO (XI (XI (XO (XI
    XH)))))))) :: (((Npos (XI (XO (XO (XO (XI (XO (XO (XI XH))))))))), (Npos
    (XI (XO (XI (XI (XO (XI XH)))))))) :: (((Npos (XO (XI (XO (XO (XI (XO (XO
    (XI XH))))))))), (Npos (XO (XO (XI (XI (XO (XI XH)))))))) :: (((Npos (XI
    (XI (XO (XO (XI (XO (XO (XI XH))))))))), (Npos (XO (XO (XI (XI (XO (XI
    XH)))))))) :: (((Npos (XO (XO (XI (XO (XI (XO (XO (XI XH))))))))), (Npos
    (XI (XI (XO (XO (XI (XO XH)))))))) :: (((Npos (XI (XO (XI (XO (XI (XO (XO
    (XI XH))))))))), (Npos (XI (XI (XO (XO (XI (XO XH)))))))) :: (((Npos (XO
    (XI (XI (XO (XI (XO (XO (XI XH))))))))), (Npos (XO (XI (XO (XO (XI (XO
    XH)))))))) :: (((Npos (XI (XI (XI (XO (XI (XO (XO (XI XH))))))))), (Npos
    (XO (XI (XO (XO (XI (XO XH)))))))) :: (((Npos (XO (XO (XO (XI (XI (XO (XO
    (XI XH))))))))), (Npos (XI (XO (XI (XO (XO (XO XH)))))))) :: (((Npos (XI
    (XO (XO (XI (XI (XO (XO (XI XH))))))))), (Npos (XI (XO (XI (XO (XO (XO
    XH)))))))) :: (((Npos (XO (XI (XO (XI (XI (XO (XO (XI XH))))))))), (Npos
    (XO (XO (XI (XO (XO (XO XH)))))))) :: (((Npos (XI (XI (XO (XI (XI (XO (XO
    (XI XH))))))))), (Npos (XO (XO (XI (XO (XO (XO XH)))))))) :: (((Npos (XO
    (XO (XI (XI (XI (XO (XO (XI XH))))))))), (Npos (XI (XI (XO (XI (XO (XI
    XH)))))))) :: (((Npos (XI (XO (XI (XI (XI (XO (XO (XI XH))))))))), (Npos
    (XI (XI (XO (XI (XO (XI XH)))))))) :: (((Npos (XO (XI (XI (XI (XI (XO (XO
    (XI XH))))))))), (Npos (XO (XI (XO (XI (XO (XI XH)))))))) :: (((Npos (XI
    (XI (XI (XI (XI (XO (XO (XI XH))))))))), (Npos (XO (XI (XO (XI (XO (XI
    XH)))))))) :: (((Npos (XI (XO (XI (XO (XI (XO (XI (XI (XO (XO (XO (XI (XI
    XH)))))))))))))), (Npos (XO (XO (XO (XI (XO (XO (XI
    XH))))))))) :: (((Npos (XI (XI (XI (XO (XI (XO (XI (XI (XO (XO (XO (XI
    (XI XH)))))))))))))), (Npos (XO (XO (XO (XI (XO (XO (XI
    XH))))))))) :: (((Npos (XO (XO (XO (XI (XI (XO (XI (XO (XO (XI (XO (XO
    (XO (XO (XO (XI (XO XH)))))))))))))))))), (Npos (XI (XO (XO (XI (XO (XO
    (XO XH))))))))) :: (((Npos (XI (XO (XO (XI (XI (XO (XI (XO (XO (XI (XO
    (XO (XO (XO (XO (XI (XO XH)))))))))))))))))), (Npos (XI (XO (XO (XI (XO
    (XO (XO XH))))))))) :: (((Npos (XO (XI (XO (XI (XI (XO (XI (XO (XO (XI
    (XO (XO (XO (XO (XO (XI (XO XH)))))))))))))))))), (Npos (XO (XO (XO (XI
    (XO (XO (XO XH))))))))) :: (((Npos (XI (XI (XO (XI (XI (XO (XI (XO (XO
    (XI (XO (XO (XO (XO (XO (XI (XO XH)))))))))))))))))), (Npos (XO (XO (XO
    (XI (XO (XO (XO XH))))))))) :: (((Npos (XO (XO (XI (XI (XI (XO (XI (XO
    (XO (XI (XO (XO (XO (XO (XO (XI (XO XH)))))))))))))))))), (Npos (XI (XI
    (XO (XI (XO (XO (XO XH))))))))) :: (((Npos (XI (XO (XI (XI (XI (XO (XI
    (XO (XO (XI (XO (XO (XO (XO (XO (XI (XO XH)))))))))))))))))), (Npos (XI
    (XI (XO (XI (XO (XO (XO XH))))))))) :: (((Npos (XO (XI (XI (XI (XI (XO
    (XI (XO (XO (XI (XO (XO (XO (XO (XO (XI (XO XH)))))))))))))))))), (Npos
    (XO (XI (XO (XI (XO (XO (XO XH))))))))) :: (((Npos (XI (XI (XI (XI (XI
    (XO (XI (XO (XO (XI (XO (XO (XO (XO (XO (XI (XO XH)))))))))))))))))),
    (Npos (XO (XI (XO (XI (XO (XO (XO XH))))))))) :: (((Npos (XO (XO (XO (XO
    (XO (XI (XI (XO (XO (XI (XO (XO (XO (XO (XO (XI (XO XH)))))))))))))))))),
    (Npos (XI (XO (XI (XI (XO (XO (XO XH))))))))) :: (((Npos (XI (XO (XO (XO
    (XO (XI (XI (XO (XO (XI (XO (XO (XO (XO (XO (XI (XO XH)))))))))))))))))),
    (Npos (XI (XO (XI (XI (XO (XO (XO XH))))))))) :: (((Npos (XO (XI (XO (XO
    (XO (XI (XI (XO (XO (XI (XO (XO (XO (XO (XO (XI (XO XH)))))))))))))))))),
    (Npos (XO (XO (XI (XI (XO (XO (XO XH))))))))) :: (((Npos (XI (XI (XO (XO
    (XO (XI (XI (XO (XO (XI (XO (XO (XO (XO (XO (XI (XO XH)))))))))))))))))),
    (Npos (XO (XO (XI (XI (XO (XO (XO XH))))))))) :: (((Npos (XO (XO (XI (XO
    (XO (XI (XI (XO (XO (XI (XO (XO (XO (XO (XO (XI (XO XH)))))))))))))))))),
    (Npos (XI (XI (XI (XI (XO (XO (XO XH))))))))) :: (((Npos (XI (XO (XI (XO
    (XO (XI (XI (XO (XO (XI (XO (XO (XO (XO (XO (XI (XO XH)))))))))))))))))),
    (Npos (XI (XI (XI (XI (XO (XO (XO XH))))))))) :: (((Npos (XO (XI (XI (XO
    (XO (XI (XI (XO (XO (XI (XO (XO (XO (XO (XO (XI (XO XH)))))))))))))))))),
    (Npos (XO (XI (XI (XI (XO (XO (XO XH))))))))) :: (((Npos (XI (XI (XI (XO
    (XO (XI (XI (XO (XO (XI (XO (XO (XO (XO (XO (XI (XO XH)))))))))))))))))),
    (Npos (XO (XI (XI (XI (XO (XO (XO XH))))))))) :: (((Npos (XO (XO (XO (XI
    (XO (XI (XI (XO (XO (XI (XO (XO (XO (XO (XO (XI (XO XH)))))))))))))))))),
    (Npos (XI (XO (XO (XO (XI (XO (XO XH))))))))) :: (((Npos (XI (XO (XO (XI
    (XO (XI (XI (XO (XO (XI (XO (XO (XO (XO (XO (XI (XO XH)))))))))))))))))),
    (Npos (XI (XO (XO (XO (XI (XO (XO XH))))))))) :: (((Npos (XO (XI (XO (XI
    (XO (XI (XI (XO (XO (XI (XO (XO (XO (XO (XO (XI (XO XH)))))))))))))))))),
    (Npos (XO (XO (XO (XO (XI (XO (XO XH))))))))) :: (((Npos (XI (XI (XO (XI
    (XO (XI (XI (XO (XO (XI (XO (XO (XO (XO (XO (XI (XO XH)))))))))))))))))),
    (Npos (XO (XO (XO (XO (XI (XO (XO XH))))))))) :: (((Npos (XO (XO (XI (XI
    (XO (XI (XI (XO (XO (XI (XO (XO (XO (XO (XO (XI (XO XH)))))))))))))))))),
    (Npos (XI (XI (XO (XO (XI (XO (XO XH))))))))) :: (((Npos (XI (XO (XI (XI
    (XO (XI (XI (XO (XO (XI (XO (XO (XO (XO (XO (XI (XO XH)))))))))))))))))),
    (Npos (XI (XI (XO (XO (XI (XO (XO XH))))))))) :: (((Npos (XO (XI (XI (XI
    (XO (XI (XI (XO (XO (XI (XO (XO (XO (XO (XO (XI (XO XH)))))))))))))))))),
    (Npos (XO (XI (XO (XO (XI (XO (XO XH))))))))) :: (((Npos (XI (XI (XI (XI
    (XO (XI (XI (XO (XO (XI (XO (XO (XO (XO (XO (XI (XO XH)))))))))))))))))),
    (Npos (XO (XI (XO (XO (XI (XO (XO XH))))))))) :: (((Npos (XO (XO (XO (XO
    (XI (XI (XI (XO (XO (XI (XO (XO (XO (XO (XO (XI (XO XH)))))))))))))))))),
    (Npos (XI (XO (XI (XO (XI (XO (XO XH))))))))) :: (((Npos (XI (XO (XO (XO
    (XI (XI (XI (XO (XO (XI (XO (XO (XO (XO (XO (XI (XO XH)))))))))))))))))),
    (Npos (XI (XO (XI (XO (XI (XO (XO XH))))))))) :: (((Npos (XO (XI (XO (XO
    (XI (XI (XI (XO (XO (XI (XO (XO (XO (XO (XO (XI (XO XH)))))))))))))))))),
    (Npos (XO (XO (XI (XO (XI (XO (XO XH))))))))) :: (((Npos (XI (XI (XO (XO
    (XI (XI (XI (XO (XO (XI (XO (XO (XO (XO (XO (XI (XO XH)))))))))))))))))),
    (Npos (XO (XO (XI (XO (XI (XO (XO XH))))))))) :: (((Npos (XO (XO (XI (XO
    (XI (XI (XI (XO (XO (XI (XO (XO (XO (XO (XO (XI (XO XH)))))))))))))))))),
    (Npos (XI (XI (XI (XO (XI (XO (XO XH))))))))) :: (((Npos (XI (XO (XI (XO
    (XI (XI (XI (XO (XO (XI (XO (XO (XO (XO (XO (XI (XO XH)))))))))))))))))),
    (Npos (XI (XI (XI (XO (XI (XO (XO XH))))))))) :: (((Npos (XO (XI (XI (XO
    (XI (XI (XI (XO (XO (XI (XO (XO (XO (XO (XO (XI (XO XH)))))))))))))))))),
    (Npos (XO (XI (XI (XO (XI (XO (XO XH))))))))) :: (((Npos (XI (XI (XI (XO
    (XI (XI (XI (XO (XO (XI (XO (XO (XO (XO (XO (XI (XO XH)))))))))))))))))),
    (Npos (XO (XI (XI (XO (XI (XO (XO XH))))))))) :: (((Npos (XO (XO (XO (XI
    (XI (XI (XI (XO (XO (XI (XO (XO (XO (XO (XO (XI (XO XH)))))))))))))))))),
    (Npos (XI (XO (XO (XI (XI (XO (XO XH))))))))) :: (((Npos (XI (XO (XO (XI
    (XI (XI (XI (XO (XO (XI (XO (XO (XO (XO (XO (XI (XO XH)))))))))))))))))),
    (Npos (XI (XO (XO (XI (XI (XO (XO XH))))))))) :: (((Npos (XO (XI (XO (XI
    (XI (XI (XI (XO (XO (XI (XO (XO (XO (XO (XO (XI (XO XH)))))))))))))))))),
    (Npos (XO (XO (XO (XI (XI (XO (XO XH))))))))) :: (((Npos (XI (XI (XO (XI
    (XI (XI (XI (XO (XO (XI (XO (XO (XO (XO (XO (XI (XO XH)))))))))))))))))),
    (Npos (XO (XO (XO (XI (XI (XO (XO XH))))))))) :: (((Npos (XO (XO (XI (XI
    (XI (XI (XI (XO (XO (XI (XO (XO (XO (XO (XO (XI (XO XH)))))))))))))))))),
    (Npos (XI (XI (XO (XI (XI (XO (XO XH))))))))) :: (((Npos (XI (XO (XI (XI
    (XI (XI (XI (XO (XO (XI (XO (XO (XO (XO (XO (XI (XO XH)))))))))))))))))),
    (Npos (XI (XI (XO (XI (XI (XO (XO XH))))))))) :: (((Npos (XO (XI (XI (XI
    (XI (XI (XI (XO (XO (XI (XO (XO (XO (XO (XO (XI (XO XH)))))))))))))))))),
    (Npos (XO (XI (XO (XI (XI (XO (XO XH))))))))) :: (((Npos (XI (XI (XI (XI
    (XI (XI (XI (XO (XO (XI (XO (XO (XO (XO (XO (XI (XO XH)))))))))))))))))),
    (Npos (XO (XI (XO (XI (XI (XO (XO XH))))))))) :: (((Npos (XO (XO (XO (XO
    (XO (XO (XO (XI (XO (XI (XO (XO (XO (XO (XO (XI (XO XH)))))))))))))))))),
    (Npos (XI (XO (XI (XI (XI (XO (XO XH))))))))) :: (((Npos (XI (XO (XO (XO
    (XO (XO (XO (XI (XO (XI (XO (XO (XO (XO (XO (XI (XO XH)))))))))))))))))),
    (Npos (XI (XO (XI (XI (XI (XO (XO XH))))))))) :: (((Npos (XO (XI (XO (XO
    (XO (XO (XO (XI (XO (XI (XO (XO (XO (XO (XO (XI (XO XH)))))))))))))))))),
    (Npos (XO (XO (XI (XI (XI (XO (XO XH))))))))) :: (((Npos (XI (XI (XO (XO
    (XO (XO (XO (XI (XO (XI (XO (XO (XO (XO (XO (XI (XO XH)))))))))))))))))),
    (Npos (XO (XO (XI (XI (XI (XO (XO XH))))))))) :: (((Npos (XO (XO (XI (XO
    (XO (XO (XO (XI (XO (XI (XO (XO (XO (XO (XO (XI (XO XH)))))))))))))))))),
    (Npos (XI (XI (XI (XI (XI (XO (XO XH))))))))) :: (((Npos (XI (XO (XI (XO
    (XO (XO (XO (XI (XO (XI (XO (XO (XO (XO (XO (XI (XO XH)))))))))))))))))),
    (Npos (XI (XI (XI (XI (XI (XO (XO XH))))))))) :: (((Npos (XO (XI (XI (XO
    (XO (XO (XO (XI (XO (XI (XO (XO (XO (XO (XO (XI (XO XH)))))))))))))))))),
    (Npos (XO (XI (XI (XI (XI (XO (XO XH))))))))) :: (((Npos (XI (XI (XI (XO
    (XO (XO (XO (XI (XO (XI (XO (XO (XO (XO (XO (XI (XO XH)))))))))))))))))),
    (Npos (XO (XI (XI (XI (XI (XO (XO XH))))))))) :: (((Npos (XO (XO (XO (XI
    (XO (XO (XO (XI (XO (XI (XO (XO (XO (XO (XO (XI (XO XH)))))))))))))))))),
    (Npos (XI (XO (XO (XO (XO (XI (XO XH))))))))) :: (((Npos (XI (XO (XO (XI
    (XO (XO (XO (XI (XO (XI (XO (XO (XO (XO (XO (XI (XO XH)))))))))))))))))),
    (Npos (XI (XO (XO (XO (XO (XI (XO XH))))))))) :: (((Npos (XO (XI (XO (XI
    (XO (XO (XO (XI (XO (XI (XO (XO (XO (XO (XO (XI (XO XH)))))))))))))))))),
    (Npos (XO (XO (XO (XO (XO (XI (XO XH))))))))) :: (((Npos (XI (XI (XO (XI
    (XO (XO (XO (XI (XO (XI (XO (XO (XO (XO (XO (XI (XO XH)))))))))))))))))),
    (Npos (XO (XO (XO (XO (XO (XI (XO XH))))))))) :: (((Npos (XO (XO (XI (XI
    (XO (XO (XO (XI (XO (XI (XO (XO (XO (XO (XO (XI (XO XH)))))))))))))))))),
    (Npos (XI (XI (XO (XO (XO (XI (XO XH))))))))) :: (((Npos (XI (XO (XI (XI
    (XO (XO (XO (XI (XO (XI (XO (XO (XO (XO (XO (XI (XO XH)))))))))))))))))),
    (Npos (XI (XI (XO (XO (XO (XI (XO XH))))))))) :: (((Npos (XO (XI (XI (XI
    (XO (XO (XO (XI (XO (XI (XO (XO (XO (XO (XO (XI (XO XH)))))))))))))))))),
    (Npos (XO (XI (XO (XO (XO (XI (XO XH))))))))) :: (((Npos (XI (XI (XI (XI
    (XO (XO (XO (XI (XO (XI (XO (XO (XO (XO (XO (XI (XO XH)))))))))))))))))),
    (Npos (XO (XI (XO (XO (XO (XI (XO XH))))))))) :: (((Npos (XO (XO (XO (XO
    (XI (XO (XO (XI (XO (XI (XO (XO (XO (XO (XO (XI (XO XH)))))))))))))))))),
    (Npos (XI (XO (XI (XO (XO (XI (XO XH))))))))) :: (((Npos (XI (XO (XO (XO
    (XI (XO (XO (XI (XO (XI (XO (XO (XO (XO (XO (XI (XO XH)))))))))))))))))),
    (Npos (XI (XO (XI (XO (XO (XI (XO XH))))))))) :: (((Npos (XO (XI (XO (XO
    (XI (XO (XO (XI (XO (XI (XO (XO (XO (XO (XO (XI (XO XH)))))))))))))))))),
    (Npos (XO (XO (XI (XO (XO (XI (XO XH))))))))) :: (((Npos (XI (XI (XO (XO
    (XI (XO (XO (XI (XO (XI (XO (XO (XO (XO (XO (XI (XO XH)))))))))))))))))),
    (Npos (XO (XO (XI (XO (XO (XI (XO XH))))))))) :: (((Npos (XO (XO (XI (XO
    (XI (XO (XO (XI (XO (XI (XO (XO (XO (XO (XO (XI (XO XH)))))))))))))))))),
    (Npos (XI (XI (XI (XO (XO (XI (XO XH))))))))) :: (((Npos (XI (XO (XI (XO
    (XI (XO (XO (XI (XO (XI (XO (XO (XO (XO (XO (XI (XO XH)))))))))))))))))),
    (Npos (XI (XI (XI (XO (XO (XI (XO XH))))))))) :: (((Npos (XO (XI (XI (XO
    (XI (XO (XO (XI (XO (XI (XO (XO (XO (XO (XO (XI (XO XH)))))))))))))))))),
    (Npos (XO (XI (XI (XO (XO (XI (XO XH))))))))) :: (((Npos (XI (XI (XI (XO
    (XI (XO (XO (XI (XO (XI (XO (XO (XO (XO (XO (XI (XO XH)))))))))))))))))),
    (Npos (XO (XI (XI (XO (XO (XI (XO XH))))))))) :: (((Npos (XO (XO (XO (XI
    (XI (XO (XO (XI (XO (XI (XO (XO (XO (XO (XO (XI (XO XH)))))))))))))))))),
    (Npos (XI (XO (XO (XI (XO (XI (XO XH))))))))) :: (((Npos (XI (XO (XO (XI
    (XI (XO (XO (XI (XO (XI (XO (XO (XO (XO (XO (XI (XO XH)))))))))))))))))),
    (Npos (XI (XO (XO (XI (XO (XI (XO XH))))))))) :: (((Npos (XO (XI (XO (XI
    (XI (XO (XO (XI (XO (XI (XO (XO (XO (XO (XO (XI (XO XH)))))))))))))))))),
    (Npos (XO (XO (XO (XI (XO (XI (XO XH))))))))) :: (((Npos (XI (XI (XO (XI
    (XI (XO (XO (XI (XO (XI (XO (XO (XO (XO (XO (XI (XO XH)))))))))))))))))),
    (Npos (XO (XO (XO (XI (XO (XI (XO XH))))))))) :: (((Npos (XO (XO (XI (XI
    (XI (XO (XO (XI (XO (XI (XO (XO (XO (XO (XO (XI (XO XH)))))))))))))))))),
    (Npos (XI (XI (XO (XI (XO (XI (XO XH))))))))) :: (((Npos (XI (XO (XI (XI
    (XI (XO (XO (XI (XO (XI (XO (XO (XO (XO (XO (XI (XO XH)))))))))))))))))),
    (Npos (XI (XI (XO (XI (XO (XI (XO XH))))))))) :: (((Npos (XO (XI (XI (XI
    (XI (XO (XO (XI (XO (XI (XO (XO (XO (XO (XO (XI (XO XH)))))))))))))))))),
    (Npos (XO (XI (XO (XI (XO (XI (XO XH))))))))) :: (((Npos (XI (XI (XI (XI
    (XI (XO (XO (XI (XO (XI (XO (XO (XO (XO (XO (XI (XO XH)))))))))))))))))),
    (Npos (XO (XI (XO (XI (XO (XI (XO XH))))))))) :: (((Npos (XO (XO (XO (XO
    (XO (XI (XO (XI (XO (XI (XO (XO (XO (XO (XO (XI (XO XH)))))))))))))))))),
    (Npos (XI (XO (XI (XI (XO (XI (XO XH))))))))) :: (((Npos (XI (XO (XO (XO
    (XO (XI (XO (XI (XO (XI (XO (XO (XO (XO (XO (XI (XO XH)))))))))))))))))),
    (Npos (XI (XO (XI (XI (XO (XI (XO XH))))))))) :: (((Npos (XO (XI (XO (XO
    (XO (XI (XO (XI (XO (XI (XO (XO (XO (XO (XO (XI (XO XH)))))))))))))))))),
    (Npos (XO (XO (XI (XI (XO (XI (XO XH))))))))) :: (((Npos (XI (XI (XO (XO
    (XO (XI (XO (XI (XO (XI (XO (XO (XO (XO (XO (XI (XO XH)))))))))))))))))),
    (Npos (XO (XO (XI (XI (XO (XI (XO XH))))))))) :: (((Npos (XO (XO (XI (XO
    (XO (XI (XO (XI (XO (XI (XO (XO (XO (XO (XO (XI (XO XH)))))))))))))))))),
    (Npos (XI (XI (XI (XI (XO (XI (XO XH))))))))) :: (((Npos (XI (XO (XI (XO
    (XO (XI (XO (XI (XO (XI (XO (XO (XO (XO (XO (XI (XO XH)))))))))))))))))),
    (Npos (XI (XI (XI (XI (XO (XI (XO XH))))))))) :: (((Npos (XO (XI (XI (XO
    (XO (XI (XO (XI (XO (XI (XO (XO (XO (XO (XO (XI (XO XH)))))))))))))))))),
    (Npos (XO (XI (XI (XI (XO (XI (XO XH))))))))) :: (((Npos (XI (XI (XI (XO
    (XO (XI (XO (XI (XO (XI (XO (XO (XO (XO (XO (XI (XO XH)))))))))))))))))),
    (Npos (XO (XI (XI (XI (XO (XI (XO XH))))))))) :: (((Npos (XO (XO (XO (XI
    (XO (XI (XO (XI (XO (XI (XO (XO (XO (XO (XO (XI (XO XH)))))))))))))))))),
    (Npos (XI (XO (XO (XO (XI (XI (XO XH))))))))) :: (((Npos (XI (XO (XO (XI
    (XO (XI (XO (XI (XO (XI (XO (XO (XO (XO (XO (XI (XO XH)))))))))))))))))),
    (Npos (XI (XO (XO (XO (XI (XI (XO XH))))))))) :: (((Npos (XO (XI (XO (XI
    (XO (XI (XO (XI (XO (XI (XO (XO (XO (XO (XO (XI (XO XH)))))))))))))))))),
    (Npos (XO (XO (XO (XO (XI (XI (XO XH))))))))) :: (((Npos (XI (XI (XO (XI
    (XO (XI (XO (XI (XO (XI (XO (XO (XO (XO (XO (XI (XO XH)))))))))))))))))),
    (Npos (XO (XO (XO (XO (XI (XI (XO XH))))))))) :: (((Npos (XO (XO (XI (XI
    (XO (XI (XO (XI (XO (XI (XO (XO (XO (XO (XO (XI (XO XH)))))))))))))))))),
    (Npos (XI (XI (XO (XO (XI (XI (XO XH))))))))) :: (((Npos (XI (XO (XI (XI
    (XO (XI (XO (XI (XO (XI (XO (XO (XO (XO (XO (XI (XO XH)))))))))))))))))),
    (Npos (XI (XI (XO (XO (XI (XI (XO XH))))))))) :: (((Npos (XO (XI (XI (XI
    (XO (XI (XO (XI (XO (XI (XO (XO (XO (XO (XO (XI (XO XH)))))))))))))))))),
    (Npos (XO (XI (XO (XO (XI (XI (XO XH))))))))) :: (((Npos (XI (XI (XI (XI
    (XO (XI (XO (XI (XO (XI (XO (XO (XO (XO (XO (XI (XO XH)))))))))))))))))),
    (Npos (XO (XI (XO (XO (XI (XI (XO XH))))))))) :: (((Npos (XO (XO (XO (XO
    (XI (XI (XO (XI (XO (XI (XO (XO (XO (XO (XO (XI (XO XH)))))))))))))))))),
    (Npos (XI (XO (XI (XO (XI (XI (XO XH))))))))) :: (((Npos (XI (XO (XO (XO
    (XI (XI (XO (XI (XO (XI (XO (XO (XO (XO (XO (XI (XO XH)))))))))))))))))),
    (Npos (XI (XO (XI (XO (XI (XI (XO XH))))))))) :: (((Npos (XO (XI (XO (XO
    (XI (XI (XO (XI (XO (XI (XO (XO (XO (XO (XO (XI (XO XH)))))))))))))))))),
    (Npos (XO (XO (XI (XO (XI (XI (XO XH))))))))) :: (((Npos (XI (XI (XO (XO
    (XI (XI (XO (XI (XO (XI (XO (XO (XO (XO (XO (XI (XO XH)))))))))))))))))),
    (Npos (XO (XO (XI (XO (XI (XI (XO XH))))))))) :: (((Npos (XO (XO (XI (XO
    (XI (XI (XO (XI (XO (XI (XO (XO (XO (XO (XO (XI (XO XH)))))))))))))))))),
    (Npos (XI (XI (XI (XO (XI (XI (XO XH))))))))) :: (((Npos (XI (XO (XI (XO
    (XI (XI (XO (XI (XO (XI (XO (XO (XO (XO (XO (XI (XO XH)))))))))))))))))),
    (Npos (XI (XI (XI (XO (XI (XI (XO XH))))))))) :: (((Npos (XO (XI (XI (XO
    (XI (XI (XO (XI (XO (XI (XO (XO (XO (XO (XO (XI (XO XH)))))))))))))))))),
    (Npos (XO (XI (XI (XO (XI (XI (XO XH))))))))) :: (((Npos (XI (XI (XI (XO
    (XI (XI (XO (XI (XO (XI (XO (XO (XO (XO (XO (XI (XO XH)))))))))))))))))),
    (Npos (XO (XI (XI (XO (XI (XI (XO XH))))))))) :: (((Npos (XO (XO (XO (XI
    (XI (XI (XO (XI (XO (XI (XO (XO (XO (XO (XO (XI (XO XH)))))))))))))))))),
    (Npos (XI (XO (XO (XI (XI (XI (XO XH))))))))) :: (((Npos (XI (XO (XO (XI
    (XI (XI (XO (XI (XO (XI (XO (XO (XO (XO (XO (XI (XO XH)))))))))))))))))),
    (Npos (XI (XO (XO (XI (XI (XI (XO XH))))))))) :: (((Npos (XO (XI (XO (XI
    (XI (XI (XO (XI (XO (XI (XO (XO (XO (XO (XO (XI (XO XH)))))))))))))))))),
    (Npos (XO (XO (XO (XI (XI (XI (XO XH))))))))) :: (((Npos (XI (XI (XO (XI
    (XI (XI (XO (XI (XO (XI (XO (XO (XO (XO (XO (XI (XO XH)))))))))))))))))),
    (Npos (XO (XO (XO (XI (XI (XI (XO XH))))))))) :: (((Npos (XO (XO (XI (XI
    (XI (XI (XO (XI (XO (XI (XO (XO (XO (XO (XO (XI (XO XH)))))))))))))))))),
    (Npos (XI (XI (XO (XI (XI (XI (XO XH))))))))) :: (((Npos (XI (XO (XI (XI
    (XI (XI (XO (XI (XO (XI (XO (XO (XO (XO (XO (XI (XO XH)))))))))))))))))),
    (Npos (XI (XI (XO (XI (XI (XI (XO XH))))))))) :: (((Npos (XO (XI (XI (XI
    (XI (XI (XO (XI (XO (XI (XO (XO (XO (XO (XO (XI (XO XH)))))))))))))))))),
    (Npos (XO (XI (XO (XI (XI (XI (XO XH))))))))) :: (((Npos (XI (XI (XI (XI
    (XI (XI (XO (XI (XO (XI (XO (XO (XO (XO (XO (XI (XO XH)))))))))))))))))),
    (Npos (XO (XI (XO (XI (XI (XI (XO XH))))))))) :: (((Npos (XO (XO (XO (XO
    (XI (XO (XI (XI (XO (XI (XO (XO (XO (XO (XO (XI (XO XH)))))))))))))))))),
    (Npos (XI (XO (XI (XO XH)))))) :: (((Npos (XI (XO (XO (XO (XI (XO (XI (XI
    (XO (XI (XO (XO (XO (XO (XO (XI (XO XH)))))))))))))))))), (Npos (XI (XO
    (XI (XO XH)))))) :: (((Npos (XO (XI (XO (XO (XI (XO (XI (XI (XO (XI (XO
    (XO (XO (XO (XO (XI (XO XH)))))))))))))))))), (Npos (XO (XO (XI (XO
    XH)))))) :: (((Npos (XI (XI (XO (XO (XI (XO (XI (XI (XO (XI (XO (XO (XO
    (XO (XO (XI (XO XH)))))))))))))))))), (Npos (XO (XO (XI (XO
    XH)))))) :: (((Npos (XO (XO (XI (XO (XI (XO (XI (XI (XO (XI (XO (XO (XO
    (XO (XO (XI (XO XH)))))))))))))))))), (Npos (XI (XI (XI (XI
    XH)))))) :: (((Npos (XI (XO (XI (XO (XI (XO (XI (XI (XO (XI (XO (XO (XO
    (XO (XO (XI (XO XH)))))))))))))))))), (Npos (XI (XI (XI (XI
    XH)))))) :: (((Npos (XO (XI (XI (XO (XI (XO (XI (XI (XO (XI (XO (XO (XO
    (XO (XO (XI (XO XH)))))))))))))))))), (Npos (XO (XI (XI (XI
    XH)))))) :: (((Npos (XI (XI (XI (XO (XI (XO (XI (XI (XO (XI (XO (XO (XO
    (XO (XO (XI (XO XH)))))))))))))))))), (Npos (XO (XI (XI (XI
    XH)))))) :: (((Npos (XO (XO (XO (XI (XI (XO (XI (XI (XO (XI (XO (XO (XO
    (XO (XO (XI (XO XH)))))))))))))))))), (Npos (XI (XO (XI (XI (XO
    XH))))))) :: (((Npos (XI (XO (XO (XI (XI (XO (XI (XI (XO (XI (XO (XO (XO
    (XO (XO (XI (XO XH)))))))))))))))))), (Npos (XI (XO (XI (XI (XO
    XH))))))) :: (((Npos (XO (XI (XO (XI (XI (XO (XI (XI (XO (XI (XO (XO (XO
    (XO (XO (XI (XO XH)))))))))))))))))), (Npos (XO (XO (XI (XI (XO
    XH))))))) :: (((Npos (XI (XI (XO (XI (XI (XO (XI (XI (XO (XI (XO (XO (XO
    (XO (XO (XI (XO XH)))))))))))))))))), (Npos (XO (XO (XI (XI (XO
    XH))))))) :: (((Npos (XO (XO (XI (XI (XI (XO (XI (XI (XO (XI (XO (XO (XO
    (XO (XO (XI (XO XH)))))))))))))))))), (Npos (XI (XO (XI (XO (XI
    XH))))))) :: (((Npos (XI (XO (XI (XI (XI (XO (XI (XI (XO (XI (XO (XO (XO
    (XO (XO (XI (XO XH)))))))))))))))))), (Npos (XI (XO (XI (XO (XI
    XH))))))) :: (((Npos (XO (XI (XI (XI (XI (XO (XI (XI (XO (XI (XO (XO (XO
    (XO (XO (XI (XO XH)))))))))))))))))), (Npos (XO (XO (XI (XO (XI
    XH))))))) :: (((Npos (XI (XI (XI (XI (XI (XO (XI (XI (XO (XI (XO (XO (XO
    (XO (XO (XI (XO XH)))))))))))))))))), (Npos (XO (XO (XI (XO (XI
    XH))))))) :: (((Npos (XO (XO (XO (XO (XO (XI (XI (XI (XO (XI (XO (XO (XO
    (XO (XO (XI (XO XH)))))))))))))))))), (Npos (XI (XO (XO (XI (XI
    XH))))))) :: (((Npos (XI (XO (XO (XO (XO (XI (XI (XI (XO (XI (XO (XO (XO
    (XO (XO (XI (XO XH)))))))))))))))))), (Npos (XI (XO (XO (XI (XI
    XH))))))) :: (((Npos (XO (XI (XO (XO (XO (XI (XI (XI (XO (XI (XO (XO (XO
    (XO (XO (XI (XO XH)))))))))))))))))), (Npos (XO (XO (XO (XI (XI
    XH))))))) :: (((Npos (XI (XI (XO (XO (XO (XI (XI (XI (XO (XI (XO (XO (XO
    (XO (XO (XI (XO XH)))))))))))))))))), (Npos (XO (XO (XO (XI (XI
    XH))))))) :: (((Npos (XO (XO (XI (XO (XO (XI (XI (XI (XO (XI (XO (XO (XO
    (XO (XO (XI (XO XH)))))))))))))))))), (Npos (XI (XI (XI (XI (XI
    XH))))))) :: (((Npos (XI (XO (XI (XO (XO (XI (XI (XI (XO (XI (XO (XO (XO
    (XO (XO (XI (XO XH)))))))))))))))))), (Npos (XI (XI (XI (XI (XI
    XH))))))) :: (((Npos (XO (XI (XI (XO (XO (XI (XI (XI (XO (XI (XO (XO (XO
    (XO (XO (XI (XO XH)))))))))))))))))), (Npos (XO (XI (XI (XI (XI
    XH))))))) :: (((Npos (XI (XI (XI (XO (XO (XI (XI (XI (XO (XI (XO (XO (XO
    (XO (XO (XI (XO XH)))))))))))))))))), (Npos (XO (XI (XI (XI (XI
    XH))))))) :: (((Npos (XO (XO (XO (XI (XO (XI (XI (XI (XO (XI (XO (XO (XO
    (XO (XO (XI (XO XH)))))))))))))))))), (Npos (XI (XO (XO (XO (XO (XO
    XH)))))))) :: (((Npos (XI (XO (XO (XI (XO (XI (XI (XI (XO (XI (XO (XO (XO
    (XO (XO (XI (XO XH)))))))))))))))))), (Npos (XI (XO (XO (XO (XO (XO
    XH)))))))) :: (((Npos (XO (XI (XO (XI (XO (XI (XI (XI (XO (XI (XO (XO (XO
    (XO (XO (XI (XO XH)))))))))))))))))), (Npos (XO (XO (XO (XO (XO (XO
    XH)))))))) :: (((Npos (XI (XI (XO (XI (XO (XI (XI (XI (XO (XI (XO (XO (XO
    (XO (XO (XI (XO XH)))))))))))))))))), (Npos (XO (XO (XO (XO (XO (XO
    XH)))))))) :: (((Npos (XO (XO (XI (XI (XO (XI (XI (XI (XO (XI (XO (XO (XO
    (XO (XO (XI (XO XH)))))))))))))))))), (Npos (XI (XI (XI (XO (XO (XO
    XH)))))))) :: (((Npos (XI (XO (XI (XI (XO (XI (XI (XI (XO (XI (XO (XO (XO
    (XO (XO (XI (XO XH)))))))))))))))))), (Npos (XI (XI (XI (XO (XO (XO
    XH)))))))) :: (((Npos (XO (XI (XI (XI (XO (XI (XI (XI (XO (XI (XO (XO (XO
    (XO (XO (XI (XO XH)))))))))))))))))), (Npos (XO (XI (XI (XO (XO (XO
    XH)))))))) :: (((Npos (XI (XI (XI (XI (XO (XI (XI (XI (XO (XI (XO (XO (XO
    (XO (XO (XI (XO XH)))))))))))))))))), (Npos (XO (XI (XI (XO (XO (XO
    XH)))))))) :: (((Npos (XO (XO (XO (XO (XI (XI (XI (XI (XO (XI (XO (XO (XO
    (XO (XO (XI (XO XH)))))))))))))))))), (Npos (XI (XI (XO (XI (XO (XO
    XH)))))))) :: (((Npos (XI (XO (XO (XO (XI (XI (XI (XI (XO (XI (XO (XO (XO
    (XO (XO (XI (XO XH)))))))))))))))))), (Npos (XI (XI (XO (XI (XO (XO
    XH)))))))) :: (((Npos (XO (XI (XO (XO (XI (XI (XI (XI (XO (XI (XO (XO (XO
    (XO (XO (XI (XO XH)))))))))))))))))), (Npos (XO (XI (XO (XI (XO (XO
    XH)))))))) :: (((Npos (XI (XI (XO (XO (XI (XI (XI (XI (XO (XI (XO (XO (XO
    (XO (XO (XI (XO XH)))))))))))))))))), (Npos (XO (XI (XO (XI (XO (XO
    XH)))))))) :: (((Npos (XO (XO (XI (XO (XI (XI (XI (XI (XO (XI (XO (XO (XO
    (XO (XO (XI (XO XH)))))))))))))))))), (Npos (XI (XO (XI (XI (XO (XO
    XH)))))))) :: (((Npos (XI (XO (XI (XO (XI (XI (XI (XI (XO (XI (XO (XO (XO
    (XO (XO (XI (XO XH)))))))))))))))))), (Npos (XI (XO (XI (XI (XO (XO
    XH)))))))) :: (((Npos (XO (XI (XI (XO (XI (XI (XI (XI (XO (XI (XO (XO (XO
    (XO (XO (XI (XO XH)))))))))))))))))), (Npos (XO (XO (XI (XI (XO (XO
    XH)))))))) :: (((Npos (XI (XI (XI (XO (XI (XI (XI (XI (XO (XI (XO (XO (XO
    (XO (XO (XI (XO XH)))))))))))))))))), (Npos (XO (XO (XI (XI (XO (XO
    XH)))))))) :: (((Npos (XO (XO (XO (XI (XI (XI (XI (XI (XO (XI (XO (XO (XO
    (XO (XO (XI (XO XH)))))))))))))))))), (Npos (XI (XI (XI (XI (XO (XO
    XH)))))))) :: (((Npos (XI (XO (XO (XI (XI (XI (XI (XI (XO (XI (XO (XO (XO
    (XO (XO (XI (XO XH)))))))))))))))))), (Npos (XI (XI (XI (XI (XO (XO
    XH)))))))) :: (((Npos (XO (XI (XO (XI (XI (XI (XI (XI (XO (XI (XO (XO (XO
    (XO (XO (XI (XO XH)))))))))))))))))), (Npos (XO (XI (XI (XI (XO (XO
    XH)))))))) :: (((Npos (XI (XI (XO (XI (XI (XI (XI (XI (XO (XI (XO (XO (XO
    (XO (XO (XI (XO XH)))))))))))))))))), (Npos (XO (XI (XI (XI (XO (XO
    XH)))))))) :: (((Npos (XO (XO (XI (XI (XI (XI (XI (XI (XO (XI (XO (XO (XO
    (XO (XO (XI (XO XH)))))))))))))))))), (Npos (XI (XO (XO (XO (XI (XO
    XH)))))))) :: (((Npos (XI (XO (XI (XI (XI (XI (XI (XI (XO (XI (XO (XO (XO
    (XO (XO (XI (XO XH)))))))))))))))))), (Npos (XI (XO (XO (XO (XI (XO
    XH)))))))) :: (((Npos (XO (XI (XI (XI (XI (XI (XI (XI (XO (XI (XO (XO (XO
    (XO (XO (XI (XO XH)))))))))))))))))), (Npos (XO (XO (XO (XO (XI (XO
    XH)))))))) :: (((Npos (XI (XI (XI (XI (XI (XI (XI (XI (XO (XI (XO (XO (XO
    (XO (XO (XI (XO XH)))))))))))))))))), (Npos (XO (XO (XO (XO (XI (XO
    XH)))))))) :: (((Npos (XO (XO (XO (XO (XO (XO (XO (XO (XI (XI (XO (XO (XO
    (XO (XO (XI (XO XH)))))))))))))))))), (Npos (XI (XO (XI (XO (XI (XO
    XH)))))))) :: (((Npos (XI (XO (XO (XO (XO (XO (XO (XO (XI (XI (XO (XO (XO
    (XO (XO (XI (XO XH)))))))))))))))))), (Npos (XI (XO (XI (XO (XI (XO
    XH)))))))) :: (((Npos (XO (XI (XO (XO (XO (XO (XO (XO (XI (XI (XO (XO (XO
    (XO (XO (XI (XO XH)))))))))))))))))), (Npos (XO (XO (XI (XO (XI (XO
    XH)))))))) :: (((Npos (XI (XI (XO (XO (XO (XO (XO (XO (XI (XI (XO (XO (XO
    (XO (XO (XI (XO XH)))))))))))))))))), (Npos (XO (XO (XI (XO (XI (XO
    XH)))))))) :: (((Npos (XO (XO (XI (XO (XO (XO (XO (XO (XI (XI (XO (XO (XO
    (XO (XO (XI (XO XH)))))))))))))))))), (Npos (XI (XO (XO (XI (XI (XO
    XH)))))))) :: (((Npos (XI (XO (XI (XO (XO (XO (XO (XO (XI (XI (XO (XO (XO
    (XO (XO (XI (XO XH)))))))))))))))))), (Npos (XI (XO (XO (XI (XI (XO
    XH)))))))) :: (((Npos (XO (XI (XI (XO (XO (XO (XO (XO (XI (XI (XO (XO (XO
    (XO (XO (XI (XO XH)))))))))))))))))), (Npos (XO (XO (XO (XI (XI (XO
    XH)))))))) :: (((Npos (XI (XI (XI (XO (XO (XO (XO (XO (XI (XI (XO (XO (XO
    (XO (XO (XI (XO XH)))))))))))))))))), (Npos (XO (XO (XO (XI (XI (XO
    XH)))))))) :: (((Npos (XO (XO (XO (XI (XO (XO (XO (XO (XI (XI (XO (XO (XO
    (XO (XO (XI (XO XH)))))))))))))))))), (Npos (XI (XI (XO (XI (XI (XO
    XH)))))))) :: (((Npos (XI (XO (XO (XI (XO (XO (XO (XO (XI (XI (XO (XO (XO
    (XO (XO (XI (XO XH)))))))))))))))))), (Npos (XI (XI (XO (XI (XI (XO
    XH)))))))) :: (((Npos (XO (XI (XO (XI (XO (XO (XO (XO (XI (XI (XO (XO (XO
    (XO (XO (XI (XO XH)))))))))))))))))), (Npos (XO (XI (XO (XI (XI (XO
    XH)))))))) :: (((Npos (XI (XI (XO (XI (XO (XO (XO (XO (XI (XI (XO (XO (XO
    (XO (XO (XI (XO XH)))))))))))))))))), (Npos (XO (XI (XO (XI (XI (XO
    XH)))))))) :: (((Npos (XO (XO (XI (XI (XO (XO (XO (XO (XI (XI (XO (XO (XO
    (XO (XO (XI (XO XH)))))))))))))))))), (Npos (XI (XO (XI (XI (XI (XO
    XH)))))))) :: (((Npos (XI (XO (XI (XI (XO (XO (XO (XO (XI (XI (XO (XO (XO
    (XO (XO (XI (XO XH)))))))))))))))))), (Npos (XI (XO (XI (XI (XI (XO
    XH)))))))) :: (((Npos (XO (XI (XI (XI (XO (XO (XO (XO (XI (XI (XO (XO (XO
    (XO (XO (XI (XO XH)))))))))))))))))), (Npos (XO (XO (XI (XI (XI (XO
    XH)))))))) :: (((Npos (XI (XI (XI (XI (XO (XO (XO (XO (XI (XI (XO (XO (XO
    (XO (XO (XI (XO XH)))))))))))))))))), (Npos (XO (XO (XI (XI (XI (XO
    XH)))))))) :: (((Npos (XO (XO (XO (XO (XI (XO (XO (XO (XI (XI (XO (XO (XO
    (XO (XO (XI (XO XH)))))))))))))))))), (Npos (XI (XO (XO (XI (XO (XI
    XH)))))))) :: (((Npos (XI (XO (XO (XO (XI (XO (XO (XO (XI (XI (XO (XO (XO
    (XO (XO (XI (XO XH)))))))))))))))))), (Npos (XI (XO (XO (XI (XO (XI
    XH)))))))) :: (((Npos (XO (XI (XO (XO (XI (XO (XO (XO (XI (XI (XO (XO (XO
    (XO (XO (XI (XO XH)))))))))))))))))), (Npos (XO (XO (XO (XI (XO (XI
    XH)))))))) :: (((Npos (XI (XI (XO (XO (XI (XO (XO (XO (XI (XI (XO (XO (XO
    (XO (XO (XI (XO XH)))))))))))))))))), (Npos (XO (XO (XO (XI (XO (XI
    XH)))))))) :: (((Npos (XO (XO (XI (XO (XI (XO (XO (XO (XI (XI (XO (XO (XO
    (XO (XO (XI (XO XH)))))))))))))))))), (Npos (XI (XI (XI (XI (XO (XI
    XH)))))))) :: (((Npos (XI (XO (XI (XO (XI (XO (XO (XO (XI (XI (XO (XO (XO
    (XO (XO (XI (XO XH)))))))))))))))))), (Npos (XI (XI (XI (XI (XO (XI
    XH)))))))) :: (((Npos (XO (XI (XI (XO (XI (XO (XO (XO (XI (XI (XO (XO (XO
    (XO (XO (XI (XO XH)))))))))))))))))), (Npos (XO (XI (XI (XI (XO (XI
    XH)))))))) :: (((Npos (XI (XI (XI (XO (XI (XO (XO (XO (XI (XI (XO (XO (XO
    (XO (XO (XI (XO XH)))))))))))))))))), (Npos (XO (XI (XI (XI (XO (XI
    XH)))))))) :: (((Npos (XO (XO (XO (XI (XI (XO (XO (XO (XI (XI (XO (XO (XO
    (XO (XO (XI (XO XH)))))))))))))))))), (Npos (XI (XO (XO (XO (XI (XI
    XH)))))))) :: (((Npos (XI (XO (XO (XI (XI (XO (XO (XO (XI (XI (XO (XO (XO
    (XO (XO (XI (XO XH)))))))))))))))))), (Npos (XI (XO (XO (XO (XI (XI
    XH)))))))) :: (((Npos (XO (XI (XO (XI (XI (XO (XO (XO (XI (XI (XO (XO (XO
    (XO (XO (XI (XO XH)))))))))))))))))), (Npos (XO (XO (XO (XO (XI (XI
    XH)))))))) :: (((Npos (XI (XI (XO (XI (XI (XO (XO (XO (XI (XI (XO (XO (XO
    (XO (XO (XI (XO XH)))))))))))))))))), (Npos (XO (XO (XO (XO (XI (XI
    XH)))))))) :: (((Npos (XO (XO (XI (XI (XI (XO (XO (XO (XI (XI (XO (XO (XO
    (XO (XO (XI (XO XH)))))))))))))))))), (Npos (XI (XI (XI (XO (XI (XI
    XH)))))))) :: (((Npos (XI (XO (XI (XI (XI (XO (XO (XO (XI (XI (XO (XO (XO
    (XO (XO (XI (XO XH)))))))))))))))))), (Npos (XI (XI (XI (XO (XI (XI
    XH)))))))) :: (((Npos (XO (XI (XI (XI (XI (XO (XO (XO (XI (XI (XO (XO (XO
    (XO (XO (XI (XO XH)))))))))))))))))), (Npos (XO (XI (XI (XO (XI (XI
    XH)))))))) :: (((Npos (XI (XI (XI (XI (XI (XO (XO (XO (XI (XI (XO (XO (XO
    (XO (XO (XI (XO XH)))))))))))))))))), (Npos (XO (XI (XI (XO (XI (XI
    XH)))))))) :: (((Npos (XO (XO (XO (XO (XO (XI (XO (XO (XI (XI (XO (XO (XO
    (XO (XO (XI (XO XH)))))))))))))))))), (Npos (XI (XI (XO (XI (XI (XI
    XH)))))))) :: (((Npos (XI (XO (XO (XO (XO (XI (XO (XO (XI (XI (XO (XO (XO
    (XO (XO (XI (XO XH)))))))))))))))))), (Npos (XI (XI (XO (XI (XI (XI
    XH)))))))) :: (((Npos (XO (XI (XO (XO (XO (XI (XO (XO (XI (XI (XO (XO (XO
    (XO (XO (XI (XO XH)))))))))))))))))), (Npos (XO (XI (XO (XI (XI (XI
    XH)))))))) :: (((Npos (XI (XI (XO (XO (XO (XI (XO (XO (XI (XI (XO (XO (XO
    (XO (XO (XI (XO XH)))))))))))))))))), (Npos (XO (XI (XO (XI (XI (XI
    XH)))))))) :: (((Npos (XO (XO (XI (XO (XO (XI (XO (XO (XI (XI (XO (XO (XO
    (XO (XO (XI (XO XH)))))))))))))))))), (Npos (XI (XI (XI (XI (XI (XI
    XH)))))))) :: (((Npos (XI (XO (XI (XO (XO (XI (XO (XO (XI (XI (XO (XO (XO
    (XO (XO (XI (XO XH)))))))))))))))))), (Npos (XI (XI (XI (XI (XI (XI
    XH)))))))) :: (((Npos (XO (XI (XI (XO (XO (XI (XO (XO (XI (XI (XO (XO (XO
    (XO (XO (XI (XO XH)))))))))))))))))), (Npos (XO (XI (XI (XI (XI (XI
    XH)))))))) :: (((Npos (XI (XI (XI (XO (XO (XI (XO (XO (XI (XI (XO (XO (XO
    (XO (XO (XI (XO XH)))))))))))))))))), (Npos (XO (XI (XI (XI (XI (XI
    XH)))))))) :: (((Npos (XO (XO (XO (XI (XO (XI (XO (XO (XI (XI (XO (XO (XO
    (XO (XO (XI (XO XH)))))))))))))))))), (Npos (XI (XO (XO (XO (XO (XO (XO
    XH))))))))) :: (((Npos (XI (XO (XO (XI (XO (XI (XO (XO (XI (XI (XO (XO
    (XO (XO (XO (XI (XO XH)))))))))))))))))), (Npos (XI (XO (XO (XO (XO (XO
    (XO XH))))))))) :: (((Npos (XO (XI (XO (XI (XO (XI (XO (XO (XI (XI (XO
    (XO (XO (XO (XO (XI (XO XH)))))))))))))))))), (Npos (XO (XO (XO (XO (XO
    (XO (XO XH))))))))) :: (((Npos (XI (XI (XO (XI (XO (XI (XO (XO (XI (XI
    (XO (XO (XO (XO (XO (XI (XO XH)))))))))))))))))), (Npos (XO (XO (XO (XO
    (XO (XO (XO XH))))))))) :: (((Npos (XO (XO (XI (XI (XO (XI (XO (XO (XI
    (XI (XO (XO (XO (XO (XO (XI (XO XH)))))))))))))))))), (Npos (XI (XI (XO
    (XO (XO (XO (XO XH))))))))) :: (((Npos (XI (XO (XI (XI (XO (XI (XO (XO
    (XI (XI (XO (XO (XO (XO (XO (XI (XO XH)))))))))))))))))), (Npos (XI (XI
    (XO (XO (XO (XO (XO XH))))))))) :: (((Npos (XO (XI (XI (XI (XO (XI (XO
    (XO (XI (XI (XO (XO (XO (XO (XO (XI (XO XH)))))))))))))))))), (Npos (XO
    (XI (XO (XO (XO (XO (XO XH))))))))) :: (((Npos (XI (XI (XI (XI (XO (XI
    (XO (XO (XI (XI (XO (XO (XO (XO (XO (XI (XO XH)))))))))))))))))), (Npos
    (XO (XI (XO (XO (XO (XO (XO XH))))))))) :: (((Npos (XO (XO (XO (XO (XI
    (XI (XO (XO (XI (XI (XO (XO (XO (XO (XO (XI (XO XH)))))))))))))))))),
    (Npos (XI (XO (XI (XO (XO (XO (XO XH))))))))) :: (((Npos (XI (XO (XO (XO
    (XI (XI (XO (XO (XI (XI (XO (XO (XO (XO (XO (XI (XO XH)))))))))))))))))),
    (Npos (XI (XO (XI (XO (XO (XO (XO XH))))))))) :: (((Npos (XO (XI (XO (XO
    (XI (XI (XO (XO (XI (XI (XO (XO (XO (XO (XO (XI (XO XH)))))))))))))))))),
    (Npos (XO (XO (XI (XO (XO (XO (XO XH))))))))) :: (((Npos (XI (XI (XO (XO
    (XI (XI (XO (XO (XI (XI (XO (XO (XO (XO (XO (XI (XO XH)))))))))))))))))),
    (Npos (XO (XO (XI (XO (XO (XO (XO XH))))))))) :: (((Npos (XO (XO (XI (XO
    (XI (XI (XO (XO (XI (XI (XO (XO (XO (XO (XO (XI (XO XH)))))))))))))))))),
    (Npos (XI (XI (XI (XO (XO (XO (XO XH))))))))) :: (((Npos (XI (XO (XI (XO
    (XI (XI (XO (XO (XI (XI (XO (XO (XO (XO (XO (XI (XO XH)))))))))))))))))),
    (Npos (XI (XI (XI (XO (XO (XO (XO XH))))))))) :: (((Npos (XO (XI (XI (XO
    (XI (XI (XO (XO (XI (XI (XO (XO (XO (XO (XO (XI (XO XH)))))))))))))))))),
    (Npos (XO (XI (XI (XO (XO (XO (XO XH))))))))) :: (((Npos (XI (XI (XI (XO
    (XI (XI (XO (XO (XI (XI (XO (XO (XO (XO (XO (XI (XO XH)))))))))))))))))),
    (Npos (XO (XI (XI (XO (XO (XO (XO
    XH))))))))) :: [])))))))))))))))))))))))))))))))))))))))))))))))))))))))))))))))))))))))))))))))))))))))))))))))))))))))))))))))))))))))))))))))))))))))))))))))))))))))))))))))))))))))))))))))))))))))))))))))))))))))))))))))))))))))))))))))))))))))))))))))))))))))))))))))))))))))))))))))))))))))))))))))))))))))))))))))))))))))))))))))))))))))))))))))))))))))))))))))))))))))))))))))))))))))))))))))))))))))))))))))))))))

(** val layout_probhat : (n * str) list **)

let layout_probhat =
  (N0, ((Npos (XO (XO (XO (XI (XI (XI (XI (XI (XI (XO (XO
    XH)))))))))))) :: [])) :: (((Npos XH), ((Npos (XO (XI (XI (XO (XO (XI (XI
    (XI (XI (XO (XO XH)))))))))))) :: [])) :: (((Npos (XO XH)), ((Npos (XO
    (XO (XI (XO (XI (XI (XI (XI (XI (XO (XO XH)))))))))))) :: [])) :: (((Npos
    (XI XH)), ((Npos (XI (XI (XI (XO (XO (XI (XI (XI (XI (XO (XO
    XH)))))))))))) :: [])) :: (((Npos (XO (XO XH))), ((Npos (XI (XO (XI (XO
    (XI (XI (XI (XI (XI (XO (XO XH)))))))))))) :: [])) :: (((Npos (XI (XO
    XH))), ((Npos (XO (XO (XO (XI (XO (XI (XI (XI (XI (XO (XO
    XH)))))))))))) :: [])) :: (((Npos (XO (XI XH))), ((Npos (XO (XI (XI (XO
    (XI (XI (XI (XI (XI (XO (XO XH)))))))))))) :: [])) :: (((Npos (XI (XI
    XH))), ((Npos (XI (XO (XO (XI (XO (XI (XI (XI (XI (XO (XO
    XH)))))))))))) :: [])) :: (((Npos (XO (XO (XO XH)))), ((Npos (XI (XI (XI
    (XO (XI (XI (XI (XI (XI (XO (XO XH)))))))))))) :: [])) :: (((Npos (XI (XO
    (XO XH)))), ((Npos (XO (XI (XO (XI (XO (XI (XI (XI (XI (XO (XO
    XH)))))))))))) :: [])) :: (((Npos (XO (XI (XO XH)))), ((Npos (XI (XO (XI
    (XO (XO (XO XH))))))) :: [])) :: (((Npos (XI (XI (XO XH)))), ((Npos (XI
    (XI (XO (XI (XO (XI (XI (XI (XI (XO (XO XH)))))))))))) :: [])) :: (((Npos
    (XO (XO (XI XH)))), ((Npos (XI (XO (XI (XO (XO (XO
    XH))))))) :: [])) :: (((Npos (XI (XO (XI XH)))), ((Npos (XO (XO (XI (XI
    (XO (XI (XI (XI (XI (XO (XO XH)))))))))))) :: [])) :: (((Npos (XO (XI (XI
    XH)))), ((Npos (XI (XO (XI (XO (XO (XO XH))))))) :: [])) :: (((Npos (XI
    (XI (XI XH)))), ((Npos (XI (XO (XI (XI (XO (XI (XI (XI (XI (XO (XO
    XH)))))))))))) :: [])) :: (((Npos (XO (XO (XO (XO XH))))), ((Npos (XI (XO
    (XI (XO (XO (XO XH))))))) :: [])) :: (((Npos (XI (XO (XO (XO XH))))),
    ((Npos (XO (XI (XI (XI (XO (XI (XI (XI (XI (XO (XO
    XH)))))))))))) :: [])) :: (((Npos (XO (XI (XO (XO XH))))), ((Npos (XI (XO
    (XI (XO (XO (XO XH))))))) :: [])) :: (((Npos (XI (XI (XO (XO XH))))),
    ((Npos (XI (XI (XI (XI (XO (XI (XI (XI (XI (XO (XO
    XH)))))))))))) :: [])) :: (((Npos (XO (XO (XI (XO XH))))), ((Npos (XO (XO
    (XO (XO (XO (XI (XI (XI (XI (XO (XO XH)))))))))))) :: [])) :: (((Npos (XI
    (XO (XI (XO XH))))), ((Npos (XI (XO (XI (XO (XO (XO (XO (XI (XI (XO (XO
    XH)))))))))))) :: [])) :: (((Npos (XO (XI (XI (XO XH))))), ((Npos (XO (XI
    (XO (XI (XI (XI (XI (XI (XI (XO (XO XH)))))))))))) :: [])) :: (((Npos (XI
    (XI (XI (XO XH))))), ((Npos (XO (XI (XI (XI (XI (XO (XO (XI (XI (XO (XO
    XH)))))))))))) :: [])) :: (((Npos (XO (XO (XO (XI XH))))), ((Npos (XI (XO
    (XI (XO (XO (XO XH))))))) :: [])) :: (((Npos (XI (XO (XO (XI XH))))),
    ((Npos (XI (XI (XI (XO (XO XH)))))) :: [])) :: (((Npos (XO (XI (XO (XI
    XH))))), ((Npos (XI (XO (XI (XO (XO (XO XH))))))) :: [])) :: (((Npos (XI
    (XI (XO (XI XH))))), ((Npos (XO (XI (XI (XI (XO (XO (XI (XI (XI (XO (XO
    XH)))))))))))) :: [])) :: (((Npos (XO (XO (XI (XI XH))))), ((Npos (XI (XO
    (XI (XO (XO (XO XH))))))) :: [])) :: (((Npos (XI (XO (XI (XI XH))))),
    ((Npos (XO (XO (XO (XO (XO (XO XH))))))) :: [])) :: (((Npos (XO (XI (XI
    (XI XH))))), ((Npos (XI (XO (XI (XO (XO (XO XH))))))) :: [])) :: (((Npos
    (XI (XI (XI (XI XH))))), ((Npos (XI (XO (XI (XI (XO (XI (XO (XI (XI (XO
    (XO XH)))))))))))) :: [])) :: (((Npos (XO (XO (XO (XO (XO XH)))))),
    ((Npos (XI (XO (XI (XO (XO (XO XH))))))) :: [])) :: (((Npos (XI (XO (XO
    (XO (XO XH)))))), ((Npos (XO (XO (XI (XI (XO (XO (XO (XO (XO (XO (XO (XO
    (XO XH)))))))))))))) :: [])) :: (((Npos (XO (XI (XO (XO (XO XH)))))),
    ((Npos (XI (XO (XI (XO (XO (XO XH))))))) :: [])) :: (((Npos (XI (XI (XO
    (XO (XO XH)))))), ((Npos (XI (XO (XI (XO (XO (XI (XI (XO (XI (XO (XO
    XH)))))))))))) :: [])) :: (((Npos (XO (XO (XI (XO (XO XH)))))), ((Npos
    (XI (XO (XI (XO (XO (XO XH))))))) :: [])) :: (((Npos (XI (XO (XI (XO (XO
    XH)))))), ((Npos (XO (XO (XO (XI (XO (XO (XI (XI (XI (XO (XO
    XH)))))))))))) :: [])) :: (((Npos (XO (XI (XI (XO (XO XH)))))), ((Npos
    (XI (XO (XI (XO (XO (XO XH))))))) :: [])) :: (((Npos (XI (XI (XI (XO (XO
    XH)))))), ((Npos (XO (XO (XI (XI (XO (XO (XI (XI (XI (XO (XO
    XH)))))))))))) :: [])) :: (((Npos (XO (XO (XO (XI (XO XH)))))), ((Npos
    (XI (XO (XI (XO (XO (XO XH))))))) :: [])) :: (((Npos (XI (XO (XO (XI (XO
    XH)))))), ((Npos (XI (XI (XI (XO (XO (XO (XI (XI (XI (XO (XO
    XH)))))))))))) :: [])) :: (((Npos (XO (XI (XO (XI (XO XH)))))), ((Npos
    (XI (XI (XI (XO (XI (XO (XI (XI (XI (XO (XO
    XH)))))))))))) :: [])) :: (((Npos (XI (XI (XO (XI (XO XH)))))), ((Npos
    (XI (XI (XO (XI (XO (XO (XI (XI (XI (XO (XO
    XH)))))))))))) :: [])) :: (((Npos (XO (XO (XI (XI (XO XH)))))), ((Npos
    (XI (XO (XI (XO (XO (XO XH))))))) :: [])) :: (((Npos (XI (XO (XI (XI (XO
    XH)))))), ((Npos (XI (XI (XO (XI (XI (XO (XO (XI (XI (XO (XO
    XH)))))))))))) :: [])) :: (((Npos (XO (XI (XI (XI (XO XH)))))), ((Npos
    (XI (XO (XI (XO (XO (XO XH))))))) :: [])) :: (((Npos (XI (XI (XI (XI (XO
    XH)))))), ((Npos (XO (XI (XI (XI (XI (XO XH))))))) :: [])) :: (((Npos (XO
    (XO (XO (XO (XI XH)))))), ((Npos (XI (XO (XI (XO (XO (XO
    XH))))))) :: [])) :: (((Npos (XI (XO (XO (XO (XI XH)))))), ((Npos (XO (XI
    (XO (XI (XI XH)))))) :: [])) :: (((Npos (XO (XI (XO (XO (XI XH)))))),
    ((Npos (XI (XO (XI (XO (XO (XO XH))))))) :: [])) :: (((Npos (XI (XI (XO
    (XO (XI XH)))))), ((Npos (XO (XO (XI (XI (XO XH)))))) :: [])) :: (((Npos
    (XO (XO (XI (XO (XI XH)))))), ((Npos (XO (XI (XO (XO (XO (XI (XI (XI (XI
    (XO (XO XH)))))))))))) :: [])) :: (((Npos (XI (XO (XI (XO (XI XH)))))),
    ((Npos (XO (XI (XO (XO (XO (XI (XO (XI (XI (XO (XO
    XH)))))))))))) :: [])) :: (((Npos (XO (XI (XI (XO (XI XH)))))), ((Npos
    (XO (XI (XO (XO (XI (XI (XI (XI (XI (XO (XO
    XH)))))))))))) :: [])) :: (((Npos (XI (XI (XI (XO (XI XH)))))), ((Npos
    (XI (XI (XO (XO (XI (XI (XI (XI (XI (XO (XO
    XH)))))))))))) :: [])) :: (((Npos (XO (XO (XO (XI (XI XH)))))), ((Npos
    (XI (XO (XI (XO (XO (XO XH))))))) :: [])) :: (((Npos (XI (XO (XO (XI (XI
    XH)))))), ((Npos (XO (XO (XO (XI (XO (XO (XO (XI (XI (XO (XO
    XH)))))))))))) :: [])) :: (((Npos (XO (XI (XO (XI (XI XH)))))), ((Npos
    (XI (XO (XI (XO (XO (XO XH))))))) :: [])) :: (((Npos (XI (XI (XO (XI (XI
    XH)))))), ((Npos (XI (XO (XI (XI (XI XH)))))) :: [])) :: (((Npos (XO (XO
    (XI (XI (XI XH)))))), ((Npos (XI (XO (XI (XO (XO (XO
    XH))))))) :: [])) :: (((Npos (XI (XO (XI (XI (XI XH)))))), ((Npos (XI (XO
    (XO (XO (XO XH)))))) :: [])) :: (((Npos (XO (XI (XI (XI (XI XH)))))),
    ((Npos (XI (XO (XI (XO (XO (XO XH))))))) :: [])) :: (((Npos (XI (XI (XI
    (XI (XI XH)))))), ((Npos (XI (XO (XI (XO (XO (XI (XO (XI (XI (XO (XO
    XH)))))))))))) :: [])) :: (((Npos (XO (XO (XO (XO (XO (XO XH))))))),
    ((Npos (XI (XO (XI (XO (XO (XO XH))))))) :: [])) :: (((Npos (XI (XO (XO
    (XO (XO (XO XH))))))), ((Npos (XO (XO (XO (XI (XI (XO (XO (XI (XI (XO (XO
    XH)))))))))))) :: [])) :: (((Npos (XO (XI (XO (XO (XO (XO XH))))))),
    ((Npos (XI (XO (XI (XO (XO (XO XH))))))) :: [])) :: (((Npos (XI (XI (XO
    (XO (XO (XO XH))))))), ((Npos (XI (XO (XI (XI (XO (XO (XO (XO (XO (XO (XO
    (XO (XO XH)))))))))))))) :: [])) :: (((Npos (XO (XO (XI (XO (XO (XO
    XH))))))), ((Npos (XI (XO (XI (XO (XO (XO XH))))))) :: [])) :: (((Npos
    (XI (XO (XI (XO (XO (XO XH))))))), ((Npos (XI (XO (XO (XO (XO (XO (XO (XI
    (XI (XO (XO XH)))))))))))) :: [])) :: (((Npos (XO (XI (XI (XO (XO (XO
    XH))))))), ((Npos (XI (XO (XI (XO (XO (XO XH))))))) :: [])) :: (((Npos
    (XI (XI (XI (XO (XO (XO XH))))))), ((Npos (XI (XI (XO (XO (XO (XO (XO (XI
    (XI (XO (XO XH)))))))))))) :: [])) :: (((Npos (XO (XO (XO (XI (XO (XO
    XH))))))), ((Npos (XI (XO (XI (XO (XO (XO XH))))))) :: [])) :: (((Npos
    (XI (XO (XO (XI (XO (XO XH))))))), ((Npos (XI (XI (XO (XO (XO
    XH)))))) :: [])) :: (((Npos (XO (XI (XO (XI (XO (XO XH))))))), ((Npos (XI
    (XO (XI (XO (XO (XO XH))))))) :: [])) :: (((Npos (XI (XI (XO (XI (XO (XO
    XH))))))), ((Npos (XI (XI (XI (XO (XO (XO (XO (XI (XI (XO (XO
    XH)))))))))))) :: [])) :: (((Npos (XO (XO (XI (XI (XO (XO XH))))))),
    ((Npos (XI (XO (XI (XO (XO (XO XH))))))) :: [])) :: (((Npos (XI (XO (XI
    (XI (XO (XO XH))))))), ((Npos (XI (XO (XI (XI (XI (XO (XO (XI (XI (XO (XO
    XH)))))))))))) :: [])) :: (((Npos (XO (XI (XI (XI (XO (XO XH))))))),
    ((Npos (XI (XO (XI (XO (XO (XO XH))))))) :: [])) :: (((Npos (XI (XI (XI
    (XI (XO (XO XH))))))), ((Npos (XO (XI (XI (XO (XI (XO (XO (XI (XI (XO (XO
    XH)))))))))))) :: [])) :: (((Npos (XO (XO (XO (XO (XI (XO XH))))))),
    ((Npos (XI (XO (XI (XO (XO (XO XH))))))) :: [])) :: (((Npos (XI (XO (XO
    (XO (XI (XO XH))))))), ((Npos (XO (XI (XO (XO (XO (XO (XO (XI (XI (XO (XO
    XH)))))))))))) :: [])) :: (((Npos (XO (XI (XO (XO (XI (XO XH))))))),
    ((Npos (XI (XO (XI (XO (XO (XO XH))))))) :: [])) :: (((Npos (XI (XI (XO
    (XO (XI (XO XH))))))), ((Npos (XI (XI (XO (XO (XO (XO (XI (XI (XI (XO (XO
    XH)))))))))))) :: [])) :: (((Npos (XO (XO (XI (XO (XI (XO XH))))))),
    ((Npos (XI (XO (XI (XO (XO (XO XH))))))) :: [])) :: (((Npos (XI (XO (XI
    (XO (XI (XO XH))))))), ((Npos (XI (XO (XO (XI (XI (XO (XO (XI (XI (XO (XO
    XH)))))))))))) :: [])) :: (((Npos (XO (XI (XI (XO (XI (XO XH))))))),
    ((Npos (XI (XO (XI (XO (XO (XO XH))))))) :: [])) :: (((Npos (XI (XI (XI
    (XO (XI (XO XH))))))), ((Npos (XI (XO (XI (XI (XO
    XH)))))) :: [])) :: (((Npos (XO (XO (XO (XI (XI (XO XH))))))), ((Npos (XI
    (XO (XI (XO (XO (XO XH))))))) :: [])) :: (((Npos (XI (XO (XO (XI (XI (XO
    XH))))))), ((Npos (XI (XI (XO (XO (XO (XI (XO (XI (XI (XO (XO
    XH)))))))))))) :: [])) :: (((Npos (XO (XI (XO (XI (XI (XO XH))))))),
    ((Npos (XI (XO (XI (XO (XO (XO XH))))))) :: [])) :: (((Npos (XI (XI (XO
    (XI (XI (XO XH))))))), ((Npos (XO (XO (XI (XO (XI (XO (XO (XI (XI (XO (XO
    XH)))))))))))) :: [])) :: (((Npos (XO (XO (XI (XI (XI (XO XH))))))),
    ((Npos (XI (XO (XI (XO (XO (XO XH))))))) :: [])) :: (((Npos (XI (XO (XI
    (XI (XI (XO XH))))))), ((Npos (XI (XI (XO (XI (XO (XI (XO (XI (XI (XO (XO
    XH)))))))))))) :: [])) :: (((Npos (XO (XI (XI (XI (XI (XO XH))))))),
    ((Npos (XI (XO (XI (XO (XO (XO XH))))))) :: [])) :: (((Npos (XI (XI (XI
    (XI (XI (XO XH))))))), ((Npos (XO (XO (XO (XI (XO
    XH)))))) :: [])) :: (((Npos (XO (XO (XO (XO (XO (XI XH))))))), ((Npos (XI
    (XO (XO (XI (XI (XI (XI (XI (XI (XO (XO XH)))))))))))) :: [])) :: (((Npos
    (XI (XO (XO (XO (XO (XI XH))))))), ((Npos (XI (XO (XO (XI (XO
    XH)))))) :: [])) :: (((Npos (XO (XI (XO (XO (XO (XI XH))))))), ((Npos (XI
    (XO (XI (XO (XO (XO XH))))))) :: [])) :: (((Npos (XI (XI (XO (XO (XO (XI
    XH))))))), ((Npos (XI (XO (XI (XO (XO XH)))))) :: [])) :: (((Npos (XO (XO
    (XI (XO (XO (XI XH))))))), ((Npos (XO (XO (XI (XI (XI (XI (XO (XI (XI (XO
    (XO XH)))))))))))) :: [])) :: (((Npos (XI (XO (XI (XO (XO (XI XH))))))),
    ((Npos (XO (XO (XI (XO (XO (XI (XI (XO (XI (XO (XO
    XH)))))))))))) :: [])) :: (((Npos (XO (XI (XI (XO (XO (XI XH))))))),
    ((Npos (XI (XO (XI (XO (XO (XO XH))))))) :: [])) :: (((Npos (XI (XI (XI
    (XO (XO (XI XH))))))), ((Npos (XI (XI (XO (XI (XO
    XH)))))) :: [])) :: (((Npos (XO (XO (XO (XI (XO (XI XH))))))), ((Npos (XI
    (XO (XI (XO (XO (XO XH))))))) :: [])) :: (((Npos (XI (XO (XO (XI (XO (XI
    XH))))))), ((Npos (XI (XI (XI (XO (XO (XI (XO (XI (XI (XO (XO
    XH)))))))))))) :: [])) :: (((Npos (XO (XI (XO (XI (XO (XI XH))))))),
    ((Npos (XI (XO (XI (XO (XO (XO XH))))))) :: [])) :: (((Npos (XI (XI (XO
    (XI (XO (XI XH))))))), ((Npos (XI (XI (XI (XI (XI
    XH)))))) :: [])) :: (((Npos (XO (XO (XI (XI (XO (XI XH))))))), ((Npos (XI
    (XO (XI (XO (XO (XO XH))))))) :: [])) :: (((Npos (XI (XO (XI (XI (XO (XI
    XH))))))), ((Npos (XO (XI (XO (XO (XO XH)))))) :: [])) :: (((Npos (XO (XI
    (XI (XI (XO (XI XH))))))), ((Npos (XI (XO (XI (XO (XO (XO
    XH))))))) :: [])) :: (((Npos (XI (XI (XI (XI (XO (XI XH))))))), ((Npos
    (XO (XO (XI (XI (XI (XO (XI (XI (XI (XO (XO
    XH)))))))))))) :: [])) :: (((Npos (XO (XO (XO (XO (XI (XI XH))))))),
    ((Npos (XI (XI (XO (XO (XO (XI (XI (XI (XI (XO (XO
    XH)))))))))))) :: [])) :: (((Npos (XI (XO (XO (XO (XI (XI XH))))))),
    ((Npos (XI (XI (XI (XO (XI (XI (XO (XI (XI (XO (XO
    XH)))))))))))) :: [])) :: (((Npos (XO (XI (XO (XO (XI (XI XH))))))),
    ((Npos (XI (XO (XI (XO (XO (XO XH))))))) :: [])) :: (((Npos (XI (XI (XO
    (XO (XI (XI XH))))))), ((Npos (XI (XI (XO (XI (XI
    XH)))))) :: [])) :: (((Npos (XO (XO (XI (XO (XI (XI XH))))))), ((Npos (XI
    (XO (XI (XO (XO (XO XH))))))) :: [])) :: (((Npos (XI (XO (XI (XO (XI (XI
    XH))))))), ((Npos (XI (XO (XI (XI (XO (XO (XI (XI (XI (XO (XO
    XH)))))))))))) :: [])) :: (((Npos (XO (XI (XI (XO (XI (XI XH))))))),
    ((Npos (XI (XO (XI (XO (XO (XO XH))))))) :: [])) :: (((Npos (XI (XI (XI
    (XO (XI (XI XH))))))), ((Npos (XO (XO (XO (XO (XO (XI (XO (XI (XI (XO (XO
    XH)))))))))))) :: [])) :: (((Npos (XO (XO (XO (XI (XI (XI XH))))))),
    ((Npos (XI (XO (XI (XO (XO (XO XH))))))) :: [])) :: (((Npos (XI (XO (XO
    (XI (XI (XI XH))))))), ((Npos (XO (XI (XI (XI (XI (XI
    XH))))))) :: [])) :: (((Npos (XO (XI (XO (XI (XI (XI XH))))))), ((Npos
    (XI (XO (XI (XO (XO (XO XH))))))) :: [])) :: (((Npos (XI (XI (XO (XI (XI
    (XI XH))))))), ((Npos (XI (XO (XO (XI (XO (XO (XO (XI (XI (XO (XO
    XH)))))))))))) :: [])) :: (((Npos (XO (XO (XI (XI (XI (XI XH))))))),
    ((Npos (XI (XO (XI (XO (XO (XO XH))))))) :: [])) :: (((Npos (XI (XO (XI
    (XI (XI (XI XH))))))), ((Npos (XI (XI (XI (XI (XI (XO
    XH))))))) :: [])) :: (((Npos (XO (XI (XI (XI (XI (XI XH))))))), ((Npos
    (XI (XO (XI (XO (XO (XO XH))))))) :: [])) :: (((Npos (XI (XI (XI (XI (XI
    (XI XH))))))), ((Npos (XI (XI (XO (XI (XO (XO (XO (XI (XI (XO (XO
    XH)))))))))))) :: [])) :: (((Npos (XO (XO (XO (XO (XO (XO (XO XH)))))))),
    ((Npos (XI (XO (XI (XO (XO (XO XH))))))) :: [])) :: (((Npos (XI (XO (XO
    (XO (XO (XO (XO XH)))))))), ((Npos (XO (XI (XO (XI (XO (XO (XO (XI (XI
    (XO (XO XH)))))))))))) :: [])) :: (((Npos (XO (XI (XO (XO (XO (XO (XO
    XH)))))))), ((Npos (XI (XO (XI (XO (XO (XO XH))))))) :: [])) :: (((Npos
    (XI (XI (XO (XO (XO (XO (XO XH)))))))), ((Npos (XI (XO (XI (XI (XI (XO
    (XI (XI (XI (XO (XO XH)))))))))))) :: [])) :: (((Npos (XO (XO (XI (XO (XO
    (XO (XO XH)))))))), ((Npos (XI (XO (XI (XO (XO (XO
    XH))))))) :: [])) :: (((Npos (XI (XO (XI (XO (XO (XO (XO XH)))))))),
    ((Npos (XO (XO (XO (XO (XI (XO (XO (XI (XI (XO (XO
    XH)))))))))))) :: [])) :: (((Npos (XO (XI (XI (XO (XO (XO (XO XH)))))))),
    ((Npos (XI (XO (XI (XO (XO (XO XH))))))) :: [])) :: (((Npos (XI (XI (XI
    (XO (XO (XO (XO XH)))))))), ((Npos (XI (XI (XI (XI (XO (XI (XO (XI (XI
    (XO (XO XH)))))))))))) :: [])) :: (((Npos (XO (XO (XO (XI (XO (XO (XO
    XH)))))))), ((Npos (XO (XO (XI (XI (XO (XO (XO (XI (XI (XO (XO
    XH)))))))))))) :: [])) :: (((Npos (XI (XO (XO (XI (XO (XO (XO XH)))))))),
    ((Npos (XO (XI (XI (XI (XI (XI (XO (XI (XI (XO (XO
    XH)))))))))))) :: [])) :: (((Npos (XO (XI (XO (XI (XO (XO (XO XH)))))))),
    ((Npos (XI (XO (XI (XO (XO (XO XH))))))) :: [])) :: (((Npos (XI (XI (XO
    (XI (XO (XO (XO XH)))))))), ((Npos (XO (XO (XI (XI (XO (XI (XO (XI (XI
    (XO (XO XH)))))))))))) :: [])) :: (((Npos (XO (XO (XI (XI (XO (XO (XO
    XH)))))))), ((Npos (XI (XO (XI (XO (XO (XO XH))))))) :: [])) :: (((Npos
    (XI (XO (XI (XI (XO (XO (XO XH)))))))), ((Npos (XO (XI (XO (XI (XI (XO
    (XO (XI (XI (XO (XO XH)))))))))))) :: [])) :: (((Npos (XO (XI (XI (XI (XO
    (XO (XO XH)))))))), ((Npos (XO (XO (XI (XO (XO (XO (XI (XI (XI (XO (XO
    XH)))))))))))) :: [])) :: (((Npos (XI (XI (XI (XI (XO (XO (XO XH)))))))),
    ((Npos (XI (XO (XO (XO (XO (XI (XO (XI (XI (XO (XO
    XH)))))))))))) :: [])) :: (((Npos (XO (XO (XO (XO (XI (XO (XO XH)))))))),
    ((Npos (XI (XO (XI (XO (XO (XO XH))))))) :: [])) :: (((Npos (XI (XO (XO
    (XO (XI (XO (XO XH)))))))), ((Npos (XO (XO (XO (XO (XO (XO (XI (XI (XI
    (XO (XO XH)))))))))))) :: [])) :: (((Npos (XO (XI (XO (XO (XI (XO (XO
    XH)))))))), ((Npos (XI (XO (XI (XO (XO (XO XH))))))) :: [])) :: (((Npos
    (XI (XI (XO (XO (XI (XO (XO XH)))))))), ((Npos (XO (XO (XI (XO (XO (XI
    (XO (XI (XI (XO (XO XH)))))))))))) :: [])) :: (((Npos (XO (XO (XI (XO (XI
    (XO (XO XH)))))))), ((Npos (XI (XO (XI (XO (XO (XO
    XH))))))) :: [])) :: (((Npos (XI (XO (XI (XO (XI (XO (XO XH)))))))),
    ((Npos (XI (XI (XI (XO (XI (XO (XO (XI (XI (XO (XO
    XH)))))))))))) :: [])) :: (((Npos (XO (XI (XI (XO (XI (XO (XO XH)))))))),
    ((Npos (XI (XO (XI (XI (XI (XI (XO (XI (XI (XO (XO
    XH)))))))))))) :: [])) :: (((Npos (XI (XI (XI (XO (XI (XO (XO XH)))))))),
    ((Npos (XI (XO (XO (XI (XI (XI (XO (XI (XI (XO (XO
    XH)))))))))))) :: [])) :: (((Npos (XO (XO (XO (XI (XI (XO (XO XH)))))))),
    ((Npos (XI (XO (XI (XO (XO (XO XH))))))) :: [])) :: (((Npos (XI (XO (XO
    (XI (XI (XO (XO XH)))))))), ((Npos (XI (XI (XI (XI (XI (XI (XO (XI (XI
    (XO (XO XH)))))))))))) :: [])) :: (((Npos (XO (XI (XO (XI (XI (XO (XO
    XH)))))))), ((Npos (XI (XO (XI (XO (XO (XO XH))))))) :: [])) :: (((Npos
    (XI (XI (XO (XI (XI (XO (XO XH)))))))), ((Npos (XO (XO (XI (XI (XI (XO
    (XO (XI (XI (XO (XO XH)))))))))))) :: [])) :: (((Npos (XO (XO (XI (XI (XI
    (XO (XO XH)))))))), ((Npos (XI (XO (XI (XO (XO (XO
    XH))))))) :: [])) :: (((Npos (XI (XO (XI (XI (XI (XO (XO XH)))))))),
    ((Npos (XI (XO (XI (XO (XI (XO (XO (XI (XI (XO (XO
    XH)))))))))))) :: [])) :: (((Npos (XO (XI (XI (XI (XI (XO (XO XH)))))))),
    ((Npos (XI (XO (XI (XO (XO (XO XH))))))) :: [])) :: (((Npos (XI (XI (XI
    (XI (XI (XO (XO XH)))))))), ((Npos (XO (XI (XO (XO (XI (XI (XO (XI (XI
    (XO (XO XH)))))))))))) :: [])) :: (((Npos (XO (XO (XO (XO (XO (XI (XO
    XH)))))))), ((Npos (XI (XO (XI (XO (XO (XO XH))))))) :: [])) :: (((Npos
    (XI (XO (XO (XO (XO (XI (XO XH)))))))), ((Npos (XO (XI (XI (XI (XO (XI
    (XO (XI (XI (XO (XO XH)))))))))))) :: [])) :: (((Npos (XO (XI (XO (XO (XO
    (XI (XO XH)))))))), ((Npos (XI (XO (XI (XO (XO (XO
    XH))))))) :: [])) :: (((Npos (XI (XI (XO (XO (XO (XI (XO XH)))))))),
    ((Npos (XO (XO (XO (XI (XO (XI (XO (XI (XI (XO (XO
    XH)))))))))))) :: [])) :: (((Npos (XO (XO (XI (XO (XO (XI (XO XH)))))))),
    ((Npos (XI (XO (XI (XO (XO (XO XH))))))) :: [])) :: (((Npos (XI (XO (XI
    (XO (XO (XI (XO XH)))))))), ((Npos (XI (XI (XO (XO (XI (XO (XO (XI (XI
    (XO (XO XH)))))))))))) :: [])) :: (((Npos (XO (XI (XI (XO (XO (XI (XO
    XH)))))))), ((Npos (XI (XO (XI (XO (XO (XO XH))))))) :: [])) :: (((Npos
    (XI (XI (XI (XO (XO (XI (XO XH)))))))), ((Npos (XO (XI (XO (XI (XO (XI
    (XO (XI (XI (XO (XO XH)))))))))))) :: [])) :: (((Npos (XO (XO (XO (XI (XO
    (XI (XO XH)))))))), ((Npos (XI (XO (XI (XO (XO (XO
    XH))))))) :: [])) :: (((Npos (XI (XO (XO (XI (XO (XI (XO XH)))))))),
    ((Npos (XO (XI (XI (XO (XO (XI (XO (XI (XI (XO (XO
    XH)))))))))))) :: [])) :: (((Npos (XO (XI (XO (XI (XO (XI (XO XH)))))))),
    ((Npos (XI (XO (XI (XO (XO (XO XH))))))) :: [])) :: (((Npos (XI (XI (XO
    (XI (XO (XI (XO XH)))))))), ((Npos (XO (XO (XO (XO (XI (XI (XO (XI (XI
    (XO (XO XH)))))))))))) :: [])) :: (((Npos (XO (XO (XI (XI (XO (XI (XO
    XH)))))))), ((Npos (XI (XO (XO (XO (XO (XI (XI (XI (XI (XO (XO
    XH)))))))))))) :: [])) :: (((Npos (XI (XO (XI (XI (XO (XI (XO XH)))))))),
    ((Npos (XO (XO (XO (XI (XI (XI (XO (XI (XI (XO (XO
    XH)))))))))))) :: [])) :: (((Npos (XO (XI (XI (XI (XO (XI (XO XH)))))))),
    ((Npos (XI (XO (XI (XO (XO (XO XH))))))) :: [])) :: (((Npos (XI (XI (XI
    (XI (XO (XI (XO XH)))))))), ((Npos (XI (XI (XI (XI (XI (XO (XO (XI (XI
    (XO (XO XH)))))))))))) :: [])) :: (((Npos (XO (XO (XO (XO (XI (XI (XO
    XH)))))))), ((Npos (XI (XO (XI (XO (XO (XO XH))))))) :: [])) :: (((Npos
    (XI (XO (XO (XO (XI (XI (XO XH)))))))), ((Npos (XI (XO (XO (XO (XO (XO
    (XI (XI (XI (XO (XO XH)))))))))))) :: [])) :: (((Npos (XO (XI (XO (XO (XI
    (XI (XO XH)))))))), ((Npos (XI (XO (XI (XO (XO (XO
    XH))))))) :: [])) :: (((Npos (XI (XI (XO (XO (XI (XI (XO XH)))))))),
    ((Npos (XO (XI (XI (XO (XO (XO (XO (XI (XI (XO (XO
    XH)))))))))))) :: [])) :: (((Npos (XO (XO (XI (XO (XI (XI (XO XH)))))))),
    ((Npos (XI (XO (XI (XO (XO (XO XH))))))) :: [])) :: (((Npos (XI (XO (XI
    (XO (XI (XI (XO XH)))))))), ((Npos (XO (XI (XO (XO (XO (XO (XI (XI (XI
    (XO (XO XH)))))))))))) :: [])) :: (((Npos (XO (XI (XI (XO (XI (XI (XO
    XH)))))))), ((Npos (XI (XO (XI (XO (XO (XO XH))))))) :: [])) :: (((Npos
    (XI (XI (XI (XO (XI (XI (XO XH)))))))), ((Npos (XO (XI (XI (XO (XI (XI
    (XO (XI (XI (XO (XO XH)))))))))))) :: [])) :: (((Npos (XO (XO (XO (XI (XI
    (XI (XO XH)))))))), ((Npos (XI (XO (XI (XO (XO (XO
    XH))))))) :: [])) :: (((Npos (XI (XO (XO (XI (XI (XI (XO XH)))))))),
    ((Npos (XI (XI (XI (XI (XO (XO (XO (XI (XI (XO (XO
    XH)))))))))))) :: [])) :: (((Npos (XO (XI (XO (XI (XI (XI (XO XH)))))))),
    ((Npos (XI (XO (XI (XO (XO (XO XH))))))) :: [])) :: (((Npos (XI (XI (XO
    (XI (XI (XI (XO XH)))))))), ((Npos (XI (XI (XI (XI (XI (XO (XI (XI (XI
    (XO (XO XH)))))))))))) :: [])) :: (((Npos (XO (XO (XI (XI (XI (XI (XO
    XH)))))))), ((Npos (XO (XI (XI (XO (XO (XI (XI (XI (XI (XO (XO
    XH)))))))))))) :: [])) :: (((Npos (XI (XO (XI (XI (XI (XI (XO XH)))))))),
    ((Npos (XI (XI (XI (XO (XO (XI (XI (XI (XI (XO (XO
    XH)))))))))))) :: [])) :: (((Npos (XO (XI (XI (XI (XI (XI (XO XH)))))))),
    ((Npos (XO (XO (XO (XI (XO (XI (XI (XI (XI (XO (XO
    XH)))))))))))) :: [])) :: (((Npos (XI (XI (XI (XI (XI (XI (XO XH)))))))),
    ((Npos (XI (XO (XO (XI (XO (XI (XI (XI (XI (XO (XO
    XH)))))))))))) :: [])) :: (((Npos (XO (XO (XO (XO (XO (XO (XI XH)))))))),
    ((Npos (XO (XI (XO (XI (XO (XI (XI (XI (XI (XO (XO
    XH)))))))))))) :: [])) :: (((Npos (XI (XO (XO (XO (XO (XO (XI XH)))))))),
    ((Npos (XI (XI (XO (XI (XO (XI (XI (XI (XI (XO (XO
    XH)))))))))))) :: [])) :: (((Npos (XO (XI (XO (XO (XO (XO (XI XH)))))))),
    ((Npos (XO (XO (XI (XI (XO (XI (XI (XI (XI (XO (XO
    XH)))))))))))) :: [])) :: (((Npos (XI (XI (XO (XO (XO (XO (XI XH)))))))),
    ((Npos (XI (XO (XI (XI (XO (XI (XI (XI (XI (XO (XO
    XH)))))))))))) :: [])) :: (((Npos (XO (XO (XI (XO (XO (XO (XI XH)))))))),
    ((Npos (XO (XI (XI (XI (XO (XI (XI (XI (XI (XO (XO
    XH)))))))))))) :: [])) :: (((Npos (XI (XO (XI (XO (XO (XO (XI XH)))))))),
    ((Npos (XI (XI (XI (XI (XO (XI (XI (XI (XI (XO (XO
    XH)))))))))))) :: [])) :: (((Npos (XO (XI (XI (XO (XO (XO (XI XH)))))))),
    ((Npos (XI (XI (XO (XI (XO XH)))))) :: [])) :: (((Npos (XI (XI (XI (XO
    (XO (XO (XI XH)))))))), ((Npos (XO (XI (XI (XI (XO
    XH)))))) :: [])) :: (((Npos (XO (XO (XO (XI (XO (XO (XI XH)))))))),
    ((Npos (XI (XI (XI (XI (XO XH)))))) :: [])) :: (((Npos (XI (XO (XO (XI
    (XO (XO (XI XH)))))))), ((Npos (XO (XI (XO (XI (XO
    XH)))))) :: [])) :: (((Npos (XO (XI (XO (XI (XO (XO (XI XH)))))))),
    ((Npos (XI (XO (XI (XI (XO
    XH)))))) :: [])) :: []))))))))))))))))))))))))))))))))))))))))))))))))))))))))))))))))))))))))))))))))))))))))))))))))))))))))))))))))))))))))))))))))))))))))))))))))))))))))))))))))))))))))))))))))))))))))))))))))))))))))))

(** val layout_synthetic : (n * str) list **)

let layout_synthetic =
  (N0, ((Npos (XO (XO (XO (XI (XI (XI (XI (XI (XI (XO (XO
    XH)))))))))))) :: [])) :: (((Npos XH), ((Npos (XO (XI (XI (XO (XO (XI (XI
    (XI (XI (XO (XO XH)))))))))))) :: [])) :: (((Npos (XO XH)), ((Npos (XO
    (XO (XI (XO (XI (XI (XI (XI (XI (XO (XO XH)))))))))))) :: [])) :: (((Npos
    (XI XH)), ((Npos (XI (XI (XI (XO (XO (XI (XI (XI (XI (XO (XO
    XH)))))))))))) :: [])) :: (((Npos (XO (XO XH))), ((Npos (XI (XO (XI (XO
    (XI (XI (XI (XI (XI (XO (XO XH)))))))))))) :: [])) :: (((Npos (XI (XO
    XH))), ((Npos (XO (XO (XO (XI (XO (XI (XI (XI (XI (XO (XO
    XH)))))))))))) :: [])) :: (((Npos (XO (XI XH))), ((Npos (XO (XI (XI (XO
    (XI (XI (XI (XI (XI (XO (XO XH)))))))))))) :: [])) :: (((Npos (XI (XI
    XH))), ((Npos (XI (XO (XO (XI (XO (XI (XI (XI (XI (XO (XO
    XH)))))))))))) :: [])) :: (((Npos (XO (XO (XO XH)))), ((Npos (XI (XI (XI
    (XO (XI (XI (XI (XI (XI (XO (XO XH)))))))))))) :: [])) :: (((Npos (XI (XO
    (XO XH)))), ((Npos (XO (XI (XO (XI (XO (XI (XI (XI (XI (XO (XO
    XH)))))))))))) :: [])) :: (((Npos (XO (XI (XO XH)))), ((Npos (XI (XO (XI
    (XO (XO (XO XH))))))) :: [])) :: (((Npos (XI (XI (XO XH)))), ((Npos (XI
    (XI (XO (XI (XO (XI (XI (XI (XI (XO (XO XH)))))))))))) :: [])) :: (((Npos
    (XO (XO (XI XH)))), ((Npos (XI (XO (XI (XO (XO (XO
    XH))))))) :: [])) :: (((Npos (XI (XO (XI XH)))), ((Npos (XO (XO (XI (XI
    (XO (XI (XI (XI (XI (XO (XO XH)))))))))))) :: [])) :: (((Npos (XO (XI (XI
    XH)))), ((Npos (XI (XO (XI (XO (XO (XO XH))))))) :: [])) :: (((Npos (XI
    (XI (XI XH)))), ((Npos (XI (XO (XI (XI (XO (XI (XI (XI (XI (XO (XO
    XH)))))))))))) :: [])) :: (((Npos (XO (XO (XO (XO XH))))), ((Npos (XI (XO
    (XI (XO (XO (XO XH))))))) :: [])) :: (((Npos (XI (XO (XO (XO XH))))),
    ((Npos (XO (XI (XI (XI (XO (XI (XI (XI (XI (XO (XO
    XH)))))))))))) :: [])) :: (((Npos (XO (XI (XO (XO XH))))), ((Npos (XI (XO
    (XI (XO (XO (XO XH))))))) :: [])) :: (((Npos (XI (XI (XO (XO XH))))),
    ((Npos (XI (XI (XI (XI (XO (XI (XI (XI (XI (XO (XO
    XH)))))))))))) :: [])) :: (((Npos (XO (XO (XI (XO XH))))), ((Npos (XO (XO
    (XO (XO (XO (XI (XI (XI (XI (XO (XO XH)))))))))))) :: [])) :: (((Npos (XI
    (XO (XI (XO XH))))), ((Npos (XI (XO (XI (XO (XO (XO (XO (XI (XI (XO (XO
    XH)))))))))))) :: [])) :: (((Npos (XO (XI (XI (XO XH))))), ((Npos (XO (XI
    (XO (XI (XI (XI (XI (XI (XI (XO (XO XH)))))))))))) :: [])) :: (((Npos (XI
    (XI (XI (XO XH))))), ((Npos (XO (XI (XI (XI (XI (XO (XO (XI (XI (XO (XO
    XH)))))))))))) :: [])) :: (((Npos (XO (XO (XO (XI XH))))), ((Npos (XI (XO
    (XI (XO (XO (XO XH))))))) :: [])) :: (((Npos (XI (XO (XO (XI XH))))),
    ((Npos (XI (XI (XI (XO (XO XH)))))) :: [])) :: (((Npos (XO (XI (XO (XI
    XH))))), ((Npos (XI (XO (XI (XO (XO (XO XH))))))) :: [])) :: (((Npos (XI
    (XI (XO (XI XH))))), ((Npos (XO (XI (XI (XI (XO (XO (XI (XI (XI (XO (XO
    XH)))))))))))) :: [])) :: (((Npos (XO (XO (XI (XI XH))))), ((Npos (XI (XO
    (XI (XO (XO (XO XH))))))) :: [])) :: (((Npos (XI (XO (XI (XI XH))))),
    ((Npos (XO (XO (XO (XO (XO (XO XH))))))) :: [])) :: (((Npos (XO (XI (XI
    (XI XH))))), ((Npos (XI (XO (XI (XO (XO (XO XH))))))) :: [])) :: (((Npos
    (XI (XI (XI (XI XH))))), ((Npos (XI (XO (XI (XI (XO (XI (XO (XI (XI (XO
    (XO XH)))))))))))) :: [])) :: (((Npos (XO (XO (XO (XO (XO XH)))))),
    ((Npos (XI (XO (XI (XO (XO (XO XH))))))) :: [])) :: (((Npos (XI (XO (XO
    (XO (XO XH)))))), ((Npos (XO (XO (XI (XI (XO (XO (XO (XO (XO (XO (XO (XO
    (XO XH)))))))))))))) :: [])) :: (((Npos (XO (XI (XO (XO (XO XH)))))),
    ((Npos (XI (XO (XI (XO (XO (XO XH))))))) :: [])) :: (((Npos (XI (XI (XO
    (XO (XO XH)))))), ((Npos (XI (XO (XI (XO (XO (XI (XI (XO (XI (XO (XO
    XH)))))))))))) :: [])) :: (((Npos (XO (XO (XI (XO (XO XH)))))), ((Npos
    (XI (XO (XI (XO (XO (XO XH))))))) :: [])) :: (((Npos (XI (XO (XI (XO (XO
    XH)))))), ((Npos (XO (XO (XO (XI (XO (XO (XI (XI (XI (XO (XO
    XH)))))))))))) :: [])) :: (((Npos (XO (XI (XI (XO (XO XH)))))), ((Npos
    (XI (XO (XI (XO (XO (XO XH))))))) :: [])) :: (((Npos (XI (XI (XI (XO (XO
    XH)))))), ((Npos (XO (XO (XI (XI (XO (XO (XI (XI (XI (XO (XO
    XH)))))))))))) :: [])) :: (((Npos (XO (XO (XO (XI (XO XH)))))), ((Npos
    (XI (XO (XI (XO (XO (XO XH))))))) :: [])) :: (((Npos (XI (XO (XO (XI (XO
    XH)))))), ((Npos (XI (XI (XI (XO (XO (XO (XI (XI (XI (XO (XO
    XH)))))))))))) :: [])) :: (((Npos (XO (XI (XO (XI (XO XH)))))), ((Npos
    (XI (XI (XI (XO (XI (XO (XI (XI (XI (XO (XO
    XH)))))))))))) :: [])) :: (((Npos (XI (XI (XO (XI (XO XH)))))), ((Npos
    (XI (XI (XO (XI (XO (XO (XI (XI (XI (XO (XO
    XH)))))))))))) :: [])) :: (((Npos (XO (XO (XI (XI (XO XH)))))), ((Npos
    (XI (XO (XI (XO (XO (XO XH))))))) :: [])) :: (((Npos (XI (XO (XI (XI (XO
    XH)))))), ((Npos (XI (XI (XO (XI (XI (XO (XO (XI (XI (XO (XO
    XH)))))))))))) :: [])) :: (((Npos (XO (XI (XI (XI (XO XH)))))), ((Npos
    (XI (XO (XI (XO (XO (XO XH))))))) :: [])) :: (((Npos (XI (XI (XI (XI (XO
    XH)))))), ((Npos (XO (XI (XI (XI (XI (XO XH))))))) :: [])) :: (((Npos (XO
    (XO (XO (XO (XI XH)))))), ((Npos (XI (XO (XI (XO (XO (XO
    XH))))))) :: [])) :: (((Npos (XI (XO (XO (XO (XI XH)))))), ((Npos (XO (XI
    (XO (XI (XI XH)))))) :: [])) :: (((Npos (XO (XI (XO (XO (XI XH)))))),
    ((Npos (XI (XO (XI (XO (XO (XO XH))))))) :: [])) :: (((Npos (XI (XI (XO
    (XO (XI XH)))))), ((Npos (XO (XO (XI (XI (XO XH)))))) :: [])) :: (((Npos
    (XO (XO (XI (XO (XI XH)))))), ((Npos (XO (XI (XO (XO (XO (XI (XI (XI (XI
    (XO (XO XH)))))))))))) :: [])) :: (((Npos (XI (XO (XI (XO (XI XH)))))),
    ((Npos (XO (XI (XO (XO (XO (XI (XO (XI (XI (XO (XO
    XH)))))))))))) :: [])) :: (((Npos (XO (XI (XI (XO (XI XH)))))), ((Npos
    (XO (XI (XO (XO (XI (XI (XI (XI (XI (XO (XO
    XH)))))))))))) :: [])) :: (((Npos (XI (XI (XI (XO (XI XH)))))), ((Npos
    (XI (XI (XO (XO (XI (XI (XI (XI (XI (XO (XO
    XH)))))))))))) :: [])) :: (((Npos (XO (XO (XO (XI (XI XH)))))), ((Npos
    (XI (XO (XI (XO (XO (XO XH))))))) :: [])) :: (((Npos (XI (XO (XO (XI (XI
    XH)))))), ((Npos (XO (XO (XO (XI (XO (XO (XO (XI (XI (XO (XO
    XH)))))))))))) :: [])) :: (((Npos (XO (XI (XO (XI (XI XH)))))), ((Npos
    (XI (XO (XI (XO (XO (XO XH))))))) :: [])) :: (((Npos (XI (XI (XO (XI (XI
    XH)))))), ((Npos (XI (XO (XI (XI (XI XH)))))) :: [])) :: (((Npos (XO (XO
    (XI (XI (XI XH)))))), ((Npos (XI (XO (XI (XO (XO (XO
    XH))))))) :: [])) :: (((Npos (XI (XO (XI (XI (XI XH)))))), ((Npos (XI (XO
    (XO (XO (XO XH)))))) :: [])) :: (((Npos (XO (XI (XI (XI (XI XH)))))),
    ((Npos (XI (XO (XI (XO (XO (XO XH))))))) :: [])) :: (((Npos (XI (XI (XI
    (XI (XI XH)))))), ((Npos (XI (XO (XI (XO (XO (XI (XO (XI (XI (XO (XO
    XH)))))))))))) :: [])) :: (((Npos (XO (XO (XO (XO (XO (XO XH))))))),
    ((Npos (XI (XO (XI (XO (XO (XO XH))))))) :: [])) :: (((Npos (XI (XO (XO
    (XO (XO (XO XH))))))), ((Npos (XO (XO (XO (XI (XI (XO (XO (XI (XI (XO (XO
    XH)))))))))))) :: [])) :: (((Npos (XO (XI (XO (XO (XO (XO XH))))))),
    ((Npos (XI (XO (XI (XO (XO (XO XH))))))) :: [])) :: (((Npos (XI (XI (XO
    (XO (XO (XO XH))))))), ((Npos (XI (XO (XI (XI (XO (XO (XO (XO (XO (XO (XO
    (XO (XO XH)))))))))))))) :: [])) :: (((Npos (XO (XO (XI (XO (XO (XO
    XH))))))), ((Npos (XI (XO (XI (XO (XO (XO XH))))))) :: [])) :: (((Npos
    (XI (XO (XI (XO (XO (XO XH))))))), ((Npos (XI (XO (XO (XO (XO (XO (XO (XI
    (XI (XO (XO XH)))))))))))) :: [])) :: (((Npos (XO (XI (XI (XO (XO (XO
    XH))))))), ((Npos (XI (XO (XI (XI (XO (XO (XI (XI (XI (XO (XO
    XH)))))))))))) :: [])) :: (((Npos (XI (XI (XI (XO (XO (XO XH))))))),
    ((Npos (XI (XI (XO (XO (XO (XO (XO (XI (XI (XO (XO
    XH)))))))))))) :: [])) :: (((Npos (XO (XO (XO (XI (XO (XO XH))))))),
    ((Npos (XI (XO (XI (XO (XO (XO XH))))))) :: [])) :: (((Npos (XI (XO (XO
    (XI (XO (XO XH))))))), ((Npos (XI (XI (XO (XO (XO
    XH)))))) :: [])) :: (((Npos (XO (XI (XO (XI (XO (XO XH))))))), ((Npos (XI
    (XO (XI (XO (XO (XO XH))))))) :: [])) :: (((Npos (XI (XI (XO (XI (XO (XO
    XH))))))), ((Npos (XI (XI (XI (XO (XO (XO (XO (XI (XI (XO (XO
    XH)))))))))))) :: [])) :: (((Npos (XO (XO (XI (XI (XO (XO XH))))))),
    ((Npos (XI (XO (XI (XO (XO (XO XH))))))) :: [])) :: (((Npos (XI (XO (XI
    (XI (XO (XO XH))))))), ((Npos (XI (XO (XI (XI (XI (XO (XO (XI (XI (XO (XO
    XH)))))))))))) :: [])) :: (((Npos (XO (XI (XI (XI (XO (XO XH))))))),
    ((Npos (XI (XO (XI (XO (XO (XO XH))))))) :: [])) :: (((Npos (XI (XI (XI
    (XI (XO (XO XH))))))), ((Npos (XO (XI (XI (XO (XI (XO (XO (XI (XI (XO (XO
    XH)))))))))))) :: [])) :: (((Npos (XO (XO (XO (XO (XI (XO XH))))))),
    ((Npos (XI (XO (XI (XO (XO (XO XH))))))) :: [])) :: (((Npos (XI (XO (XO
    (XO (XI (XO XH))))))), ((Npos (XO (XI (XO (XO (XO (XO (XO (XI (XI (XO (XO
    XH)))))))))))) :: [])) :: (((Npos (XO (XI (XO (XO (XI (XO XH))))))),
    ((Npos (XI (XO (XI (XO (XO (XO XH))))))) :: [])) :: (((Npos (XI (XI (XO
    (XO (XI (XO XH))))))), ((Npos (XI (XI (XO (XO (XO (XO (XI (XI (XI (XO (XO
    XH)))))))))))) :: [])) :: (((Npos (XO (XO (XI (XO (XI (XO XH))))))),
    ((Npos (XI (XO (XI (XO (XO (XO XH))))))) :: [])) :: (((Npos (XI (XO (XI
    (XO (XI (XO XH))))))), ((Npos (XI (XO (XO (XI (XI (XO (XO (XI (XI (XO (XO
    XH)))))))))))) :: [])) :: (((Npos (XO (XI (XI (XO (XI (XO XH))))))),
    ((Npos (XI (XO (XI (XO (XO (XO XH))))))) :: [])) :: (((Npos (XI (XI (XI
    (XO (XI (XO XH))))))), ((Npos (XI (XO (XI (XI (XO
    XH)))))) :: [])) :: (((Npos (XO (XO (XO (XI (XI (XO XH))))))), ((Npos (XI
    (XO (XI (XO (XO (XO XH))))))) :: [])) :: (((Npos (XI (XO (XO (XI (XI (XO
    XH))))))), ((Npos (XI (XI (XO (XO (XO (XI (XO (XI (XI (XO (XO
    XH)))))))))))) :: [])) :: (((Npos (XO (XI (XO (XI (XI (XO XH))))))),
    ((Npos (XI (XO (XI (XO (XO (XO XH))))))) :: [])) :: (((Npos (XI (XI (XO
    (XI (XI (XO XH))))))), ((Npos (XO (XO (XI (XO (XI (XO (XO (XI (XI (XO (XO
    XH)))))))))))) :: [])) :: (((Npos (XO (XO (XI (XI (XI (XO XH))))))),
    ((Npos (XI (XO (XI (XO (XO (XO XH))))))) :: [])) :: (((Npos (XI (XO (XI
    (XI (XI (XO XH))))))), ((Npos (XI (XI (XO (XI (XO (XI (XO (XI (XI (XO (XO
    XH)))))))))))) :: [])) :: (((Npos (XO (XI (XI (XI (XI (XO XH))))))),
    ((Npos (XI (XO (XI (XO (XO (XO XH))))))) :: [])) :: (((Npos (XI (XI (XI
    (XI (XI (XO XH))))))), ((Npos (XO (XO (XO (XI (XO
    XH)))))) :: [])) :: (((Npos (XO (XO (XO (XO (XO (XI XH))))))), ((Npos (XI
    (XO (XO (XI (XI (XI (XI (XI (XI (XO (XO XH)))))))))))) :: [])) :: (((Npos
    (XI (XO (XO (XO (XO (XI XH))))))), ((Npos (XI (XO (XO (XI (XO
    XH)))))) :: [])) :: (((Npos (XO (XI (XO (XO (XO (XI XH))))))), ((Npos (XI
    (XO (XI (XO (XO (XO XH))))))) :: [])) :: (((Npos (XI (XI (XO (XO (XO (XI
    XH))))))), ((Npos (XI (XO (XI (XO (XO XH)))))) :: [])) :: (((Npos (XO (XO
    (XI (XO (XO (XI XH))))))), ((Npos (XO (XO (XI (XI (XI (XI (XO (XI (XI (XO
    (XO XH)))))))))))) :: [])) :: (((Npos (XI (XO (XI (XO (XO (XI XH))))))),
    ((Npos (XO (XO (XI (XO (XO (XI (XI (XO (XI (XO (XO
    XH)))))))))))) :: [])) :: (((Npos (XO (XI (XI (XO (XO (XI XH))))))),
    ((Npos (XI (XO (XI (XO (XO (XO XH))))))) :: [])) :: (((Npos (XI (XI (XI
    (XO (XO (XI XH))))))), ((Npos (XI (XI (XO (XI (XO
    XH)))))) :: [])) :: (((Npos (XO (XO (XO (XI (XO (XI XH))))))), ((Npos (XI
    (XO (XI (XO (XO (XO XH))))))) :: [])) :: (((Npos (XO (XI (XO (XI (XO (XI
    XH))))))), ((Npos (XI (XI (XI (XI (XI XH)))))) :: ((Npos (XI (XO (XO (XO
    (XO XH)))))) :: []))) :: (((Npos (XI (XI (XO (XI (XO (XI XH))))))),
    ((Npos (XI (XI (XI (XI (XI XH)))))) :: [])) :: (((Npos (XO (XO (XI (XI
    (XO (XI XH))))))), ((Npos (XI (XO (XI (XO (XO (XO
    XH))))))) :: [])) :: (((Npos (XI (XO (XI (XI (XO (XI XH))))))), ((Npos
    (XO (XI (XO (XO (XO XH)))))) :: [])) :: (((Npos (XO (XI (XI (XI (XO (XI
    XH))))))), ((Npos (XI (XO (XI (XI (XO (XO (XI (XI (XI (XO (XO
    XH)))))))))))) :: ((Npos (XO (XO (XO (XO (XI (XI (XO (XI (XI (XO (XO
    XH)))))))))))) :: []))) :: (((Npos (XI (XI (XI (XI (XO (XI XH))))))),
    ((Npos (XO (XO (XI (XI (XI (XO (XI (XI (XI (XO (XO
    XH)))))))))))) :: [])) :: (((Npos (XO (XO (XO (XO (XI (XI XH))))))),
    ((Npos (XI (XI (XO (XO (XO (XI (XI (XI (XI (XO (XO
    XH)))))))))))) :: [])) :: (((Npos (XI (XO (XO (XO (XI (XI XH))))))),
    ((Npos (XI (XI (XI (XO (XI (XI (XO (XI (XI (XO (XO
    XH)))))))))))) :: [])) :: (((Npos (XO (XI (XO (XO (XI (XI XH))))))),
    ((Npos (XI (XO (XI (XO (XO (XO XH))))))) :: [])) :: (((Npos (XI (XI (XO
    (XO (XI (XI XH))))))), ((Npos (XI (XI (XO (XI (XI
    XH)))))) :: [])) :: (((Npos (XO (XO (XI (XO (XI (XI XH))))))), ((Npos (XI
    (XO (XI (XO (XO (XO XH))))))) :: [])) :: (((Npos (XI (XO (XI (XO (XI (XI
    XH))))))), ((Npos (XI (XO (XI (XI (XO (XO (XI (XI (XI (XO (XO
    XH)))))))))))) :: [])) :: (((Npos (XO (XI (XI (XO (XI (XI XH))))))),
    ((Npos (XI (XO (XI (XO (XO (XO XH))))))) :: [])) :: (((Npos (XI (XI (XI
    (XO (XI (XI XH))))))), ((Npos (XO (XO (XO (XO (XO (XI (XO (XI (XI (XO (XO
    XH)))))))))))) :: [])) :: (((Npos (XO (XO (XO (XI (XI (XI XH))))))),
    ((Npos (XI (XO (XI (XO (XO (XO XH))))))) :: [])) :: (((Npos (XI (XO (XO
    (XI (XI (XI XH))))))), ((Npos (XO (XI (XI (XI (XI (XI
    XH))))))) :: [])) :: (((Npos (XO (XI (XO (XI (XI (XI XH))))))), ((Npos
    (XI (XO (XI (XO (XO (XO XH))))))) :: [])) :: (((Npos (XI (XI (XO (XI (XI
    (XI XH))))))), ((Npos (XI (XO (XO (XI (XO (XO (XO (XI (XI (XO (XO
    XH)))))))))))) :: [])) :: (((Npos (XO (XO (XI (XI (XI (XI XH))))))),
    ((Npos (XI (XO (XI (XO (XO (XO XH))))))) :: [])) :: (((Npos (XI (XO (XI
    (XI (XI (XI XH))))))), ((Npos (XI (XI (XI (XI (XI (XO
    XH))))))) :: [])) :: (((Npos (XO (XI (XI (XI (XI (XI XH))))))), ((Npos
    (XI (XO (XI (XO (XO (XO XH))))))) :: [])) :: (((Npos (XI (XI (XI (XI (XI
    (XI XH))))))), ((Npos (XI (XI (XO (XI (XO (XO (XO (XI (XI (XO (XO
    XH)))))))))))) :: [])) :: (((Npos (XO (XO (XO (XO (XO (XO (XO XH)))))))),
    ((Npos (XI (XO (XI (XO (XO (XO XH))))))) :: [])) :: (((Npos (XI (XO (XO
    (XO (XO (XO (XO XH)))))))), ((Npos (XO (XI (XO (XI (XO (XO (XO (XI (XI
    (XO (XO XH)))))))))))) :: [])) :: (((Npos (XO (XI (XO (XO (XO (XO (XO
    XH)))))))), ((Npos (XI (XO (XI (XO (XO (XO XH))))))) :: [])) :: (((Npos
    (XI (XI (XO (XO (XO (XO (XO XH)))))))), ((Npos (XI (XO (XI (XI (XI (XO
    (XI (XI (XI (XO (XO XH)))))))))))) :: [])) :: (((Npos (XO (XO (XI (XO (XO
    (XO (XO XH)))))))), ((Npos (XI (XO (XI (XO (XO (XO
    XH))))))) :: [])) :: (((Npos (XI (XO (XI (XO (XO (XO (XO XH)))))))),
    ((Npos (XO (XO (XO (XO (XI (XO (XO (XI (XI (XO (XO
    XH)))))))))))) :: [])) :: (((Npos (XO (XI (XI (XO (XO (XO (XO XH)))))))),
    ((Npos (XI (XO (XI (XI (XO (XO (XI (XI (XI (XO (XO
    XH)))))))))))) :: ((Npos (XI (XI (XI (XI (XO (XI (XO (XI (XI (XO (XO
    XH)))))))))))) :: []))) :: (((Npos (XI (XI (XI (XO (XO (XO (XO
    XH)))))))), ((Npos (XI (XI (XI (XI (XO (XI (XO (XI (XI (XO (XO
    XH)))))))))))) :: [])) :: (((Npos (XO (XO (XO (XI (XO (XO (XO XH)))))))),
    ((Npos (XO (XI (XI (XI (XI (XI (XO (XI (XI (XO (XO
    XH)))))))))))) :: ((Npos (XI (XO (XO (XO (XO (XO (XO (XI (XI (XO (XO
    XH)))))))))))) :: []))) :: (((Npos (XI (XO (XO (XI (XO (XO (XO
    XH)))))))), ((Npos (XO (XI (XI (XI (XI (XI (XO (XI (XI (XO (XO
    XH)))))))))))) :: [])) :: (((Npos (XO (XI (XO (XI (XO (XO (XO XH)))))))),
    ((Npos (XI (XO (XI (XO (XO (XO XH))))))) :: [])) :: (((Npos (XI (XI (XO
    (XI (XO (XO (XO XH)))))))), ((Npos (XO (XO (XI (XI (XO (XI (XO (XI (XI
    (XO (XO XH)))))))))))) :: [])) :: (((Npos (XO (XO (XI (XI (XO (XO (XO
    XH)))))))), ((Npos (XI (XO (XI (XO (XO (XO XH))))))) :: [])) :: (((Npos
    (XI (XO (XI (XI (XO (XO (XO XH)))))))), ((Npos (XO (XI (XO (XI (XI (XO
    (XO (XI (XI (XO (XO XH)))))))))))) :: [])) :: (((Npos (XO (XI (XI (XI (XO
    (XO (XO XH)))))))), ((Npos (XO (XO (XI (XO (XO (XO (XI (XI (XI (XO (XO
    XH)))))))))))) :: [])) :: (((Npos (XI (XI (XI (XI (XO (XO (XO XH)))))))),
    ((Npos (XI (XO (XO (XO (XO (XI (XO (XI (XI (XO (XO
    XH)))))))))))) :: [])) :: (((Npos (XO (XO (XO (XO (XI (XO (XO XH)))))))),
    []) :: (((Npos (XI (XO (XO (XO (XI (XO (XO XH)))))))), ((Npos (XO (XO (XO
    (XO (XO (XO (XI (XI (XI (XO (XO XH)))))))))))) :: [])) :: (((Npos (XI (XI
    (XO (XO (XI (XO (XO XH)))))))), ((Npos (XO (XO (XI (XO (XO (XI (XO (XI
    (XI (XO (XO XH)))))))))))) :: [])) :: (((Npos (XO (XO (XI (XO (XI (XO (XO
    XH)))))))), ((Npos (XI (XO (XI (XO (XO (XO XH))))))) :: [])) :: (((Npos
    (XI (XO (XI (XO (XI (XO (XO XH)))))))), ((Npos (XI (XI (XI (XO (XI (XO
    (XO (XI (XI (XO (XO XH)))))))))))) :: [])) :: (((Npos (XO (XI (XI (XO (XI
    (XO (XO XH)))))))), ((Npos (XI (XO (XI (XI (XO (XO (XI (XI (XI (XO (XO
    XH)))))))))))) :: ((Npos (XO (XO (XI (XI (XO (XO (XO (XO (XO (XO (XO (XO
    (XO XH)))))))))))))) :: []))) :: (((Npos (XI (XI (XI (XO (XI (XO (XO
    XH)))))))), ((Npos (XI (XO (XO (XI (XI (XI (XO (XI (XI (XO (XO
    XH)))))))))))) :: [])) :: (((Npos (XO (XO (XO (XI (XI (XO (XO XH)))))))),
    ((Npos (XI (XO (XI (XO (XO (XO XH))))))) :: [])) :: (((Npos (XI (XO (XO
    (XI (XI (XO (XO XH)))))))), ((Npos (XI (XI (XI (XI (XI (XI (XO (XI (XI
    (XO (XO XH)))))))))))) :: [])) :: (((Npos (XO (XI (XO (XI (XI (XO (XO
    XH)))))))), ((Npos (XI (XO (XI (XO (XO (XO XH))))))) :: [])) :: (((Npos
    (XI (XI (XO (XI (XI (XO (XO XH)))))))), ((Npos (XO (XO (XI (XI (XI (XO
    (XO (XI (XI (XO (XO XH)))))))))))) :: [])) :: (((Npos (XO (XO (XI (XI (XI
    (XO (XO XH)))))))), ((Npos (XI (XO (XI (XO (XI (XO (XO (XI (XI (XO (XO
    XH)))))))))))) :: ((Npos (XI (XO (XI (XI (XO (XO (XI (XI (XI (XO (XO
    XH)))))))))))) :: ((Npos (XI (XI (XI (XO (XI (XI (XO (XI (XI (XO (XO
    XH)))))))))))) :: [])))) :: (((Npos (XI (XO (XI (XI (XI (XO (XO
    XH)))))))), ((Npos (XI (XO (XI (XO (XI (XO (XO (XI (XI (XO (XO
    XH)))))))))))) :: [])) :: (((Npos (XO (XI (XI (XI (XI (XO (XO XH)))))))),
    ((Npos (XI (XI (XI (XO (XI (XO (XI (XI (XI (XO (XO
    XH)))))))))))) :: ((Npos (XI (XO (XI (XO (XI (XO (XO (XI (XI (XO (XO
    XH)))))))))))) :: []))) :: (((Npos (XI (XI (XI (XI (XI (XO (XO
    XH)))))))), ((Npos (XO (XI (XO (XO (XI (XI (XO (XI (XI (XO (XO
    XH)))))))))))) :: [])) :: (((Npos (XO (XO (XO (XO (XO (XI (XO XH)))))))),
    ((Npos (XI (XO (XI (XO (XO (XO XH))))))) :: [])) :: (((Npos (XI (XO (XO
    (XO (XO (XI (XO XH)))))))), ((Npos (XO (XI (XI (XI (XO (XI (XO (XI (XI
    (XO (XO XH)))))))))))) :: [])) :: (((Npos (XO (XI (XO (XO (XO (XI (XO
    XH)))))))), ((Npos (XI (XO (XI (XO (XO (XO XH))))))) :: [])) :: (((Npos
    (XI (XI (XO (XO (XO (XI (XO XH)))))))), ((Npos (XO (XO (XO (XI (XO (XI
    (XO (XI (XI (XO (XO XH)))))))))))) :: [])) :: (((Npos (XO (XO (XI (XO (XO
    (XI (XO XH)))))))), ((Npos (XI (XO (XI (XO (XO (XO
    XH))))))) :: [])) :: (((Npos (XI (XO (XI (XO (XO (XI (XO XH)))))))),
    ((Npos (XI (XI (XO (XO (XI (XO (XO (XI (XI (XO (XO
    XH)))))))))))) :: [])) :: (((Npos (XO (XI (XI (XO (XO (XI (XO XH)))))))),
    ((Npos (XI (XO (XI (XO (XO (XO XH))))))) :: [])) :: (((Npos (XI (XI (XI
    (XO (XO (XI (XO XH)))))))), ((Npos (XO (XI (XO (XI (XO (XI (XO (XI (XI
    (XO (XO XH)))))))))))) :: [])) :: (((Npos (XO (XO (XO (XI (XO (XI (XO
    XH)))))))), ((Npos (XI (XO (XI (XO (XO (XO XH))))))) :: [])) :: (((Npos
    (XI (XO (XO (XI (XO (XI (XO XH)))))))), []) :: (((Npos (XO (XI (XO (XI
    (XO (XI (XO XH)))))))), ((Npos (XO (XO (XO (XO (XI (XI (XO (XI (XI (XO
    (XO XH)))))))))))) :: ((Npos (XI (XO (XI (XI (XO (XO (XI (XI (XI (XO (XO
    XH)))))))))))) :: []))) :: (((Npos (XI (XI (XO (XI (XO (XI (XO
    XH)))))))), ((Npos (XO (XO (XO (XO (XI (XI (XO (XI (XI (XO (XO
    XH)))))))))))) :: [])) :: (((Npos (XO (XO (XI (XI (XO (XI (XO XH)))))))),
    ((Npos (XI (XO (XO (XO (XO (XI (XI (XI (XI (XO (XO
    XH)))))))))))) :: [])) :: (((Npos (XI (XO (XI (XI (XO (XI (XO XH)))))))),
    ((Npos (XO (XO (XO (XI (XI (XI (XO (XI (XI (XO (XO
    XH)))))))))))) :: [])) :: (((Npos (XO (XI (XI (XI (XO (XI (XO XH)))))))),
    ((Npos (XI (XO (XI (XO (XO (XO XH))))))) :: [])) :: (((Npos (XI (XI (XI
    (XI (XO (XI (XO XH)))))))), ((Npos (XI (XI (XI (XI (XI (XO (XO (XI (XI
    (XO (XO XH)))))))))))) :: [])) :: (((Npos (XO (XO (XO (XO (XI (XI (XO
    XH)))))))), ((Npos (XI (XO (XI (XO (XO (XO XH))))))) :: [])) :: (((Npos
    (XI (XO (XO (XO (XI (XI (XO XH)))))))), ((Npos (XI (XO (XO (XO (XO (XO
    (XI (XI (XI (XO (XO XH)))))))))))) :: [])) :: (((Npos (XO (XI (XO (XO (XI
    (XI (XO XH)))))))), ((Npos (XI (XO (XI (XO (XO (XO
    XH))))))) :: [])) :: (((Npos (XI (XI (XO (XO (XI (XI (XO XH)))))))),
    ((Npos (XO (XI (XI (XO (XO (XO (XO (XI (XI (XO (XO
    XH)))))))))))) :: [])) :: (((Npos (XO (XO (XI (XO (XI (XI (XO XH)))))))),
    ((Npos (XI (XO (XI (XO (XO (XO XH))))))) :: [])) :: (((Npos (XI (XO (XI
    (XO (XI (XI (XO XH)))))))), ((Npos (XO (XI (XO (XO (XO (XO (XI (XI (XI
    (XO (XO XH)))))))))))) :: [])) :: (((Npos (XO (XI (XI (XO (XI (XI (XO
    XH)))))))), ((Npos (XI (XO (XI (XO (XO (XO XH))))))) :: [])) :: (((Npos
    (XI (XI (XI (XO (XI (XI (XO XH)))))))), ((Npos (XO (XI (XI (XO (XI (XI
    (XO (XI (XI (XO (XO XH)))))))))))) :: [])) :: (((Npos (XO (XO (XO (XI (XI
    (XI (XO XH)))))))), ((Npos (XI (XO (XI (XO (XO (XO
    XH))))))) :: [])) :: (((Npos (XI (XO (XO (XI (XI (XI (XO XH)))))))),
    ((Npos (XI (XI (XI (XI (XO (XO (XO (XI (XI (XO (XO
    XH)))))))))))) :: [])) :: (((Npos (XO (XI (XO (XI (XI (XI (XO XH)))))))),
    ((Npos (XI (XO (XI (XO (XO (XO XH))))))) :: [])) :: (((Npos (XI (XI (XO
    (XI (XI (XI (XO XH)))))))), ((Npos (XI (XI (XI (XI (XI (XO (XI (XI (XI
    (XO (XO XH)))))))))))) :: [])) :: (((Npos (XO (XO (XI (XI (XI (XI (XO
    XH)))))))), ((Npos (XO (XI (XI (XO (XO (XI (XI (XI (XI (XO (XO
    XH)))))))))))) :: [])) :: (((Npos (XI (XO (XI (XI (XI (XI (XO XH)))))))),
    ((Npos (XI (XI (XI (XO (XO (XI (XI (XI (XI (XO (XO
    XH)))))))))))) :: [])) :: (((Npos (XO (XI (XI (XI (XI (XI (XO XH)))))))),
    ((Npos (XO (XO (XO (XI (XO (XI (XI (XI (XI (XO (XO
    XH)))))))))))) :: [])) :: (((Npos (XI (XI (XI (XI (XI (XI (XO XH)))))))),
    ((Npos (XI (XO (XO (XI (XO (XI (XI (XI (XI (XO (XO
    XH)))))))))))) :: [])) :: (((Npos (XO (XO (XO (XO (XO (XO (XI XH)))))))),
    ((Npos (XO (XI (XO (XI (XO (XI (XI (XI (XI (XO (XO
    XH)))))))))))) :: [])) :: (((Npos (XI (XO (XO (XO (XO (XO (XI XH)))))))),
    []) :: (((Npos (XI (XI (XO (XO (XO (XO (XI XH)))))))), ((Npos (XI (XO (XI
    (XI (XO (XI (XI (XI (XI (XO (XO XH)))))))))))) :: [])) :: (((Npos (XO (XO
    (XI (XO (XO (XO (XI XH)))))))), ((Npos (XO (XI (XI (XI (XO (XI (XI (XI
    (XI (XO (XO XH)))))))))))) :: [])) :: (((Npos (XI (XO (XI (XO (XO (XO (XI
    XH)))))))), ((Npos (XI (XI (XI (XI (XO (XI (XI (XI (XI (XO (XO
    XH)))))))))))) :: [])) :: (((Npos (XO (XI (XI (XO (XO (XO (XI XH)))))))),
    ((Npos (XI (XI (XI (XO (XO (XI (XI (XI (XI (XO (XO
    XH)))))))))))) :: ((Npos (XO (XO (XO (XI (XO (XI (XI (XI (XI (XO (XO
    XH)))))))))))) :: []))) :: (((Npos (XI (XI (XI (XO (XO (XO (XI
    XH)))))))), ((Npos (XO (XI (XI (XI (XO XH)))))) :: [])) :: (((Npos (XO
    (XO (XO (XI (XO (XO (XI XH)))))))), ((Npos (XI (XI (XI (XI (XO
    XH)))))) :: [])) :: (((Npos (XI (XO (XO (XI (XO (XO (XI XH)))))))),
    ((Npos (XO (XI (XO (XI (XO XH)))))) :: [])) :: (((Npos (XO (XI (XO (XI
    (XO (XO (XI XH)))))))), ((Npos (XI (XO (XI (XI (XO
    XH)))))) :: [])) :: [])))))))))))))))))))))))))))))))))))))))))))))))))))))))))))))))))))))))))))))))))))))))))))))))))))))))))))))))))))))))))))))))))))))))))))))))))))))))))))))))))))))))))))))))))))))))))))))))))))))))

(** val b2n : bool -> n **)

let b2n = function
| true -> Npos XH
| false -> N0

(** val lookup_code : n -> bool -> bool -> n **)

let lookup_code k altgr numpad =
  N.add
    (N.add (N.mul k (Npos (XO (XO XH)))) (N.mul (b2n altgr) (Npos (XO XH))))
    (b2n numpad)

(** val layout_lookup : n -> bool -> bool -> n option **)

let layout_lookup k altgr numpad =
  assocN (lookup_code k altgr numpad) gen_lookups

(** val layout_value : (n * str) list -> n -> str option **)

let layout_value l id =
  match assocN id l with
  | Some s -> (match s with
               | [] -> None
               | c :: v -> Some (c :: v))
  | None -> None

(** val get_char_for_key :
    (n * str) list -> n -> bool -> bool -> str option **)

let get_char_for_key l k altgr numpad =
  match layout_lookup k altgr numpad with
  | Some id -> layout_value l id
  | None -> None

(** val altgr_of : n -> bool **)

let altgr_of m =
  N.testbit m (Npos XH)

(** val keycode_to_char : n -> n option **)

let keycode_to_char k =
  assocN k gen_keychar

(** val f_key_event :
    (n * str) list -> fopts -> bool -> fstate -> n -> n -> fstate * str **)

let f_key_event l o numpad s k m =
  match get_char_for_key l k (altgr_of m) numpad with
  | Some v -> let s' = f_key o s v in (s', (f_text s'))
  | None -> (s, (f_text s))

(** val f_backspace_event : bool -> fstate -> fstate * str **)

let f_backspace_event ctrl s =
  let (s', empty) = f_backspace ctrl s in
  (s', (if empty then [] else f_text s'))

type fevent =
| FKey of n * n
| FBackspace of bool
| FCommit
| FFinish

(** val f_step :
    (n * str) list -> fopts -> bool -> fstate -> fevent -> fstate * str **)

let f_step l o numpad s = function
| FKey (k, m) -> f_key_event l o numpad s k m
| FBackspace c -> f_backspace_event c s
| _ -> (f_init, [])

(** val f_run :
    (n * str) list -> fopts -> bool -> fevent list -> fstate * str list **)

let f_run l o numpad h =
  fold_left (fun acc e ->
    let (s, outs) = acc in
    let (s', out) = f_step l o numpad s e in (s', (app outs (out :: [])))) h
    (f_init, [])
