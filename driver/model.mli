
val negb : bool -> bool

type nat =
| O
| S of nat

val app : 'a1 list -> 'a1 list -> 'a1 list

val eqb : nat -> nat -> bool

val hd : 'a1 -> 'a1 list -> 'a1

val tl : 'a1 list -> 'a1 list

val nth : nat -> 'a1 list -> 'a1 -> 'a1

val last : 'a1 list -> 'a1 -> 'a1

val rev : 'a1 list -> 'a1 list

val fold_left : ('a1 -> 'a2 -> 'a1) -> 'a2 list -> 'a1 -> 'a1

val existsb : ('a1 -> bool) -> 'a1 list -> bool

val firstn : nat -> 'a1 list -> 'a1 list

val skipn : nat -> 'a1 list -> 'a1 list

type positive =
| XI of positive
| XO of positive
| XH

type n =
| N0
| Npos of positive

module Pos :
 sig
  val succ : positive -> positive

  val add : positive -> positive -> positive

  val add_carry : positive -> positive -> positive

  val pred_double : positive -> positive

  val pred_N : positive -> n

  val mul : positive -> positive -> positive

  val eqb : positive -> positive -> bool

  val testbit : positive -> n -> bool
 end

module N :
 sig
  val add : n -> n -> n

  val mul : n -> n -> n

  val eqb : n -> n -> bool

  val testbit : n -> n -> bool
 end

type str = n list

val str_eqb : str -> str -> bool

val mem : n -> n list -> bool

val assocN : n -> (n * 'a1) list -> 'a1 option

val b_CHANDRA : n

val b_AA : n

val b_I : n

val b_II : n

val b_U : n

val b_UUU : n

val b_RRI : n

val b_E : n

val b_OI : n

val b_O : n

val b_OU : n

val b_Z : n

val b_R : n

val b_AA_KAR : n

val b_I_KAR : n

val b_II_KAR : n

val b_U_KAR : n

val b_UUU_KAR : n

val b_RRI_KAR : n

val b_VOCALIC_RR : n

val b_E_KAR : n

val b_OI_KAR : n

val b_O_KAR : n

val b_OU_KAR : n

val b_HASANTA : n

val b_LENGTH_MARK : n

val b_SANSKRIT_RR : n

val zWJ : n

val zWNJ : n

val vowels : n list

val kars : n list

val pure_consonants : n list

val ligature_making_kars : n list

val left_standing_kars : n list

val is_vowel : n -> bool

val is_kar : n -> bool

val is_pure_consonant : n -> bool

val is_ligature_making_kar : n -> bool

val is_left_standing_kar : n -> bool

val marks : n list

val is_mark : n -> bool

val vowel_of_kar : n -> n option

type fopts = { o_vowel : bool; o_chandra : bool; o_kar : bool;
               o_old_reph : bool; o_kar_order : bool }

val rmc_of : n list -> n

val push_str : n list -> str -> n list

val zofola : str

val reph : str

val is_reph_moveable : n list -> bool

val reph_scan : n list -> nat -> bool -> bool -> bool -> bool -> nat -> nat

val insert_old_style_reph : n list -> n list

val kar_chain : fopts -> n -> n list -> n -> n list

val pkv_tail : fopts -> n list -> n option -> str -> n list * n option

val independent_of_pending : n -> n

val pkv_gen :
  (n list -> n option -> str -> n list * n option) -> fopts -> n list -> n
  option -> str -> n list * n option

val pkv0 : fopts -> n list -> n option -> str -> n list * n option

val process_key_value :
  fopts -> n list -> n option -> str -> n list * n option

type fstate = { f_rb : n list; f_pend : n option }

val f_init : fstate

val f_text : fstate -> str

val f_ongoing : fstate -> bool

val f_key : fopts -> fstate -> str -> fstate

val f_backspace : bool -> fstate -> fstate * bool

val gen_keychar : (n * n) list

val gen_lookups : (n * n) list

val layout_probhat : (n * str) list

val layout_synthetic : (n * str) list

val b2n : bool -> n

val lookup_code : n -> bool -> bool -> n

val layout_lookup : n -> bool -> bool -> n option

val layout_value : (n * str) list -> n -> str option

val get_char_for_key : (n * str) list -> n -> bool -> bool -> str option

val altgr_of : n -> bool

val keycode_to_char : n -> n option

val f_key_event :
  (n * str) list -> fopts -> bool -> fstate -> n -> n -> fstate * str

val f_backspace_event : bool -> fstate -> fstate * str

type fevent =
| FKey of n * n
| FBackspace of bool
| FCommit
| FFinish

val f_step :
  (n * str) list -> fopts -> bool -> fstate -> fevent -> fstate * str

val f_run :
  (n * str) list -> fopts -> bool -> fevent list -> fstate * str list
