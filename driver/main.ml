(* Glue around the extracted model: a line-based request/response loop.
   Strings are code points joined by '.', "e" is the empty string. *)
open Model

let rec pos_of_int n = if n = 1 then XH else if n land 1 = 0 then XO (pos_of_int (n lsr 1)) else XI (pos_of_int (n lsr 1))
let n_of_int n = if n = 0 then N0 else Npos (pos_of_int n)
let rec int_of_pos = function XH -> 1 | XO p -> 2 * int_of_pos p | XI p -> 2 * int_of_pos p + 1
let int_of_n = function N0 -> 0 | Npos p -> int_of_pos p

let str_of_tok t = if t = "e" then [] else List.map (fun s -> n_of_int (int_of_string s)) (String.split_on_char '.' t)
let tok_of_str s = if s = [] then "e" else String.concat "." (List.map (fun c -> string_of_int (int_of_n c)) s)
let bool_of_tok t = t = "1"
let tok_of_bool b = if b then "1" else "0"

let fopts_of_bits b =
  { o_vowel = b land 1 <> 0; o_chandra = b land 2 <> 0; o_kar = b land 4 <> 0; o_old_reph = b land 8 <> 0; o_kar_order = b land 16 <> 0 }

let layout_of = function "p" -> layout_probhat | "s" -> layout_synthetic | l -> failwith ("layout " ^ l)

let fevent_of_tok t =
  match t.[0] with
  | 'k' -> (match String.split_on_char '.' (String.sub t 1 (String.length t - 1)) with
            | [k; m] -> FKey (n_of_int (int_of_string k), n_of_int (int_of_string m))
            | _ -> failwith "key event")
  | 'b' -> FBackspace (t = "b1")
  | 'c' -> FCommit
  | 'f' -> FFinish
  | _ -> failwith ("event " ^ t)

let handle line =
  match String.split_on_char ' ' (String.trim line) with
  | "F" :: lay :: bits :: numpad :: evs ->
      let evs = List.filter (fun s -> s <> "") evs in
      let (st, outs) = f_run (layout_of lay) (fopts_of_bits (int_of_string bits)) (bool_of_tok numpad) (List.map fevent_of_tok evs) in
      "R " ^ tok_of_bool (f_ongoing st) ^ " " ^ String.concat " " (List.map tok_of_str outs)
  | "FO" :: lay :: bits :: numpad :: evs ->
      let evs = List.filter (fun s -> s <> "") evs in
      let obs = f_run_obs (layout_of lay) (fopts_of_bits (int_of_string bits)) (bool_of_tok numpad) (List.map fevent_of_tok evs) in
      "R " ^ String.concat " " (List.map (fun (t, o) -> tok_of_str t ^ "/" ^ tok_of_bool o) obs)
  | ["PKV"; bits; rb; pend; v] ->
      let pend = if pend = "n" then None else Some (n_of_int (int_of_string pend)) in
      let (rb', pend') = process_key_value (fopts_of_bits (int_of_string bits)) (str_of_tok rb) pend (str_of_tok v) in
      "R " ^ tok_of_str rb' ^ " " ^ (match pend' with None -> "n" | Some c -> string_of_int (int_of_n c))
  | ["S12"; bits; p; v] ->
      "R " ^ tok_of_str (rule_table reph_spec (fopts_of_bits (int_of_string bits)) (str_of_tok p) (str_of_tok v))
  | ["S13"; p] ->
      let p = str_of_tok p in "R " ^ tok_of_bool (wf_hasanta p) ^ " " ^ tok_of_str (reph_spec p)
  | ["PING"] -> "R pong"
  | _ -> "E bad request"

let () =
  try
    while true do
      let line = input_line stdin in
      let resp = try handle line with e -> "E " ^ Printexc.to_string e in
      print_string resp; print_char '\n'; flush stdout
    done
  with End_of_file -> ()
