(* Glue around the extracted model: a line-based request/response loop.
   Strings are code points joined by '.', "e" is the empty string.
   Oracles (third-party crates and bulk data) are answered by the harness: while a request is being
   evaluated the driver may print "Q <kind> <args>" and reads the answer "A <value>" from stdin;
   answers are memoised for the life of the process. *)
open Model

let rec pos_of_int n = if n = 1 then XH else if n land 1 = 0 then XO (pos_of_int (n lsr 1)) else XI (pos_of_int (n lsr 1))
let n_of_int n = if n = 0 then N0 else Npos (pos_of_int n)
let rec int_of_pos = function XH -> 1 | XO p -> 2 * int_of_pos p | XI p -> 2 * int_of_pos p + 1
let int_of_n = function N0 -> 0 | Npos p -> int_of_pos p
let rec nat_of_int n = if n <= 0 then O else S (nat_of_int (n - 1))
let rec int_of_nat = function O -> 0 | S n -> 1 + int_of_nat n

let str_of_tok t = if t = "e" || t = "" then [] else List.map (fun s -> n_of_int (int_of_string s)) (String.split_on_char '.' t)
let tok_of_str s = if s = [] then "e" else String.concat "." (List.map (fun c -> string_of_int (int_of_n c)) s)
let bool_of_tok t = t = "1"
let tok_of_bool b = if b then "1" else "0"
let list_of_tok t = if t = "-" || t = "" then [] else List.map str_of_tok (String.split_on_char '+' t)
let tok_of_list l = if l = [] then "-" else String.concat "+" (List.map tok_of_str l)
let assoc_of_tok t =
  if t = "-" || t = "" then []
  else List.map (fun kv -> match String.split_on_char '=' kv with
                           | [k; v] -> (str_of_tok k, str_of_tok v)
                           | _ -> failwith "assoc") (String.split_on_char ',' t)

(* ---------------------------------------------------------------- oracles answered by the harness *)
let cache : (string, string) Hashtbl.t = Hashtbl.create 65536
let query (q : string) : string =
  match Hashtbl.find_opt cache q with
  | Some a -> a
  | None ->
      print_string ("Q " ^ q ^ "\n"); flush stdout;
      let line = input_line stdin in
      let a = if String.length line >= 2 && String.sub line 0 2 = "A " then String.sub line 2 (String.length line - 2)
              else if line = "A" then "" else failwith ("oracle answer expected, got " ^ line) in
      if Hashtbl.length cache < 3_000_000 then Hashtbl.add cache q a;
      a

let opt_str a = if a = "n" then None else Some (str_of_tok (String.sub a 1 (String.length a - 1)))
let opt_list a = if a = "n" then None else Some (list_of_tok (String.sub a 1 (String.length a - 1)))

let oracles : oracles = {
  conv = (fun s -> if s = [] then [] else str_of_tok (query ("conv " ^ tok_of_str s)));
  hits = (fun t w -> list_of_tok (query ("hits " ^ tok_of_str t ^ " " ^ tok_of_str w)));
  edist = (fun a b -> n_of_int (int_of_string (query ("ed " ^ tok_of_str a ^ " " ^ tok_of_str b))));
  ac_sys = (fun w -> opt_str (query ("ac " ^ tok_of_str w)));
  suffix_of = (fun w -> opt_str (query ("suf " ^ tok_of_str w)));
  emoticon = (fun w -> opt_str (query ("emo " ^ tok_of_str w)));
  emoji_name = (fun w -> opt_list (query ("ename " ^ tok_of_str w)));
  dict = (fun t cw -> list_of_tok (query ("dict " ^ tok_of_str t ^ " " ^ tok_of_str cw)));
  emoji_bn = (fun w -> opt_list (query ("ebn " ^ tok_of_str w)));
  bijoy = (fun s -> str_of_tok (query ("bijoy " ^ tok_of_str s)));
}

(* ---------------------------------------------------------------- fixed composition (lonely) *)
let fopts_of_bits b =
  { o_vowel = b land 1 <> 0; o_chandra = b land 2 <> 0; o_kar = b land 4 <> 0; o_old_reph = b land 8 <> 0; o_kar_order = b land 16 <> 0 }

let layout_of = function "p" -> layout_probhat | "s" -> layout_synthetic | l -> failwith ("layout " ^ l)

let fevent_of_tok t =
  match t.[0] with
  | 'k' -> (match String.split_on_char '.' (String.sub t 1 (String.length t - 1)) with
            | [k; m] -> FKey (n_of_int (int_of_string k), n_of_int (int_of_string m))
            | _ -> failwith "key event")
  | 'b' -> FBackspace (t = "b1")
  | 'c' -> FCommit
  | 'f' -> FFinish
  | _ -> failwith ("event " ^ t)

(* ---------------------------------------------------------------- outputs *)
let tok_of_output o ongoing =
  (match o with
   | OFull (aux, l, sel, ansi) -> "F:" ^ string_of_int (int_of_nat sel) ^ ":" ^ tok_of_bool ansi ^ ":" ^ tok_of_str aux ^ ":" ^ tok_of_list l
   | OSingle (s, ansi) -> "S:" ^ tok_of_bool ansi ^ ":" ^ tok_of_str s
   | OUnit -> "U") ^ ":" ^ tok_of_bool ongoing

(* ---------------------------------------------------------------- phonetic *)
let pcfg_of_bits b = { c_english = b land 1 <> 0; c_suggest = b land 2 <> 0; c_ansi = b land 4 <> 0; c_smart = b land 8 <> 0 }

let pevent_of_tok t =
  let rest = String.sub t 1 (String.length t - 1) in
  match t.[0] with
  | 'k' -> (match String.split_on_char '.' rest with
            | [k; s] -> PKey (n_of_int (int_of_string k), n_of_int (int_of_string s))
            | _ -> failwith "key event")
  | 'b' -> PBackspace (t = "b1")
  | 'c' -> PCommit (nat_of_int (int_of_string rest))
  | 'f' -> PFinish
  | 'u' -> (match String.split_on_char ':' rest with
            | [bits; "n"] -> PUpdate (pcfg_of_bits (int_of_string bits), None)
            | [bits; r] -> PUpdate (pcfg_of_bits (int_of_string bits), Some (assoc_of_tok r))
            | _ -> failwith "update event")
  | _ -> failwith ("event " ^ t)

let run_phonetic bits uac sels evs =
  let rec go c s evs acc =
    match evs with
    | [] -> List.rev acc
    | e :: t ->
        (match p_step oracles c s e with
         | Some ((c', s'), o) -> go c' s' t (tok_of_output o (p_ongoing s') :: acc)
         | None -> List.rev ("PANIC" :: acc))
  in
  go (pcfg_of_bits bits) (p_new uac sels) evs []

(* ---------------------------------------------------------------- fixed with suggestions *)
let xcfg_of_bits b =
  { x_opts = fopts_of_bits (b land 31); x_numpad = b land 32 <> 0; x_suggest = b land 64 <> 0; x_english = b land 128 <> 0;
    x_ansi = b land 256 <> 0; x_smart = b land 512 <> 0 }

let xevent_of_tok t =
  let rest = String.sub t 1 (String.length t - 1) in
  match t.[0] with
  | 'k' -> (match String.split_on_char '.' rest with
            | [k; m] -> XKey (n_of_int (int_of_string k), n_of_int (int_of_string m))
            | _ -> failwith "key event")
  | 'b' -> XBackspace (t = "b1")
  | 'c' -> XCommit
  | 'f' -> XFinish
  | 'u' -> XUpdate (xcfg_of_bits (int_of_string rest))
  | _ -> failwith ("event " ^ t)

(* the sorted list before the cut, each item with the number of its tie group, for comparison modulo sort_unstable *)
let parts_tok c s =
  let ((l, cut), tail) = dictionary_suggestion_parts oracles c (x_buffer s) s.x_typed in
  let rec groups prev g = function
    | [] -> []
    | x :: t -> let g' = (match prev with Some p when rank_cmp p x = Eq -> g | Some _ -> g + 1 | None -> g) in
                (string_of_int g' ^ "~" ^ tok_of_str (rstr x)) :: groups (Some x) g' t in
  let items = groups None 0 l in
  string_of_int (int_of_nat cut) ^ ":" ^ (match tail with Some x -> "t" ^ tok_of_str (rstr x) | None -> "n") ^ ":"
  ^ (if items = [] then "-" else String.concat "+" items)

let run_fixed lay bits evs =
  let rec go c s evs acc =
    match evs with
    | [] -> List.rev acc
    | e :: t ->
        let ((c', s'), o) = x_step oracles (layout_of lay) c s e in
        let extra = (match o with OFull _ -> ":" ^ parts_tok c' s' | _ -> "") in
        go c' s' t ((tok_of_output o (x_ongoing s') ^ extra) :: acc)
  in
  go (xcfg_of_bits bits) x_init evs []

(* ---------------------------------------------------------------- long-lived sessions *)
let psessions : (string, pcfg * pstate) Hashtbl.t = Hashtbl.create 16
let xsessions : (string, string * xcfg * xstate) Hashtbl.t = Hashtbl.create 16
let tok_of_assoc l = if l = [] then "-" else String.concat "," (List.map (fun (k, v) -> tok_of_str k ^ "=" ^ tok_of_str v) l)

let handle line =
  match String.split_on_char ' ' (String.trim line) with
  | "F" :: lay :: bits :: numpad :: evs ->
      let evs = List.filter (fun s -> s <> "") evs in
      let (st, outs) = f_run (layout_of lay) (fopts_of_bits (int_of_string bits)) (bool_of_tok numpad) (List.map fevent_of_tok evs) in
      "R " ^ tok_of_bool (f_ongoing st) ^ " " ^ String.concat " " (List.map tok_of_str outs)
  | "FO" :: lay :: bits :: numpad :: evs ->
      let evs = List.filter (fun s -> s <> "") evs in
      let obs = f_run_obs (layout_of lay) (fopts_of_bits (int_of_string bits)) (bool_of_tok numpad) (List.map fevent_of_tok evs) in
      "R " ^ String.concat " " (List.map (fun (t, o) -> tok_of_str t ^ "/" ^ tok_of_bool o) obs)
  | "P" :: bits :: uac :: sels :: evs ->
      let evs = List.filter (fun s -> s <> "") evs in
      "R " ^ String.concat " " (run_phonetic (int_of_string bits) (assoc_of_tok uac) (assoc_of_tok sels) (List.map pevent_of_tok evs))
  | "X" :: lay :: bits :: evs ->
      let evs = List.filter (fun s -> s <> "") evs in
      "R " ^ String.concat " " (run_fixed lay (int_of_string bits) (List.map xevent_of_tok evs))
  | ["PNEW"; id; bits; uac; sels] ->
      Hashtbl.replace psessions id (pcfg_of_bits (int_of_string bits), p_new (assoc_of_tok uac) (assoc_of_tok sels)); "R ok"
  | ["PEV"; id; ev] ->
      (match Hashtbl.find_opt psessions id with
       | None -> "E no phonetic session"
       | Some (c, s) ->
           (match p_step oracles c s (pevent_of_tok ev) with
            | Some ((c', s'), o) -> Hashtbl.replace psessions id (c', s'); "R " ^ tok_of_output o (p_ongoing s')
            | None -> "R PANIC"))
  | ["PSELS"; id] ->
      (match Hashtbl.find_opt psessions id with None -> "E no phonetic session" | Some (_, s) -> "R " ^ tok_of_assoc s.p_sels)
  | ["PSTATE"; id] ->
      (match Hashtbl.find_opt psessions id with None -> "E no phonetic session"
       | Some (_, s) -> "R " ^ tok_of_str s.p_buf ^ " " ^ string_of_int (int_of_nat s.p_prev) ^ " " ^ tok_of_list (List.map fst s.p_memo))
  | ["DROP"; id] -> Hashtbl.remove psessions id; Hashtbl.remove xsessions id; "R ok"
  | ["XNEW"; id; lay; bits] -> Hashtbl.replace xsessions id (lay, xcfg_of_bits (int_of_string bits), x_init); "R ok"
  | ["XEV"; id; ev] ->
      (match Hashtbl.find_opt xsessions id with
       | None -> "E no fixed session"
       | Some (lay, c, s) ->
           let ((c', s'), o) = x_step oracles (layout_of lay) c s (xevent_of_tok ev) in
           Hashtbl.replace xsessions id (lay, c', s');
           let extra = (match o with OFull _ -> ":" ^ parts_tok c' s' | _ -> "") in
           "R " ^ tok_of_output o (x_ongoing s') ^ extra)
  | ["SPLIT"; s; colon] ->
      let ((a, b), c) = split (str_of_tok s) (bool_of_tok colon) in
      "R " ^ tok_of_str a ^ " " ^ tok_of_str b ^ " " ^ tok_of_str c
  | ["SQ"; s; colon] ->
      let ((a, b), c) = smart_quoter (split (str_of_tok s) (bool_of_tok colon)) in
      "R " ^ tok_of_str a ^ " " ^ tok_of_str b ^ " " ^ tok_of_str c
  | ["PKV"; bits; rb; pend; v] ->
      let pend = if pend = "n" then None else Some (n_of_int (int_of_string pend)) in
      let (rb', pend') = process_key_value (fopts_of_bits (int_of_string bits)) (str_of_tok rb) pend (str_of_tok v) in
      "R " ^ tok_of_str rb' ^ " " ^ (match pend' with None -> "n" | Some c -> string_of_int (int_of_n c))
  | ["S12"; bits; p; v] ->
      "R " ^ tok_of_str (rule_table reph_spec (fopts_of_bits (int_of_string bits)) (str_of_tok p) (str_of_tok v))
  | ["S13"; p] ->
      let p = str_of_tok p in "R " ^ tok_of_bool (wf_hasanta p) ^ " " ^ tok_of_str (reph_spec p)
  | ["PING"] -> "R pong"
  | _ -> "E bad request"

let () =
  try
    while true do
      let line = input_line stdin in
      let resp = try handle line with e -> "E " ^ Printexc.to_string e in
      print_string resp; print_char '\n'; flush stdout
    done
  with End_of_file -> ()
